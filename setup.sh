#!/bin/sh
# Builds /verif/.venv offline: Python 3.12 (same interpreter family as /venv, which has the
# repo's deps + editable install of /repo) plus z3-solver, cvc5, crosshair, deal, icontract,
# jsonschema from the offline wheelhouse.
set -e
cd "$(dirname "$0")"
V=.venv
if [ ! -x "$V/bin/python" ] || ! "$V/bin/python" -c 'import z3, cvc5, jsonschema, unified_planning' 2>/dev/null; then
  rm -rf "$V"
  /venv/bin/python -m venv "$V"
  PIP_NO_INDEX=1 "$V/bin/python" -m pip install -q --no-index --find-links /opt/veriftools/wheels \
      z3-solver cvc5 jsonschema crosshair-tool deal icontract hypothesis >/dev/null
  echo "import site; site.addsitedir('/venv/lib/python3.12/site-packages')" \
      > "$V/lib/python3.12/site-packages/_repo_deps.pth"
fi
"$V/bin/python" - <<'PY'
import z3, cvc5, jsonschema, unified_planning, sys
print("setup ok: python", sys.version.split()[0], "z3", z3.get_version_string(), "up", unified_planning.__file__)
PY

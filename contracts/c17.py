"""C17 — linearity and monotonicity analysis is sound.

B: random numeric expressions over bounded fluents and a parameter with a negative range: when the real LinearChecker
reports `linear` and lists a fluent only as positive (negative), the value is non-decreasing (non-increasing) in that
fluent along random pairs of interpretations that differ in that fluent only; products of two fluent-dependent factors
and quotients with a fluent-dependent divisor are never reported linear.
"""
import warnings
from fractions import Fraction

UNITS = []
USES_THEORY = False


def bounded(tier, seed):
    from rtc.exprgen import ExprGen
    from spec.ev import ev
    from unified_planning.model.walkers import LinearChecker
    from unified_planning.shortcuts import Times, Div, Plus, Minus, Int, Real
    from unified_planning.model.operators import OperatorKind as OK
    n = 1500 if tier == "quick" else 30000
    g = ExprGen(seed + 3, big=False, bounded_types=True)
    rng = g.rng
    em = g.pr.environment.expression_manager
    par = em.ParameterExp(g.params[1])          # integer parameter in [-3, -1]
    lc = LinearChecker(g.pr)
    failures, evals, nontrivial, samples = [], 0, set(), []

    def num(depth):
        r = rng.random()
        if depth <= 0 or r < 0.3:
            return rng.choice([g.x(), g.y(), g.z(), par, Int(rng.randint(-3, 3)), Real(Fraction(rng.randint(-5, 5), 2))])
        if r < 0.5:
            return Plus(num(depth - 1), num(depth - 1))
        if r < 0.65:
            return Minus(num(depth - 1), num(depth - 1))
        if r < 0.85:
            return Times(num(depth - 1), num(depth - 1))
        d = num(depth - 1)
        return Div(num(depth - 1), d)

    def fluents_in(e, acc):
        if e.is_fluent_exp():
            acc.add(e)
        for a in e.args:
            fluents_in(a, acc)
        return acc
    with warnings.catch_warnings():
        warnings.simplefilter("ignore")
        for i in range(n):
            try:
                e = num(3)
                lin, pos, neg = lc.get_fluents(e)
            except (ZeroDivisionError, AssertionError):
                continue
            except Exception as ex:  # noqa
                failures.append({"what": f"get_fluents raised {type(ex).__name__}: {ex}", "concrete": {"expression": str(e)}, "observed": repr(ex)})
                continue
            evals += 1
            se = e.simplify()
            # structural non-linearity clause (on the simplified expression, which is what the checker analyses)

            def nonlinear(x):
                if x.node_type == OK.TIMES and sum(1 for a in x.args if fluents_in(a, set())) >= 2:
                    return True
                if x.node_type == OK.DIV and fluents_in(x.arg(1), set()):
                    return True
                return any(nonlinear(a) for a in x.args)
            if lin and nonlinear(se):
                failures.append({"what": "product of two fluent-dependent factors / fluent-dependent divisor reported linear",
                                 "concrete": {"expression": str(e)}, "observed": {"simplified": str(se)}})
                continue
            if not lin:
                continue
            nontrivial.add(str(e))
            for f in pos | neg:
                only_pos, only_neg = f in pos and f not in neg, f in neg and f not in pos
                if not (only_pos or only_neg):
                    continue
                for _ in range(4):
                    base = {}
                    lk0 = g.interp(within_types=True)

                    def lk(fl, args, d=None):
                        return lk0(fl, args)
                    key = (f.fluent().name, ())
                    t = f.fluent().type
                    lo = t.lower_bound if t.lower_bound is not None else -6
                    hi = t.upper_bound if t.upper_bound is not None else 6
                    a, b = sorted([lo + (hi - lo) * Fraction(rng.randint(0, 8), 8), lo + (hi - lo) * Fraction(rng.randint(0, 8), 8)])
                    if t.is_int_type():
                        a, b = int(a), int(b)

                    def mk(v):
                        return lambda fl, args: v if fl == f.fluent() else lk0(fl, args)
                    env = {g.params[1]: rng.choice([-3, -2, -1]), g.params[0]: g.objs[0]}
                    try:
                        va, vb = ev(e, mk(a), env, g.pr), ev(e, mk(b), env, g.pr)
                    except ZeroDivisionError:
                        continue
                    if (only_pos and va > vb) or (only_neg and va < vb):
                        failures.append({"what": f"fluent {f} reported only {'positive' if only_pos else 'negative'} but the value "
                                                 f"{'decreases' if only_pos else 'increases'} with it",
                                         "concrete": {"expression": str(e), "fluent": str(f)},
                                         "observed": {str(a): str(va), str(b): str(vb), "parameter n": env[g.params[1]]}})
                        break
            if len(samples) < 3 and i % 173 == 4:
                samples.append({"expression": str(e)[:120], "linear": lin, "positive": sorted(map(str, pos)), "negative": sorted(map(str, neg))})
            if len(failures) >= 6:
                break
    return {"evaluations": evals, "distinct_nontrivial": len(nontrivial), "failures": failures[:6],
            "rule": f"{n} random numeric expressions (depth <= 3) over bounded fluents x, y, z and a parameter n in [-3,-1]; for each fluent "
                    f"reported with one sign, 4 pairs of type-respecting interpretations differing in that fluent only; non-trivial = "
                    f"expression reported linear", "samples": samples, "bound": f"{n} expressions"}


LEVEL = "exploration"
EXPLANATION = __doc__

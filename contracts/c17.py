r"""C17 — linearity and monotonicity analysis is sound.

P (fold schema with TWO interpretations, DESIGN.md C17): fix one fluent expression f and two interpretations I, I' that agree on
every parameter and every fluent expression except f, with I(f) <= I'(f).  For every numeric operator kind the handler the real
LinearChecker dispatches it to is executed symbolically from /repo's source against the local obligation
   (every child j: linear_j => value of child j is monotone in f as its (pos_j, neg_j) say)
   =>  linear => ( f only in pos => value(e) <= value'(e) ;  f only in neg => value(e) >= value'(e) ;  f in neither => equal )
PLUS and TIMES for every arity (loop invariants over a symbolic list of child results; nonlinear real arithmetic for the sign
bookkeeping of walk_times), MINUS, DIV, fluent leaves, constants and parameters.  The non-linearity clause of the statement is
proved too: a product with two fluent-dependent factors / a quotient whose divisor has fluents returns linear = False.
The signs of fluent-free factors come from TypeChecker.get_type, assumed sound for both interpretations (that is C15).

B: random numeric expressions over bounded fluents and a parameter with a negative range: when the real LinearChecker
reports `linear` and lists a fluent only as positive (negative), the value is non-decreasing (non-increasing) in that
fluent along random pairs of interpretations that differ in that fluent only; products of two fluent-dependent factors
and quotients with a fluent-dependent divisor are never reported linear.
"""
import warnings
from fractions import Fraction

USES_THEORY = True


def bounded(tier, seed):
    from rtc.exprgen import ExprGen
    from spec.ev import ev
    from unified_planning.model.walkers import LinearChecker
    from unified_planning.shortcuts import Times, Div, Plus, Minus, Int, Real
    from unified_planning.model.operators import OperatorKind as OK
    n = 1500 if tier == "quick" else 30000
    g = ExprGen(seed + 3, big=False, bounded_types=True)
    rng = g.rng
    em = g.pr.environment.expression_manager
    par = em.ParameterExp(g.params[1])          # integer parameter in [-3, -1]
    lc = LinearChecker(g.pr)
    failures, evals, nontrivial, samples = [], 0, set(), []

    def num(depth):
        r = rng.random()
        if depth <= 0 or r < 0.3:
            return rng.choice([g.x(), g.y(), g.z(), par, Int(rng.randint(-3, 3)), Real(Fraction(rng.randint(-5, 5), 2))])
        if r < 0.5:
            return Plus(num(depth - 1), num(depth - 1))
        if r < 0.65:
            return Minus(num(depth - 1), num(depth - 1))
        if r < 0.85:
            return Times(num(depth - 1), num(depth - 1))
        d = num(depth - 1)
        return Div(num(depth - 1), d)

    def fluents_in(e, acc):
        if e.is_fluent_exp():
            acc.add(e)
        for a in e.args:
            fluents_in(a, acc)
        return acc
    with warnings.catch_warnings():
        warnings.simplefilter("ignore")
        for i in range(n):
            try:
                e = num(3)
                lin, pos, neg = lc.get_fluents(e)
            except (ZeroDivisionError, AssertionError):
                continue
            except Exception as ex:  # noqa
                failures.append({"what": f"get_fluents raised {type(ex).__name__}: {ex}", "concrete": {"expression": str(e)}, "observed": repr(ex)})
                continue
            evals += 1
            se = e.simplify()
            # structural non-linearity clause (on the simplified expression, which is what the checker analyses)

            def nonlinear(x):
                if x.node_type == OK.TIMES and sum(1 for a in x.args if fluents_in(a, set())) >= 2:
                    return True
                if x.node_type == OK.DIV and fluents_in(x.arg(1), set()):
                    return True
                return any(nonlinear(a) for a in x.args)
            if lin and nonlinear(se):
                failures.append({"what": "product of two fluent-dependent factors / fluent-dependent divisor reported linear",
                                 "concrete": {"expression": str(e)}, "observed": {"simplified": str(se)}})
                continue
            if not lin:
                continue
            nontrivial.add(str(e))
            for f in pos | neg:
                only_pos, only_neg = f in pos and f not in neg, f in neg and f not in pos
                if not (only_pos or only_neg):
                    continue
                for _ in range(4):
                    base = {}
                    lk0 = g.interp(within_types=True)

                    def lk(fl, args, d=None):
                        return lk0(fl, args)
                    key = (f.fluent().name, ())
                    t = f.fluent().type
                    lo = t.lower_bound if t.lower_bound is not None else -6
                    hi = t.upper_bound if t.upper_bound is not None else 6
                    a, b = sorted([lo + (hi - lo) * Fraction(rng.randint(0, 8), 8), lo + (hi - lo) * Fraction(rng.randint(0, 8), 8)])
                    if t.is_int_type():
                        a, b = int(a), int(b)

                    def mk(v):
                        return lambda fl, args: v if fl == f.fluent() else lk0(fl, args)
                    env = {g.params[1]: rng.choice([-3, -2, -1]), g.params[0]: g.objs[0]}
                    try:
                        va, vb = ev(e, mk(a), env, g.pr), ev(e, mk(b), env, g.pr)
                    except ZeroDivisionError:
                        continue
                    if (only_pos and va > vb) or (only_neg and va < vb):
                        failures.append({"what": f"fluent {f} reported only {'positive' if only_pos else 'negative'} but the value "
                                                 f"{'decreases' if only_pos else 'increases'} with it",
                                         "concrete": {"expression": str(e), "fluent": str(f)},
                                         "observed": {str(a): str(va), str(b): str(vb), "parameter n": env[g.params[1]]}})
                        break
            if len(samples) < 3 and i % 173 == 4:
                samples.append({"expression": str(e)[:120], "linear": lin, "positive": sorted(map(str, pos)), "negative": sorted(map(str, neg))})
            if len(failures) >= 6:
                break
    return {"evaluations": evals, "distinct_nontrivial": len(nontrivial), "failures": failures[:6],
            "rule": f"{n} random numeric expressions (depth <= 3) over bounded fluents x, y, z and a parameter n in [-3,-1]; for each fluent "
                    f"reported with one sign, 4 pairs of type-respecting interpretations differing in that fluent only; non-trivial = "
                    f"expression reported linear", "samples": samples, "bound": f"{n} expressions"}




# ======================================================================================================= proved layer
import z3
from pyvc.values import Ref, Seq, Set, Tup, Bool as PBool, SBool, SReal, SUnion, SSeq, SSet, Rec, CList, Loc, fresh_name, zbool, zint, Unsupported
from pyvc.verify import Unit
from pyvc.engine import LoopSpec
from pyvc import builtins as B
from . import theory as T
from .theory import OK, evn, args_arr, args_len, ssum, sprod, node_type, OKT
import unified_planning.model.types as _types
import unified_planning.model.walkers.linear_checker as _lc
from unified_planning.model.walkers.generic import nt_to_fun

QN = "unified_planning.model.walkers.linear_checker.LinearChecker."
_F = T.FNode.z3sort()
_ARR = z3.ArraySort(z3.IntSort(), _F)
evn2 = z3.Function("evn2", _F, z3.RealSort())                  # the second interpretation
ssum2 = z3.Function("ssum2", _ARR, z3.IntSort(), z3.RealSort())
sprod2 = z3.Function("sprod2", _ARR, z3.IntSort(), z3.RealSort())
FOCUS = z3.Const("focus_fluent_expression", _F)                # the fluent expression f the two interpretations differ on

Type17 = Ref("Type17", _types.Type)
Type17.isinstance_hook = lambda e, st, v, clss: True           # `assert isinstance(t, _IntType) or isinstance(t, _RealType)`: numeric children (C15)
_TS = Type17.z3sort()
lbnone, ubnone = z3.Function("Type17.lb.isnone", _TS, z3.BoolSort()), z3.Function("Type17.ub.isnone", _TS, z3.BoolSort())
lbR, ubR = z3.Function("Type17.lb", _TS, z3.RealSort()), z3.Function("Type17.ub", _TS, z3.RealSort())
Type17.attrs["lower_bound"] = lambda eng, st, t: SUnion([(lbnone(t.z), None), (z3.Not(lbnone(t.z)), SReal(lbR(t.z)))])
Type17.attrs["upper_bound"] = lambda eng, st, t: SUnion([(ubnone(t.z), None), (z3.Not(ubnone(t.z)), SReal(ubR(t.z)))])
TC17 = Ref("TypeChecker17")
Env17 = Ref("Environment17", fields={"type_checker": TC17})
_type_of = z3.Function("TypeChecker.get_type", _F, _TS)


def _get_type(eng, st, selfv, args, kw):
    """callee contract = C15: the inferred interval contains the value of the expression under every interpretation within the
    declared types (here: under both I and I')"""
    (x,) = args
    t = _type_of(x.z)
    for ev_ in (evn, evn2):
        st.assume(z3.Or(lbnone(t), lbR(t) <= ev_(x.z)), z3.Or(ubnone(t), ev_(x.z) <= ubR(t)))
    yield st, Type17.wrap(t)


TC17.methods["get_type"] = _get_type
TRIPLE = Tup(PBool, Set(T.FNode), Set(T.FNode))


def sem2_axioms():
    """defining equations of the numeric operators for the second interpretation (same text as theory.sem_eq)"""
    e = z3.Const("e!sem2", _F)
    a, n = z3.Const("a!ax2", _ARR), z3.Int("n!ax2")
    arr, ln = args_arr(e), args_len(e)
    a0, a1 = z3.Select(arr, 0), z3.Select(arr, 1)
    C = OKT.consts
    pi = B._uf("FNode.payload.INT_CONSTANT", _F, z3.IntSort())
    pr_ = B._uf("FNode.payload.REAL_CONSTANT", _F, z3.RealSort())
    return [z3.ForAll([e], z3.Implies(node_type(e) == C[OK.PLUS], evn2(e) == ssum2(arr, ln)), patterns=[node_type(e)]),
            z3.ForAll([e], z3.Implies(node_type(e) == C[OK.TIMES], evn2(e) == sprod2(arr, ln)), patterns=[node_type(e)]),
            z3.ForAll([e], z3.Implies(node_type(e) == C[OK.MINUS], evn2(e) == evn2(a0) - evn2(a1)), patterns=[node_type(e)]),
            # quotient in multiplicative form (q * d == n for d != 0): the same real number, friendlier to the nonlinear solver
            z3.ForAll([e], z3.Implies(z3.And(node_type(e) == C[OK.DIV], evn2(a1) != 0), evn2(e) * evn2(a1) == evn2(a0)), patterns=[node_type(e)]),
            z3.ForAll([e], z3.Implies(z3.And(node_type(e) == C[OK.DIV], evn(a1) != 0), evn(e) * evn(a1) == evn(a0)), patterns=[node_type(e)]),
            z3.ForAll([e], z3.Implies(node_type(e) == C[OK.INT_CONSTANT], evn2(e) == z3.ToReal(pi(e))), patterns=[node_type(e)]),
            z3.ForAll([e], z3.Implies(node_type(e) == C[OK.REAL_CONSTANT], evn2(e) == pr_(e)), patterns=[node_type(e)]),
            z3.ForAll([a], ssum2(a, 0) == 0),
            z3.ForAll([a, n], z3.Implies(n > 0, ssum2(a, n) == ssum2(a, n - 1) + evn2(z3.Select(a, n - 1))), patterns=[ssum2(a, n)]),
            z3.ForAll([a], sprod2(a, 0) == 1),
            z3.ForAll([a, n], z3.Implies(n > 0, sprod2(a, n) == sprod2(a, n - 1) * evn2(z3.Select(a, n - 1))), patterns=[sprod2(a, n)])]


def mono(lin, inpos, inneg, v, v2):
    """the fold property for one node: (linear, f in pos, f in neg) against the two values"""
    return z3.Implies(lin, z3.And(z3.Implies(z3.And(inpos, z3.Not(inneg)), v <= v2),
                                  z3.Implies(z3.And(inneg, z3.Not(inpos)), v >= v2),
                                  z3.Implies(z3.And(z3.Not(inpos), z3.Not(inneg)), v == v2)))


def mem(eng, st, setv):
    """z3 Bool: FOCUS in the (possibly still concrete / empty) python set value"""
    c = eng.deref(st, setv)
    if isinstance(c, SSet):
        return z3.Select(c.has, FOCUS)
    if isinstance(c, B.PendingEmpty):
        return z3.BoolVal(False)
    if isinstance(c, B.CSet):
        items = list(c.items)
        return z3.Or([x.z == FOCUS for x in items]) if items else z3.BoolVal(False)
    raise Unsupported(f"set value {c!r}")


def triple_parts(z):
    """(b, f in spf, f in snf, spf nonempty or snf nonempty) of a z3 triple"""
    TRIPLE.z3sort()
    b, sp, sn = (acc(z) for acc in TRIPLE._acc)
    empty = z3.K(_F, z3.BoolVal(False))
    return b, z3.Select(sp, FOCUS), z3.Select(sn, FOCUS), z3.Or(sp != empty, sn != empty)


class LinHandler(Unit):
    prop = "C17"

    def __init__(self, kind):
        self.kind = kind
        self.fn = getattr(_lc.LinearChecker, nt_to_fun(kind))
        self.name = f"LinearChecker[{kind.name}] -> {self.fn.__name__}"
        self.doc = "children monotone in f as reported  =>  the node is monotone in f as reported (two interpretations differing on f only)"

    def target(self):
        return self.fn

    def configure(self, eng):
        kinds = (OK.PLUS, OK.TIMES, OK.MINUS, OK.INT_CONSTANT, OK.REAL_CONSTANT)
        eng.axioms += T.semantic_axioms(kinds) + T.fold_axioms() + sem2_axioms()
        fname = self.fn.__name__
        fold, fold2 = (ssum, ssum2) if self.kind == OK.PLUS else (sprod, sprod2)

        def prefix(L):
            seq, i = L._seq.seq if isinstance(L._seq, B.EnumSeq) else L._seq, zint(L._i)
            j = z3.Int(fresh_name("j"))

            def ex(sel):
                return z3.Exists([j], z3.And(0 <= j, j < i, sel(triple_parts(z3.Select(seq.arr, j)))))

            def al(sel):
                return z3.ForAll([j], z3.Implies(z3.And(0 <= j, j < i), sel(triple_parts(z3.Select(seq.arr, j)))))
            return i, ex, al
        if fname == "walk_default" and self.kind == OK.PLUS:
            def inv(L):
                i, ex, al = prefix(L)
                e = L.expression
                lin = zbool(L.is_linear)
                inpos, inneg = mem(L._eng, L.st, L.positive_fluents), mem(L._eng, L.st, L.negative_fluents)
                return [("is_linear == every scanned child is linear", lin == al(lambda p: p[0])),
                        ("f in positive_fluents iff in some scanned child's positive set", inpos == ex(lambda p: p[1])),
                        ("f in negative_fluents iff in some scanned child's negative set", inneg == ex(lambda p: p[2])),
                        ("the prefix sum is monotone in f as recorded", mono(lin, inpos, inneg, fold(args_arr(e.z), i), fold2(args_arr(e.z), i)))]
            eng.loops[(QN + fname, 0)] = LoopSpec(inv, modifies=["b", "spf", "snf", "is_linear", "positive_fluents", "negative_fluents"],
                                                  types={"positive_fluents": Set(T.FNode), "negative_fluents": Set(T.FNode), "is_linear": PBool})
        if fname == "walk_times":
            def inv(L):
                i, ex, al = prefix(L)
                e = L.expression
                lin, found = zbool(L.is_linear), zbool(L.arg_with_fluents_found)
                pos_, unk = zbool(L.positivity), zbool(L.positivity_unknown)
                inpos, inneg = mem(L._eng, L.st, L.positive_fluents), mem(L._eng, L.st, L.negative_fluents)
                P, P2 = fold(args_arr(e.z), i), fold2(args_arr(e.z), i)
                seq = L._seq.seq
                j, k = z3.Int(fresh_name("j")), z3.Int(fresh_name("k"))
                two = z3.Exists([j, k], z3.And(0 <= j, j < k, k < i, triple_parts(z3.Select(seq.arr, j))[3], triple_parts(z3.Select(seq.arr, k))[3]))
                return [("a scanned child with fluents => found", z3.Implies(ex(lambda p: p[3]), found)),
                        ("two scanned children with fluents => not linear", z3.Implies(two, z3.Not(lin))),
                        ("no fluent factor yet => f in neither set", z3.Implies(z3.Not(found), z3.And(z3.Not(inpos), z3.Not(inneg)))),
                        ("f in neither set => equal prefix products", z3.Implies(z3.And(lin, z3.Not(inpos), z3.Not(inneg)), P == P2)),
                        ("before the fluent factor: equal prefix products of the recorded sign",
                         z3.Implies(z3.And(lin, z3.Not(unk), z3.Not(found)), z3.And(P == P2, z3.If(pos_, P > 0, P < 0)))),
                        ("after the fluent factor: monotone in f, direction flipped by a negative sign",
                         z3.Implies(z3.And(lin, z3.Not(unk), found),
                                    z3.If(pos_, mono(z3.BoolVal(True), inpos, inneg, P, P2), mono(z3.BoolVal(True), inneg, inpos, P, P2))))]
            eng.loops[(QN + fname, 0)] = LoopSpec(inv, modifies=["i", "b", "spf", "snf", "t", "is_linear", "arg_with_fluents_found", "positivity",
                                                                 "positivity_unknown", "positive_fluents", "negative_fluents"],
                                                  types={"positive_fluents": Set(T.FNode), "negative_fluents": Set(T.FNode), "is_linear": PBool,
                                                         "arg_with_fluents_found": PBool, "positivity": PBool, "positivity_unknown": PBool})

    def setup(self, eng, st):
        w = st.alloc(Rec(_lc.LinearChecker, {"_env": Env17.fresh("env")}), "LinearChecker")
        e = T.FNode.fresh("expression")
        if self.kind == OK.DIV:
            st.assume(node_type(e.z) == OKT.consts[OK.DIV], args_len(e.z) == 2)
        else:
            T.assume_node(eng, st, e.z, self.kind)
        j = z3.Int(fresh_name("j"))
        # the two interpretations: agree on every fluent expression other than f, and f does not decrease
        g = z3.Const("g!17", _F)
        st.assume(evn(FOCUS) <= evn2(FOCUS), node_type(FOCUS) == OKT.consts[OK.FLUENT_EXP])
        st.assume(z3.ForAll([g], z3.Implies(z3.And(z3.Or(node_type(g) == OKT.consts[OK.FLUENT_EXP], node_type(g) == OKT.consts[OK.PARAM_EXP],
                                                         node_type(g) == OKT.consts[OK.VARIABLE_EXP]), g != FOCUS),
                                            evn(g) == evn2(g)), patterns=[evn2(g)]))

        def hyp(tz, child):
            b, ip, in_, _ = triple_parts(tz)
            return mono(b, ip, in_, evn(child), evn2(child))
        if self.kind in (OK.MINUS, OK.DIV):
            ts = [TRIPLE.fresh("r0"), TRIPLE.fresh("r1")]
            for k, t in enumerate(ts):
                st.assume(hyp(TRIPLE.pack(t), z3.Select(args_arr(e.z), k)))
            if self.kind == OK.DIV:
                st.assume(evn(z3.Select(args_arr(e.z), 1)) != 0, evn2(z3.Select(args_arr(e.z), 1)) != 0)
            args = st.alloc(CList(ts), "list")
            ctx = dict(e=e, ts=ts)
        else:
            seq = eng.fresh_of(st, Seq(TRIPLE), "args")
            if self.kind in (OK.PLUS, OK.TIMES):
                st.assume(seq.n == args_len(e.z))
                st.assume(z3.ForAll([j], z3.Implies(z3.And(0 <= j, j < seq.n), hyp(z3.Select(seq.arr, j), z3.Select(args_arr(e.z), j))),
                                    patterns=[z3.Select(seq.arr, j)]))
            elif self.kind != OK.FLUENT_EXP:
                st.assume(seq.n == 0)
            args = st.alloc(seq, "list")
            ctx = dict(e=e, seq=seq)
        return [w, e, args], {}, ctx

    def post(self, eng, ctx, st, out):
        if out[0] != "return":
            return
        e = ctx["e"]
        r = eng.deref(st, out[1])
        if not isinstance(r, tuple) or len(r) != 3:
            raise Unsupported(f"result {r!r}")
        lin = zbool(eng.as_bool_value(st, r[0]))
        inpos, inneg = mem(eng, st, r[1]), mem(eng, st, r[2])
        st.oblige("the node's value is monotone in f as reported", mono(lin, inpos, inneg, evn(e.z), evn2(e.z)))
        if self.kind == OK.TIMES:
            seq = ctx["seq"]
            j, k = z3.Int(fresh_name("j")), z3.Int(fresh_name("k"))
            two = z3.Exists([j, k], z3.And(0 <= j, j < k, k < seq.n, triple_parts(z3.Select(seq.arr, j))[3], triple_parts(z3.Select(seq.arr, k))[3]))
            st.oblige("two fluent-dependent factors are never reported linear", z3.Implies(two, z3.Not(lin)))
        if self.kind == OK.DIV:
            st.oblige("a fluent-dependent divisor is never reported linear", z3.Implies(triple_parts(TRIPLE.pack(ctx["ts"][1]))[3], z3.Not(lin)))


LIN_KINDS = [OK.PLUS, OK.MINUS, OK.TIMES, OK.DIV, OK.FLUENT_EXP, OK.INT_CONSTANT, OK.REAL_CONSTANT, OK.PARAM_EXP]
UNITS = [LinHandler(k) for k in LIN_KINDS]
LEVEL = "other"
EXPLANATION = __doc__
TRUSTED = ["TypeChecker.get_type is sound for both interpretations (C15)", "fluent arguments contain no fluents (the statement's grammar): the identity of a "
           "fluent expression does not depend on the interpretation", "DagWalker.walk computes the fold of the handlers (C14)",
           "get_fluents simplifies first: the Simplifier preserves the value (C11)"]

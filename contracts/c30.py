"""C30 — KS0 conformant-to-classical compilation is sound and complete.

Bounded run-time contract on the real Ks0Compiler (both inputs: a Problem plus explicit possible initial states, and a
ContingentProblem without sensing actions whose states come from oneof / or / unknown constraints):
  S  soundness: every goal-reaching action sequence of the compiled classical problem found by breadth-first search of its
     state space (one shortest path per reachable goal state, capped) maps back, through plan_back_conversion, to a
     sequence that is executable from every possible initial state of the original and reaches the goals from each;
  C  completeness: an exhaustive breadth-first search of the original's belief space (sets of states; an action is
     applicable when it is in every state) decides whether a conformant plan exists; if one does, the compiled problem
     must be solvable (its full reachable state space is searched; runs that exceed the exploration cap are undecided and
     skipped, counted);
  D  dominated states: because the reference always uses the *full* set of possible initial states, a wrong basis
     reduction shows up as S or C failing;
  E  for a ContingentProblem the set of initial states the compiler derives is compared through S/C with the set
     enumerated here from the constraints.
Both state spaces are searched with the reference successor semantics (spec/seqsem.py, independent of the library).
"""
import itertools
import random
import warnings
from collections import deque

import unified_planning as up
from unified_planning.shortcuts import *  # noqa
from unified_planning.model import UPState
from unified_planning.model.contingent import ContingentProblem
from unified_planning.plans import SequentialPlan, ActionInstance
from unified_planning.engines import CompilationKind
from unified_planning.engines.compilers.ks0_compiler import Ks0Compiler
from spec import seqsem

CAP = 30000


def build(rng, contingent):
    T = UserType("T")
    objs = [Object("o0", T), Object("o1", T)]
    pr = (ContingentProblem if contingent else Problem)("conf")
    pr.add_objects(objs)
    p = Fluent("p", BoolType(), x=T)
    q = Fluent("q", BoolType())
    r = Fluent("r", BoolType())
    for f in (p, q, r):
        pr.add_fluent(f, default_initial_value=False)
    x = Variable("v", T)

    def lits(a=None):
        L = [q(), Not(q()), r(), Not(r()), p(objs[0]), Not(p(objs[0])), p(objs[1]), Not(p(objs[1]))]
        if a is not None:
            L += [p(a.x), Not(p(a.x))]
        return L
    nacts = rng.randint(2, 3)
    for i in range(nacts):
        a = InstantaneousAction(f"a{i}", x=T) if rng.random() < 0.5 else InstantaneousAction(f"a{i}")
        L = lits(a if a.parameters else None)
        k = rng.random()
        if k < 0.3:
            pass
        elif k < 0.55:
            a.add_precondition(rng.choice(L))
        elif k < 0.75:
            a.add_precondition(Or(rng.choice(L), rng.choice(L)))
        elif k < 0.9:
            a.add_precondition(Exists(Not(p(x)), x) if rng.random() < 0.5 else Forall(Or(p(x), q()), x))
        else:
            a.add_precondition(And(rng.choice(L), Not(And(rng.choice(L), rng.choice(L)))))
        targets = [q(), r()] + ([p(a.x)] if a.parameters else [p(objs[0]), p(objs[1])])
        rng.shuffle(targets)
        for tg in targets[: rng.randint(1, 2)]:           # at most one effect per ground fluent per action
            m = rng.random()
            if m < 0.45:
                a.add_effect(tg, rng.choice([True, False]), rng.choice(L))
            elif m < 0.55 and tg.fluent().name != "p":
                a.add_effect(tg, rng.choice([True, False]), And(rng.choice(L), rng.choice(L)))
            else:
                a.add_effect(tg, rng.choice([True, False]))
        if rng.random() < 0.2 and not any(e.fluent.fluent().name == "p" for e in a.effects):
            a.add_effect(p(x), rng.choice([True, False]), rng.choice(lits()), forall=[x])
        pr.add_action(a)
    g = rng.random()
    if g < 0.5:
        pr.add_goal(rng.choice(lits()))
    elif g < 0.8:
        pr.add_goal(rng.choice(lits()))
        pr.add_goal(rng.choice(lits()))
    else:
        pr.add_goal(Or(rng.choice(lits()), And(rng.choice(lits()), rng.choice(lits()))))
    return pr, objs, (p, q, r)


def all_keys(pr):
    return seqsem.ground_fluents(pr)


def states_explicit(pr, rng):
    keys = all_keys(pr)
    n = rng.randint(1, 4)
    sts = []
    base = {k: rng.random() < 0.4 for k in keys}
    sts.append(base)
    for _ in range(n - 1):
        s = dict(base)
        for k in rng.sample(keys, rng.randint(1, 2)):
            s[k] = not s[k]
        if rng.random() < 0.3:                      # a dominated variant: differs in one more fluent
            s[rng.choice(keys)] = True
        if s not in sts:
            sts.append(s)
    return sts


def to_upstate(pr, st):
    em = pr.environment.expression_manager
    vals = {}
    for (f, args), v in st.items():
        vals[f(*args) if args else f()] = em.Bool(v)
    return UPState(vals, pr)


def add_constraints(pr, objs, fl, rng):
    """contingent input: hidden fluents via unknown/oneof/or; returns the reference list of states"""
    p, q, r = fl
    keys = all_keys(pr)
    hidden = set()
    cons = []
    k = rng.random()
    if k < 0.4:
        pr.add_oneof_initial_constraint([p(objs[0]), p(objs[1]), q()])
        cons.append(("oneof", [((p, (objs[0],)), True), ((p, (objs[1],)), True), ((q, ()), True)]))
        hidden |= {(p, (objs[0],)), (p, (objs[1],)), (q, ())}
    elif k < 0.7:
        pr.add_or_initial_constraint([p(objs[0]), Not(q())])
        pr.add_unknown_initial_constraint(q())
        cons.append(("or", [((p, (objs[0],)), True), ((q, ()), False)]))
        hidden |= {(p, (objs[0],)), (q, ())}
    else:
        pr.add_unknown_initial_constraint(r())
        pr.add_unknown_initial_constraint(p(objs[1]))
        hidden |= {(r, ()), (p, (objs[1],))}
    if rng.random() < 0.5:
        pr.set_initial_value(r() if (r, ()) not in hidden else p(objs[0]) if (p, (objs[0],)) not in hidden else q(), True) if False else None
    base = {}
    for key in keys:
        f, args = key
        v = pr.initial_value(f(*args) if args else f())
        base[key] = v.bool_constant_value() if v is not None else False
    hid = sorted(hidden, key=str)
    out = []
    for bits in itertools.product([False, True], repeat=len(hid)):
        s = dict(base)
        s.update(zip(hid, bits))
        ok = True
        for kind, lits in cons:
            cnt = sum(1 for (key, pos) in lits if s[key] == pos)
            if (kind == "oneof" and cnt != 1) or (kind == "or" and cnt < 1):
                ok = False
        if ok:
            out.append(s)
    return out


def dnf_terms(pr, e, env, pos=True):
    """DNF by distribution (quantifiers expanded over the objects): list of terms, a term = frozenset of ((fluent name, args), polarity)"""
    from unified_planning.model.operators import OperatorKind as OK
    k = e.node_type
    if k == OK.BOOL_CONSTANT:
        return [frozenset()] if e.constant_value() == pos else []
    if k == OK.NOT:
        return dnf_terms(pr, e.arg(0), env, not pos)
    if k == OK.FLUENT_EXP:
        args = tuple((env[a.parameter()] if a.is_parameter_exp() else env[a.variable()] if a.is_variable_exp() else a.object()) for a in e.args)
        return [frozenset([((e.fluent().name, tuple(o.name for o in args)), pos)])]
    if k in (OK.EXISTS, OK.FORALL):
        vs = e.variables()
        subs = []
        for combo in itertools.product(*[list(pr.objects(v.type)) for v in vs]):
            env2 = dict(env)
            env2.update(zip(vs, combo))
            subs.append((e.arg(0), env2))
        conj = (k == OK.FORALL) == pos
    elif k in (OK.AND, OK.OR):
        subs = [(a, env) for a in e.args]
        conj = (k == OK.AND) == pos
    elif k == OK.IMPLIES:
        if pos:
            return dnf_terms(pr, e.arg(0), env, False) + dnf_terms(pr, e.arg(1), env, True)
        subs, conj = None, True
        parts = [dnf_terms(pr, e.arg(0), env, True), dnf_terms(pr, e.arg(1), env, False)]
    else:
        raise NotImplementedError(str(k))
    if k != OK.IMPLIES:
        parts = [dnf_terms(pr, a, en, pos) for a, en in subs]
    if not conj:
        return [t for p_ in parts for t in p_]
    out = [frozenset()]
    for p_ in parts:
        nxt = []
        for t in out:
            for u in p_:
                m = t | u
                if not any((key, not pol) in m for key, pol in m):
                    nxt.append(m)
        out = nxt
    return out


def known_lits(belief, rep):
    sts = [rep[x] for x in belief]
    out = set()
    for (f, args), v in sts[0].items():
        if all(s[(f, args)] == v for s in sts):
            out.add(((f.name, tuple(o.name for o in args)), v))
    return out


def belief_search(pr, states, strong=False):
    """exhaustive BFS of the belief space; returns a conformant plan (list of (action, params)) or None.
    strong=True: a precondition / goal counts only when one term of its DNF is known (all its literals hold in every
    state of the belief) -- the notion a translation that tracks knowledge of literals can reach."""
    if strong:
        from unified_planning.shortcuts import And as _And
        pre_terms = {}
        goal_terms = dnf_terms(pr, _And(pr.goals), {})

        def strongly(terms, belief, rep):
            kn = known_lits(belief, rep)
            return any(t <= kn for t in terms)
    gas = seqsem.ground_actions(pr)
    start = frozenset(seqsem.freeze(s) for s in states)
    rep = {seqsem.freeze(s): s for s in states}
    seen = {start: None}
    dq = deque([start])
    goal = (lambda b: strongly(goal_terms, b, rep)) if strong else (lambda b: all(seqsem.is_goal(pr, rep[x]) for x in b))  # noqa
    if goal(start):
        return []
    n = 0
    while dq:
        b = dq.popleft()
        n += 1
        if n > CAP:
            return "cap"
        for (a, ps) in gas:
            nxt = []
            if strong:
                key_ = (a.name, tuple(o.name for o in ps))
                if key_ not in pre_terms:
                    from unified_planning.shortcuts import And as _And
                    pre_terms[key_] = dnf_terms(pr, _And(a.preconditions), dict(zip(a.parameters, ps))) if a.preconditions else [frozenset()]
                if not strongly(pre_terms[key_], b, rep):
                    continue
            for x in b:
                s2 = seqsem.successor(pr, rep[x], a, ps)
                if s2 is None:
                    nxt = None
                    break
                fz = seqsem.freeze(s2)
                rep.setdefault(fz, s2)
                nxt.append(fz)
            if nxt is None:
                continue
            nb = frozenset(nxt)
            if nb in seen:
                continue
            seen[nb] = (b, a, ps)
            if goal(nb):
                plan = []
                cur = nb
                while seen[cur] is not None:
                    pb, pa, pps = seen[cur]
                    plan.append((pa, pps))
                    cur = pb
                return plan[::-1]
            dq.append(nb)
    return None


def classical_search(cp, max_goals=6):
    """BFS of the compiled problem; returns (list of goal-reaching plans, exhausted?)"""
    gas = seqsem.ground_actions(cp)
    s0 = seqsem.initial_state(cp)
    f0 = seqsem.freeze(s0)
    seen = {f0: None}
    rep = {f0: s0}
    dq = deque([f0])
    plans = []

    def path(x):
        out = []
        while seen[x] is not None:
            px, a, ps = seen[x]
            out.append((a, ps))
            x = px
        return out[::-1]
    if seqsem.is_goal(cp, s0):
        plans.append([])
    n = 0
    while dq:
        x = dq.popleft()
        n += 1
        if n > CAP:
            return plans, False
        for (a, ps) in gas:
            s2 = seqsem.successor(cp, rep[x], a, ps)
            if s2 is None:
                continue
            fz = seqsem.freeze(s2)
            if fz in seen:
                continue
            seen[fz] = (x, a, ps)
            rep[fz] = s2
            if seqsem.is_goal(cp, s2):
                plans.append(path(fz))
                if len(plans) >= max_goals:
                    return plans, False
                continue          # no need to extend beyond a goal state
            dq.append(fz)
    return plans, True


class KernelContracts:
    """run-time contracts (post-conditions, taken from the docstrings' definitions) wrapped around the real
    Ks0Compiler._get_relevance_relation and _reduce_possible_initial_states_to_basis for the duration of one compile"""

    def __init__(self):
        self.violations = []
        self.calls = 0

    def __enter__(self):
        self._rel = Ks0Compiler.__dict__["_get_relevance_relation"]
        self._red = Ks0Compiler.__dict__["_reduce_possible_initial_states_to_basis"]
        real_rel = self._rel.__func__
        real_red = self._red.__func__
        me = self

        def rel(prepared, em):
            r = real_rel(prepared, em)
            me.calls += 1
            neg = {}
            for f in prepared.ground_fluent_expressions:
                neg[f] = em.Not(f)
                neg[em.Not(f)] = f
            for a in r:
                if a not in r[a]:
                    me.violations.append(f"relevance relation is not reflexive at {a}")
            for pa in prepared.prepared_actions:
                for rule in pa.effect_rules:
                    for c in rule.condition_literals:
                        if rule.target_literal not in r[c]:
                            me.violations.append(f"relevance relation misses the effect edge {c} -> {rule.target_literal}")
            for a in r:
                for b in r[a]:
                    if not r[b] <= r[a]:
                        me.violations.append(f"relevance relation is not transitively closed: {a} -> {b} -> {sorted(map(str, r[b] - r[a]))[:2]}")
                    if neg[b] not in r[neg[a]]:
                        me.violations.append(f"relevance relation is not closed under the complement rule: {a} -> {b} but not {neg[a]} -> {neg[b]}")
            return r

        def red(cls_, problem, prepared, states):
            kept = real_red(cls_, problem, prepared, states)
            if len(states) > 1 and len(prepared.merge_targets) > 0:
                em = problem.environment.expression_manager
                relv = real_rel(prepared, em)

                def lits(st):
                    return frozenset(f if st.get_value(f).bool_constant_value() else em.Not(f) for f in prepared.ground_fluent_expressions)
                for tgt in prepared.merge_targets:
                    src = {a for a, ts in relv.items() if tgt in ts}
                    kept_sets = [lits(k) & src for k in kept]
                    for st in states:
                        mine = lits(st) & src
                        if not any(ks <= mine for ks in kept_sets):
                            me.violations.append(f"basis reduction dropped a state that no kept state dominates for target {tgt}")
            if not set(map(id, kept)) <= set(map(id, states)) or (len(states) > 0 and len(kept) == 0):
                me.violations.append("basis reduction returned states that were not given (or none)")
            return kept
        Ks0Compiler._get_relevance_relation = staticmethod(rel)
        Ks0Compiler._reduce_possible_initial_states_to_basis = classmethod(red)
        return self

    def __exit__(self, *a):
        Ks0Compiler._get_relevance_relation = self._rel
        Ks0Compiler._reduce_possible_initial_states_to_basis = self._red
        return False


def build_chain(rng):
    """crafted family: relevance only through a chain mixing direct effect edges and complement edges
    (`when p then q := T` ; `when not q then g := F`), states differing on the far end of the chain"""
    pr = Problem("chain")
    names = ["p", "q", "g", "d", "h"]
    fl = {n: Fluent(n, BoolType()) for n in names}
    for f in fl.values():
        pr.add_fluent(f, default_initial_value=False)
    order = names[:3]
    rng.shuffle(order)
    a0, a1, a2 = order
    pol = [rng.random() < 0.5 for _ in range(4)]

    def lit(n, positive):
        return fl[n]() if positive else Not(fl[n]())
    prime = InstantaneousAction("prime")
    prime.add_effect(fl[a1](), pol[0], lit(a0, pol[1]))
    fire = InstantaneousAction("fire")
    fire.add_effect(fl["d"](), True)
    fire.add_effect(fl[a2](), pol[2], lit(a1, not pol[0] if rng.random() < 0.7 else pol[0]))
    pr.add_action(prime)
    pr.add_action(fire)
    if rng.random() < 0.5:
        extra = InstantaneousAction("extra")
        extra.add_effect(fl["h"](), True, lit(rng.choice(names[:3]), rng.random() < 0.5))
        pr.add_action(extra)
    pr.add_goal(lit(a2, not pol[2]))
    pr.add_goal(fl["d"]())
    keys = all_keys(pr)
    base = {k: False for k in keys}
    for k in keys:
        if k[0].name == a2:
            base[k] = not pol[2]
        if k[0].name == a1:
            base[k] = not pol[0]
    s0, s1 = dict(base), dict(base)
    for k in keys:
        if k[0].name == a0:
            s0[k], s1[k] = pol[1], not pol[1]
    states = [s0, s1] if rng.random() < 0.5 else [s1, s0]
    return pr, states


def build_reestablish(rng):
    """crafted family: a literal L that holds in EVERY possible initial state (so it is known from the start), is deleted by an action every
    plan needs, can only be re-established by cases (conditional effects whose conditions hold in different possible states) and is needed
    again afterwards (goal, or precondition of the last action): knowledge of L has to be merged back from the per-state knowledge"""
    pr = Problem("reestablish")
    k = rng.choice([2, 2, 3])
    names = ["l", "done", "a", "b", "c"][:2 + k]
    fl = {n: Fluent(n, BoolType()) for n in names}
    for f in fl.values():
        pr.add_fluent(f, default_initial_value=False)
    lpos = rng.random() < 0.7                      # polarity of L

    def lit(n, positive):
        return fl[n]() if positive else Not(fl[n]())
    reset = InstantaneousAction("reset")
    reset.add_effect(fl["l"](), not lpos)
    reset.add_effect(fl["done"](), True)
    pr.add_action(reset)
    cpol = [rng.random() < 0.7 for _ in range(k)]
    for i, n in enumerate(names[2:]):
        fx = InstantaneousAction("fix_" + n)
        fx.add_effect(fl["l"](), lpos, lit(n, cpol[i]))
        pr.add_action(fx)
    if rng.random() < 0.5:
        pr.add_goal(lit("l", lpos))
        pr.add_goal(fl["done"]())
    else:
        fin = InstantaneousAction("finish")
        fin.add_precondition(lit("l", lpos))
        fin.add_precondition(fl["done"]())
        fin.add_effect(fl["done"](), True)
        pr.add_action(fin)
        pr.add_goal(fl["done"]())
        pr.add_goal(lit("l", lpos))
    keys = all_keys(pr)
    states = []
    for i in range(k):                 # in state i exactly the i-th case condition holds
        st_ = {}
        for key in keys:
            n = key[0].name
            if n == "l":
                st_[key] = lpos
            elif n == "done":
                st_[key] = False
            else:
                j = names[2:].index(n)
                st_[key] = cpol[j] if j == i else (not cpol[j])
        states.append(st_)
    rng.shuffle(states)
    return pr, states


def build_contingent_oneof(rng):
    """crafted family (contingent input): `oneof` / `or` groups with NEGATIVE literals and mixed polarities over the hidden atoms, optionally two
    groups and a free `unknown` atom; the plan has to treat the legal states by cases (one conditional effect per legal combination), so it exists
    for the states the constraints allow and not for a superset"""
    pr = ContingentProblem("oneofneg")
    names = ["a", "b", "c", "g", "h"]
    fl = {n: Fluent(n, BoolType()) for n in names}
    for f in fl.values():
        pr.add_fluent(f, default_initial_value=False)

    def lit(n, positive):
        return fl[n]() if positive else Not(fl[n]())
    pol = {n: rng.random() < 0.5 for n in "abc"}
    if all(pol.values()):
        pol[rng.choice("ab")] = False          # at least one negative literal
    cons = []
    group = ["a", "b"] + (["c"] if rng.random() < 0.4 else [])
    kind = "oneof" if rng.random() < 0.75 else "or"
    (pr.add_oneof_initial_constraint if kind == "oneof" else pr.add_or_initial_constraint)([lit(n, pol[n]) for n in group])
    cons.append((kind, [((fl[n], ()), pol[n]) for n in group]))
    hidden = {(fl[n], ()) for n in group}
    if "c" not in group and rng.random() < 0.5:
        pr.add_unknown_initial_constraint(fl["c"]())
        hidden.add((fl["c"], ()))
    keys = all_keys(pr)
    base = {key: False for key in keys}
    hid = sorted(hidden, key=str)
    states = []
    for bits in itertools.product([False, True], repeat=len(hid)):
        st_ = dict(base)
        st_.update(zip(hid, bits))
        if all((sum(1 for (key, pos) in lits_ if st_[key] == pos) == 1) if k_ == "oneof" else (sum(1 for (key, pos) in lits_ if st_[key] == pos) >= 1)
               for k_, lits_ in cons):
            states.append(st_)
    # one action per legal state: when exactly that combination of the hidden atoms holds, g becomes true
    for i, st_ in enumerate(states[:4]):
        act = InstantaneousAction(f"case{i}")
        cond = And([lit(key[0].name, st_[key]) for key in hid])
        act.add_effect(fl["g"](), True, cond)
        pr.add_action(act)
    mark = InstantaneousAction("mark")
    mark.add_effect(fl["h"](), True)
    pr.add_action(mark)
    pr.add_goal(fl["g"]())
    if rng.random() < 0.5:
        pr.add_goal(fl["h"]())
    return pr, states


def scenario(seed, failures, stats, chain=False):
    rng = random.Random(seed)
    contingent = rng.random() < 0.35 and not chain
    if chain:
        pr, chain_states = {"reestablish": build_reestablish, "oneof": build_contingent_oneof}.get(chain, build_chain)(rng)
        objs = fl = None
    else:
        pr, objs, fl = build(rng, contingent)
    label = {"seed": seed, "input": ({"reestablish": "crafted reestablish", "oneof": "crafted contingent oneof"}.get(chain, "crafted chain")) if chain else ("contingent" if contingent else "explicit states")}

    def bad(what, observed=None):
        if what not in {f["what"] for f in failures}:
            failures.append({"what": what, "concrete": label, "observed": observed})
    if contingent:
        states = add_constraints(pr, objs, fl, rng)
        comp = Ks0Compiler()
    elif chain == "oneof":
        states = chain_states
        comp = Ks0Compiler()              # the compiler derives the states from the constraints itself
    elif chain:
        states = chain_states
        comp = Ks0Compiler(possible_initial_states=[to_upstate(pr, s) for s in states])
    else:
        states = states_explicit(pr, rng)
        comp = Ks0Compiler(possible_initial_states=[to_upstate(pr, s) for s in states])
    if not states:
        return
    if not comp.supports(pr.kind):
        stats["unsupported"] += 1
        return
    try:
        with KernelContracts() as kc:
            res = comp.compile(pr, CompilationKind.CONFORMANT_TO_CLASSICAL)
        stats["kernel_calls"] = stats.get("kernel_calls", 0) + kc.calls
        for v in kc.violations[:2]:
            bad("kernel contract: " + v.split(":")[0].split(" at ")[0], v[:400])
    except up.exceptions.UPUsageError as ex:
        # documented rejections (a condition that is not a conjunction of literals after normalisation, a goal that
        # simplifies to false): there is no compiled problem to judge; counted, not reported here (C08 covers compile errors)
        stats["rejected"] = stats.get("rejected", 0) + 1
        return
    except Exception as ex:  # noqa
        bad(f"compile raises {type(ex).__name__} on a supported problem ({label['input']})", str(ex)[:300])
        return
    cp = res.problem
    try:
        plans, exhausted = classical_search(cp)
        ref = belief_search(pr, states)
    except seqsem.Ambiguous:
        stats["ambiguous"] += 1
        return
    stats["n"] += 1
    stats["distinct"].add((contingent, len(states), len(plans)))
    # S
    for cplan in plans:
        try:
            back = res.plan_back_conversion(SequentialPlan([ActionInstance(a, tuple(ps)) for a, ps in cplan]))
        except Exception as ex:  # noqa
            bad(f"plan_back_conversion raises {type(ex).__name__}", str(ex)[:300])
            continue
        for si, s in enumerate(states):
            cur = dict(s)
            okk = True
            for ai in back.actions:
                ps = tuple(x.object() if x.is_object_exp() else x.constant_value() for x in ai.actual_parameters)
                cur = seqsem.successor(pr, cur, pr.action(ai.action.name), ps)
                if cur is None:
                    okk = False
                    bad("soundness: a plan of the compiled problem maps back to a plan that is not executable from a possible initial state" + (" (contingent input)" if contingent else ""),
                        f"compiled plan {[a.name for a, _ in cplan]} -> {back}; state #{si} {sorted(seqsem.freeze(s))}; not applicable: {ai}"[:900])
                    break
            if okk and not seqsem.is_goal(pr, cur):
                bad("soundness: a plan of the compiled problem maps back to a plan that misses the goal from a possible initial state" + (" (contingent input)" if contingent else ""),
                    f"compiled plan {[a.name for a, _ in cplan]} -> {back}; state #{si} {sorted(seqsem.freeze(s))}"[:900])
    # C
    if ref == "cap":
        stats["capped"] += 1
    elif ref is not None and not plans:
        if exhausted:
            strong_plan = belief_search(pr, states, strong=True)
            tag = "" if strong_plan not in (None, "cap") else " [every conformant plan needs a disjunctive precondition or goal whose disjuncts hold in different possible states]"
            bad("completeness: a conformant plan exists but the compiled problem is unsolvable" + tag + (" (contingent input)" if contingent and not tag else ""),
                f"conformant plan {[(a.name, tuple(map(str, ps))) for a, ps in ref]}; states {[sorted(seqsem.freeze(s)) for s in states]}"[:900])
        else:
            stats["capped"] += 1
    elif ref is None and plans and False:
        pass        # covered by S


def bounded(tier, seed):
    n = 40 if tier == "quick" else 600
    failures, stats = [], {"n": 0, "distinct": set(), "unsupported": 0, "capped": 0, "ambiguous": 0}
    with warnings.catch_warnings():
        warnings.simplefilter("ignore")
        for i in range(n):
            scenario(seed * 100003 + i, failures, stats)
            if len(failures) >= 8:
                break
        for i in range(n // 2):
            scenario(seed * 100003 + 50000 + i, failures, stats, chain=True)
            if len(failures) >= 8:
                break
        for i in range(n // 2):
            scenario(seed * 100003 + 70000 + i, failures, stats, chain="reestablish")
            if len(failures) >= 8:
                break
        for i in range(n // 2):
            scenario(seed * 100003 + 90000 + i, failures, stats, chain="oneof")
            if len(failures) >= 8:
                break
    return {"evaluations": stats["n"], "distinct_nontrivial": len(stats["distinct"]), "failures": failures[:8],
            "rule": f"{n} generated Boolean conformant problems (4 ground fluents, 2-3 actions, conditional/forall effects, negative/disjunctive/quantified "
                    f"conditions, 1-4 possible initial states incl. dominated ones; 35% contingent input); per problem: BFS of the compiled state space "
                    f"(<= {CAP} states, <= 6 goal paths) + exhaustive belief-space BFS; plus {n // 2} crafted chain problems (relevance through mixed effect / "
                    f"complement edges, two states differing at the far end) and {n // 2} crafted re-establish problems (a literal true in every possible state, deleted, "
                    f"restored by cases, needed again) and {n // 2} crafted contingent problems whose oneof / or groups hold negative literals (plans by cases over the legal states); run-time contracts on the real _get_relevance_relation (reflexive, effect edges, "
                    f"transitively and complement closed) and _reduce_possible_initial_states_to_basis (every dropped state is dominated per target) in "
                    f"{stats.get('kernel_calls', 0)} kernel calls; undecided (cap) {stats['capped']}, unsupported {stats['unsupported']}",
            "samples": [{"capped": stats["capped"], "unsupported": stats["unsupported"], "ambiguous": stats["ambiguous"], "rejected_by_compile": stats.get("rejected", 0)}], "bound": f"{n} problems"}


def replay_file(data):
    c = data.get("concrete") or {}
    failures, stats = [], {"n": 0, "distinct": set(), "unsupported": 0, "capped": 0, "ambiguous": 0}
    with warnings.catch_warnings():
        warnings.simplefilter("ignore")
        scenario(c.get("seed", 0), failures, stats, chain={"crafted chain": True, "crafted reestablish": "reestablish", "crafted contingent oneof": "oneof"}.get(c.get("input"), False))
    return {"reproduced": bool(failures), "concrete": c, "observed": [f["what"] for f in failures][:4]}


# ======================================================================================================= proved kernels
# Small flat functions of the real compiler that the soundness / completeness argument stands on:
#   _literal_parts             a literal is a fluent expression (atom, positive) or its negation (atom, negative); anything else is rejected
#   _negate_literal            the complement: same atom, opposite polarity
#   _assign_oneof_choice       (contingent input) extends an assignment so that exactly the chosen literal of a oneof group holds; False exactly
#                              when no extension can do that
#   _literal_holds             truth of a literal under an assignment
#   _map_back_ks0_action_instance   plan back-conversion: the original action on the very same parameters, None for the compiler's own merge actions
import z3
from pyvc.values import Ref, Seq, Map, Opt, SBool, SRef, SUnion, SMap, Rec, CList, ExcVal, fresh_name, zbool, zint
from pyvc.values import Bool as PBool
from pyvc.verify import Unit
from pyvc.engine import LoopSpec
from pyvc import builtins as B
import unified_planning.engines.compilers.ks0_compiler as _ks
from unified_planning.exceptions import UPUsageError as _Usage30

LIT, MGR30 = Ref("Literal30"), Ref("ExpressionManager30")
_Lz = LIT.z3sort()
ISF = z3.Function("is_fluent_exp", _Lz, z3.BoolSort())
ISN = z3.Function("is_not", _Lz, z3.BoolSort())
ARG0 = z3.Function("arg0", _Lz, _Lz)
NOT30 = z3.Function("Not", _Lz, _Lz)
ATOM = z3.Function("_literal_parts.atom", _Lz, _Lz)
NEG = z3.Function("_literal_parts.negative", _Lz, z3.BoolSort())
LIT.methods["is_fluent_exp"] = lambda e, st, sv, a, k: iter([(st, SBool(ISF(sv.z)))])
LIT.methods["is_not"] = lambda e, st, sv, a, k: iter([(st, SBool(ISN(sv.z)))])
LIT.methods["arg"] = lambda e, st, sv, a, k: iter([(st, LIT.wrap(ARG0(sv.z)))])
MGR30.methods["Not"] = lambda e, st, sv, a, k: iter([(st, LIT.wrap(NOT30(a[0].z)))])


def _parts_contract(e, st, a, k):
    lit = a[0]
    ok = z3.Or(ISF(lit.z), z3.And(ISN(lit.z), ISF(ARG0(lit.z))))
    for s2, good in e.branch(st, ok, "literal"):
        if good:
            yield s2, (LIT.wrap(ATOM(lit.z)), SBool(NEG(lit.z)))
        else:
            yield s2, ExcVal(_Usage30, (), "_literal_parts")


def parts_axioms():
    l = z3.Const("l!30", _Lz)
    return [z3.ForAll([l], z3.Implies(ISF(l), z3.And(ATOM(l) == l, z3.Not(NEG(l)))), patterns=[ATOM(l)]),
            z3.ForAll([l], z3.Implies(z3.And(z3.Not(ISF(l)), ISN(l), ISF(ARG0(l))), z3.And(ATOM(l) == ARG0(l), NEG(l))), patterns=[ATOM(l)]),
            # the expression manager: Not(x) of a fluent expression is a negation whose argument is x, and is not itself a fluent expression
            z3.ForAll([l], z3.And(ISN(NOT30(l)), ARG0(NOT30(l)) == l, z3.Not(ISF(NOT30(l)))), patterns=[NOT30(l)])]


class LiteralParts(Unit):
    prop = "C30"
    name = "Ks0Compiler._literal_parts"
    doc = "(x, False) for a fluent expression x, (x, True) for Not(x) with x a fluent expression, UPUsageError for anything else"
    allowed_raises = (_Usage30,)

    def target(self):
        return _ks.Ks0Compiler._literal_parts

    def setup(self, eng, st):
        lit = LIT.fresh("literal")
        return [lit], {}, dict(lit=lit)

    def post(self, eng, ctx, st, out):
        l = ctx["lit"].z
        if out[0] == "raise":
            st.oblige("rejected only when the expression is neither a fluent expression nor the negation of one", z3.Not(z3.Or(ISF(l), z3.And(ISN(l), ISF(ARG0(l))))))
            return
        r = eng.deref(st, out[1])
        atom, neg = r[0], eng.as_bool_value(st, r[1])
        st.oblige("a fluent expression is its own atom, positive", z3.Implies(ISF(l), z3.And(atom.z == l, z3.Not(zbool(neg)))))
        st.oblige("a negated fluent expression has its argument as atom, negative", z3.Implies(z3.Not(ISF(l)), z3.And(atom.z == ARG0(l), zbool(neg), ISN(l), ISF(ARG0(l)))))


class NegateLiteral(Unit):
    prop = "C30"
    name = "Ks0Compiler._negate_literal"
    doc = "the complement of a literal: same atom, opposite polarity (so negating twice gives a literal with the original atom and polarity)"
    allowed_raises = (_Usage30,)

    def target(self):
        return _ks.Ks0Compiler._negate_literal

    def configure(self, eng):
        eng.axioms += parts_axioms()
        eng.contracts[_ks.Ks0Compiler._literal_parts] = _parts_contract

    def setup(self, eng, st):
        lit = LIT.fresh("literal")
        return [lit, MGR30.fresh("manager")], {}, dict(lit=lit)

    def post(self, eng, ctx, st, out):
        if out[0] != "return":
            return
        l, r = ctx["lit"].z, out[1].z
        st.oblige("the result is a literal", z3.Or(ISF(r), z3.And(ISN(r), ISF(ARG0(r)))))
        st.oblige("same atom, opposite polarity", z3.And(ATOM(r) == ATOM(l), NEG(r) == z3.Not(NEG(l))))


QN_AOC = "unified_planning.engines.compilers.ks0_compiler.Ks0Compiler._assign_oneof_choice"


class AssignOneofChoice(Unit):
    prop = "C30"
    allowed_raises = (_Usage30,)

    def __init__(self, complete):
        self.complete = complete
        self.name = "Ks0Compiler._assign_oneof_choice" + ("[completeness]" if complete else "[soundness]")
        self.doc = ("False is returned only when NO assignment extending the given one makes exactly the chosen literal of the group true" if complete else
                    "True: the given assignment is extended (old entries kept, only atoms of the group added) so that the chosen literal holds and every other "
                    "literal of the group is false")

    def target(self):
        return _ks.Ks0Compiler._assign_oneof_choice

    def _need(self, i, chosen, lit):
        return (i == chosen) != NEG(lit)

    def configure(self, eng):
        eng.axioms += parts_axioms()
        eng.contracts[_ks.Ks0Compiler._literal_parts] = _parts_contract
        unit = self

        def inv(L):
            i = zint(L._i)
            a1, a0, g, ch = L.assignment, unit._a0, unit._g, unit._chosen
            j = z3.Int(fresh_name("j"))
            k = z3.Const(fresh_name("k"), _Lz)
            lj = z3.Select(g.arr, j)
            out = [("the literals handled so far have the value exactly-the-chosen-one requires",
                    z3.ForAll([j], z3.Implies(z3.And(0 <= j, j < i), z3.And(z3.Select(a1.has, ATOM(lj)), z3.Select(a1.val, ATOM(lj)) == unit._need(j, ch, lj))))),
                   ("the given entries are kept", z3.ForAll([k], z3.Implies(z3.Select(a0.has, k), z3.And(z3.Select(a1.has, k), z3.Select(a1.val, k) == z3.Select(a0.val, k)))))]
            if unit.complete:
                E = unit._E
                out.append(("everything assigned so far is forced: it agrees with every assignment that extends the given one and meets the requirement",
                            z3.ForAll([k], z3.Implies(z3.Select(a1.has, k), z3.Select(E, k) == z3.Select(a1.val, k)))))
            else:
                out.append(("only atoms of the group are added", z3.ForAll([k], z3.Implies(z3.And(z3.Select(a1.has, k), z3.Not(z3.Select(a0.has, k))),
                                                                                         z3.Exists([j], z3.And(0 <= j, j < i, ATOM(z3.Select(g.arr, j)) == k))))))
            return out
        eng.loops[(QN_AOC, 0)] = LoopSpec(inv, modifies=["assignment", "index", "literal", "atom", "is_negative", "value"],
                                          types={"assignment": Map(LIT, PBool), "index": B.Int, "literal": LIT, "atom": LIT, "is_negative": PBool, "value": PBool})

    def setup(self, eng, st):
        a0 = eng.fresh_of(st, Map(LIT, PBool), "assignment")
        g = eng.fresh_of(st, Seq(LIT), "group")
        chosen = B.Int.fresh("chosen_index")
        st.assume(chosen.z >= 0, chosen.z < g.n)
        self._a0, self._g, self._chosen = a0, g, chosen.z
        if self.complete:
            E = z3.Array(fresh_name("any_extension"), _Lz, z3.BoolSort())
            k = z3.Const(fresh_name("k"), _Lz)
            j = z3.Int(fresh_name("j"))
            lj = z3.Select(g.arr, j)
            st.assume(z3.ForAll([k], z3.Implies(z3.Select(a0.has, k), z3.Select(E, k) == z3.Select(a0.val, k))),
                      z3.ForAll([j], z3.Implies(z3.And(0 <= j, j < g.n), z3.And(z3.Or(ISF(lj), z3.And(ISN(lj), ISF(ARG0(lj)))),
                                                                                z3.Select(E, ATOM(lj)) == self._need(j, chosen.z, lj)))))
            self._E = E
        loc = st.alloc(a0, "dict")
        return [loc, g, chosen], {}, dict(loc=loc, a0=a0, g=g)

    def post(self, eng, ctx, st, out):
        if out[0] != "return":
            return
        r = eng.as_bool_value(st, out[1])
        a1, a0, g, ch = st.load(ctx["loc"]), ctx["a0"], ctx["g"], self._chosen
        if self.complete:
            st.oblige("when some extension of the given assignment makes exactly the chosen literal true, the answer is True", zbool(r))
            return
        j = z3.Int(fresh_name("j"))
        k = z3.Const(fresh_name("k"), _Lz)
        lj = z3.Select(g.arr, j)
        st.oblige("True: the chosen literal holds and every other literal of the group is false",
                  z3.Implies(zbool(r), z3.ForAll([j], z3.Implies(z3.And(0 <= j, j < g.n),
                                                                 z3.And(z3.Select(a1.has, ATOM(lj)), (z3.Select(a1.val, ATOM(lj)) != NEG(lj)) == (j == ch))))))
        st.oblige("the given entries are kept", z3.ForAll([k], z3.Implies(z3.Select(a0.has, k), z3.And(z3.Select(a1.has, k), z3.Select(a1.val, k) == z3.Select(a0.val, k)))))


class LiteralHolds(Unit):
    prop = "C30"
    name = "Ks0Compiler._literal_holds"
    doc = "a positive literal holds iff its atom is assigned True, a negative one iff its atom is assigned False"
    allowed_raises = (_Usage30, KeyError)

    def target(self):
        return _ks.Ks0Compiler._literal_holds

    def configure(self, eng):
        eng.axioms += parts_axioms()
        eng.contracts[_ks.Ks0Compiler._literal_parts] = _parts_contract

    def setup(self, eng, st):
        a = eng.fresh_of(st, Map(LIT, PBool), "assignment")
        lit = LIT.fresh("literal")
        return [st.alloc(a, "dict"), lit], {}, dict(a=a, lit=lit)

    def post(self, eng, ctx, st, out):
        a, l = ctx["a"], ctx["lit"].z
        if out[0] == "raise":
            if out[1].cls is KeyError:
                st.oblige("KeyError only for an unassigned atom", z3.Not(z3.Select(a.has, ATOM(l))))
            return
        st.oblige("truth of the literal under the assignment", zbool(eng.as_bool_value(st, out[1])) == (z3.Select(a.val, ATOM(l)) != NEG(l)))


ACT30, PAR30, AI30 = Ref("Action30"), Ref("Parameters30"), Ref("ActionInstance30", fields={"action": Ref("Action30"), "actual_parameters": Ref("Parameters30")})


class MapBackInstance(Unit):
    prop = "C30"
    name = "Ks0Compiler._map_back_ks0_action_instance"
    doc = "the original action on the very same parameters; None exactly for a compiled action without counterpart (merge actions); KeyError only for an action the compiler did not produce"
    allowed_raises = (KeyError,)

    def target(self):
        return _ks.Ks0Compiler._map_back_ks0_action_instance

    def configure(self, eng):
        def new_ai(e, st, a, k):
            st.ghost["built"] = (a[0], a[1] if len(a) > 1 else k.get("params"))
            yield st, AI30.fresh("mapped_back")
        eng.contracts[_ks.ActionInstance] = new_ai

    def setup(self, eng, st):
        ai = AI30.fresh("action_instance")
        has = z3.Array(fresh_name("map.has"), ACT30.z3sort(), z3.BoolSort())
        none = z3.Array(fresh_name("map.isnone"), ACT30.z3sort(), z3.BoolSort())
        val = z3.Array(fresh_name("map.val"), ACT30.z3sort(), ACT30.z3sort())
        M = Ref("NewToOld30")

        def getitem(e, s, sv, a, k):
            for s2, ok in e.branch(s, z3.Select(has, a[0].z), "map:has"):
                if not ok:
                    yield s2, ExcVal(KeyError, (), "new_to_old_action[...]")
                else:
                    yield s2, SUnion([(z3.Select(none, a[0].z), None), (z3.Not(z3.Select(none, a[0].z)), ACT30.wrap(z3.Select(val, a[0].z)))])
        M.methods["__getitem__"] = getitem
        return [ai, M.fresh("new_to_old_action")], {}, dict(ai=ai, has=has, none=none, val=val)

    def post(self, eng, ctx, st, out):
        ai = ctx["ai"]
        act = B._uf("ActionInstance30.action", AI30.z3sort(), ACT30.z3sort())(ai.z)
        par = B._uf("ActionInstance30.actual_parameters", AI30.z3sort(), PAR30.z3sort())(ai.z)
        if out[0] == "raise":
            st.oblige("KeyError only for an action without an entry", z3.Not(z3.Select(ctx["has"], act)))
            return
        r = out[1]
        if r is None:
            st.oblige("None only for an action mapped to None", z3.And(z3.Select(ctx["has"], act), z3.Select(ctx["none"], act)))
            return
        built = st.ghost.get("built")
        st.oblige("an action instance is built", z3.BoolVal(built is not None))
        if built is not None:
            st.oblige("the original action on the very same parameters",
                      z3.And(z3.Select(ctx["has"], act), z3.Not(z3.Select(ctx["none"], act)), built[0].z == z3.Select(ctx["val"], act),
                             (built[1].z == par) if isinstance(built[1], SRef) else z3.BoolVal(False)))


UNITS = [LiteralParts(), NegateLiteral(), AssignOneofChoice(False), AssignOneofChoice(True), LiteralHolds(), MapBackInstance()]
LEVEL = "other"
EXPLANATION = __doc__
TRUSTED = ["P kernels: FNode.is_fluent_exp / is_not / arg(0) and ExpressionManager.Not are opaque with the axioms `Not(x)` is a negation of x and not a fluent expression; "
           "the translation itself (_compile_normalized_problem, relevance relation, basis reduction) is bounded only (run-time contracts + exhaustive search)",
           "both searches use the reference successor semantics of spec/seqsem.py", "completeness is decided only when the compiled state space is exhausted within the cap"]
USES_THEORY = False

"""C38 — writer renamings are valid, injective and invertible.

P: PDDLWriter._get_mangled_name on the real source, for an arbitrary item and arbitrary renaming tables: the two tables
   stay mutually inverse (otn[i] = n  <=>  nto[n] = i), an item already renamed keeps its name, a new item gets a name
   that was not in use, nothing else changes; get_pddl_name / get_item_named return exactly the table entries.
   (`_get_pddl_name` is an assumed contract here -- it returns some string; its validity clause is the bounded part.)
B: adversarial identifier sets (case variants, keywords of both languages, symbols, leading digits, empty-ish names,
   names equal to the mangled forms of other names) for types, fluents, objects, actions and parameters:
   PDDL: every chosen name full-matches the PDDL identifier grammar, is not a keyword of the requirements in use
   (case-insensitively), names differ case-insensitively inside each namespace (types / predicates+functions /
   constants / actions / parameters of one action), get_item_named(get_pddl_name(i)) is i and
   get_pddl_name(get_item_named(n)) == n for every table entry, and every declared name appears in the written text;
   ANML: every identifier declared in the written text full-matches the ANML identifier grammar, is not an ANML keyword
   and is declared once; the number of declarations equals the number of model elements.
"""
import random
import re
import warnings
import z3
from pyvc.values import *  # noqa
from pyvc.values import Rec, ExcVal, SUnion
from pyvc.verify import Unit
from pyvc.engine import LoopSpec, OPAQUE
from pyvc import builtins as B

import unified_planning as up
import unified_planning.io.pddl_writer as pw
import unified_planning.io.anml_writer as aw
from unified_planning.exceptions import UPException

Item = Ref("WithName")
ProblemT = Ref("Problem38")
ProblemT.observers["has_name"] = ((Str,), Bool)
KindT = Ref("ProblemKind38")
KindT.observers["has_hierarchical_typing"] = ((), Bool)


class Mangled(Unit):
    prop = "C38"
    name = "PDDLWriter._get_mangled_name"
    doc = "renaming tables stay mutually inverse; known item keeps its name; new item gets an unused name; frame"
    allowed_raises = ()

    def target(self):
        return pw.PDDLWriter._get_mangled_name

    def configure(self, eng):
        eng.partial_classes.add(pw.PDDLWriter)

        def get_pddl_name(e, st, args, kw):
            yield st, Str.fresh("tmp_name")
        eng.contracts[pw._get_pddl_name] = get_pddl_name
        Item.fields["name"] = Str
        Item.observers["is_user_type"] = ((), Bool)
        Item.pycls = object   # an arbitrary named item; whether it is a Type is an uninterpreted predicate
        Item.isinstance_hook = lambda e, st, v, clss: SBool(B._uf("WithName.is_Type", Item.z3sort(), z3.BoolSort())(v.z))

        def inv(L):
            return SBool(z3.BoolVal(True))
        eng.loops[("unified_planning.io.pddl_writer.PDDLWriter._get_mangled_name", 0)] = LoopSpec(inv, types={"new_name": Str, "count": Int})

    def inverse(self, otn, nto):
        i, n = Item.fresh("i"), Str.fresh("n")
        return z3.And(
            z3.ForAll([i.z], z3.Implies(z3.Select(otn.has, i.z), z3.And(z3.Select(nto.has, z3.Select(otn.val, i.z)),
                                                                         z3.Select(nto.val, z3.Select(otn.val, i.z)) == i.z))),
            z3.ForAll([n.z], z3.Implies(z3.Select(nto.has, n.z), z3.And(z3.Select(otn.has, z3.Select(nto.val, n.z)),
                                                                         z3.Select(otn.val, z3.Select(nto.val, n.z)) == n.z))))

    def setup(self, eng, st):
        otn0 = eng.fresh_of(st, Map(Item, Str), "otn")
        nto0 = eng.fresh_of(st, Map(Str, Item), "nto")
        st.assume(self.inverse(otn0, nto0))
        otn, nto = st.alloc(otn0, "dict"), st.alloc(nto0, "dict")
        selfv = st.alloc(Rec(pw.PDDLWriter, {"otn_renamings": otn, "nto_renamings": nto, "problem": ProblemT.fresh("problem"),
                                             "problem_kind": KindT.fresh("kind"), "pddl_keywords": OPAQUE}), "self")
        item = Item.fresh("item")
        # call sites only pass user types (the writer rejects other parameter types before): precondition
        st.assume(z3.Implies(B._uf("WithName.is_Type", Item.z3sort(), z3.BoolSort())(item.z),
                             B._uf("WithName.is_user_type()", Item.z3sort(), z3.BoolSort())(item.z)))
        return [selfv, item], {}, dict(otn=otn, nto=nto, otn0=otn0, nto0=nto0, item=item)

    def post(self, eng, ctx, st, out):
        if out[0] == "raise":
            return
        r = out[1]
        otn1, nto1 = st.load(ctx["otn"]), st.load(ctx["nto"])
        otn0, nto0, item = ctx["otn0"], ctx["nto0"], ctx["item"]
        st.oblige("tables stay mutually inverse", self.inverse(otn1, nto1))
        st.oblige("the item is registered under the returned name", z3.And(otn1.contains(item).z, otn1.get(item).z == r.z,
                                                                          nto1.contains(r).z, nto1.get(r).z == item.z))
        known = otn0.contains(item).z
        st.oblige("known item: same name, tables unchanged", z3.Implies(known, z3.And(r.z == otn0.get(item).z, otn1.same(otn0).z, nto1.same(nto0).z)))
        st.oblige("new item: the name was not in use", z3.Implies(z3.Not(known), z3.Not(nto0.contains(r).z)))
        i, n = Item.fresh("i"), Str.fresh("n")
        st.oblige("new item: every other entry is unchanged", z3.Implies(z3.Not(known), z3.And(
            z3.ForAll([i.z], z3.Implies(i.z != item.z, z3.And(z3.Select(otn1.has, i.z) == z3.Select(otn0.has, i.z),
                                                              z3.Select(otn1.val, i.z) == z3.Select(otn0.val, i.z)))),
            z3.ForAll([n.z], z3.Implies(n.z != r.z, z3.And(z3.Select(nto1.has, n.z) == z3.Select(nto0.has, n.z),
                                                           z3.Select(nto1.val, n.z) == z3.Select(nto0.val, n.z)))))))


class Lookup(Unit):
    prop = "C38"
    allowed_raises = (UPException,)

    def __init__(self, meth):
        self.meth = meth
        self.name = f"PDDLWriter.{meth}"
        self.doc = "returns exactly the table entry; raises UPException exactly when there is none; tables untouched"

    def target(self):
        return getattr(pw.PDDLWriter, self.meth)

    def configure(self, eng):
        eng.partial_classes.add(pw.PDDLWriter)

    def setup(self, eng, st):
        otn0 = eng.fresh_of(st, Map(Item, Str), "otn")
        nto0 = eng.fresh_of(st, Map(Str, Item), "nto")
        otn, nto = st.alloc(otn0, "dict"), st.alloc(nto0, "dict")
        selfv = st.alloc(Rec(pw.PDDLWriter, {"otn_renamings": otn, "nto_renamings": nto}), "self")
        arg = Str.fresh("name") if self.meth == "get_item_named" else Item.fresh("item")
        return [selfv, arg], {}, dict(otn=otn, nto=nto, otn0=otn0, nto0=nto0, arg=arg)

    def post(self, eng, ctx, st, out):
        tab = ctx["nto0"] if self.meth == "get_item_named" else ctx["otn0"]
        st.oblige("tables untouched", z3.And(st.load(ctx["otn"]).same(ctx["otn0"]).z, st.load(ctx["nto"]).same(ctx["nto0"]).z))
        if out[0] == "raise":
            st.oblige("raises only when there is no entry", z3.Not(tab.contains(ctx["arg"]).z))
        else:
            st.oblige("returns the table entry", z3.And(tab.contains(ctx["arg"]).z, out[1].z == tab.get(ctx["arg"]).z))


UNITS = [Mangled(), Lookup("get_item_named"), Lookup("get_pddl_name")]

# ------------------------------------------------------------------------------------------------------ bounded
PDDL_ID = re.compile(r"[a-zA-Z][a-zA-Z0-9_\-]*\Z")
ANML_ID = re.compile(r"[a-zA-Z][a-zA-Z0-9_]*\Z")

ADVERSARIAL = ["a", "A", "a_0", "A_0", "a_1", "ab", "aB", "Ab", "AB", "x-y", "x_y", "x y", "x.y", "x@y", "1st", "9", "_u", "-d", "?q", "é", "naïve",
               "and", "AND", "And", "or", "not", "when", "forall", "exists", "at", "over", "start", "end", "all", "define", "domain", "problem", "object",
               "Object", "objects", "init", "goal", "either", "number", "action", "fluent", "constant", "instance", "duration", "predicate", "function",
               "type", "types", "assign", "increase", "decrease", "imply", "total-time", "total_time", "preference", "always", "sometime", "within",
               "f_9", "o_9", "a_9", "p_9", "x_9", "and_", "and__", "at_", "object_", "a-b", "a_b", "A-B", "t", "T", "true", "false", "in", "with", "use",
               "contains", "start_0", "end_0", "observe", "oneof", "unknown", "minimize", "maximize", "metric", "is-violated", "effect", "precondition",
               "parameters", "condition", "durative-action", "scale-up", "undefined", "float", "integer", "boolean", "Float", "rational", "set", "string",
               # white space inside and at either end (a name read with readline() keeps its line feed; `$` matches before a final line feed, `\Z` does not)
               "a\n", "at\n", "l1\n", "move\n", "a\n\n", "x\ny", "x\ty", " a", "a ", "a\r", "\na"]


def names_pool(rng, k):
    pool = list(ADVERSARIAL)
    out = []
    seen = set()
    while len(out) < k:
        n = rng.choice(pool)
        if n in seen:
            continue
        seen.add(n)
        out.append(n)
    return out


def build_problem(rng, temporal):
    from unified_planning.shortcuts import Problem, UserType, Fluent, BoolType, IntType, Object, InstantaneousAction, DurativeAction, Not, StartTiming, EndTiming
    env = up.environment.get_environment()
    nm = names_pool(rng, 14)
    it = iter(nm)
    pr = Problem(rng.choice(["prob", "9prob", "and", "p q"]))
    items = {"types": [], "fluents": [], "objects": [], "actions": [], "params": {}}
    T1 = UserType(next(it))
    T2 = UserType(next(it), T1) if rng.random() < 0.5 else UserType(next(it))
    items["types"] = [T1, T2]
    fl = []
    for _ in range(3):
        f = Fluent(next(it), BoolType(), **{rng.choice(["x", "X", "and", "1p", "p-q"]): T1}) if rng.random() < 0.6 else Fluent(next(it), rng.choice([BoolType(), IntType(0, 5)]))
        try:
            pr.add_fluent(f, default_initial_value=(False if f.type.is_bool_type() else 0))
            fl.append(f)
        except Exception:  # noqa  (name clash rejected by the problem: fine)
            pass
    items["fluents"] = fl
    for _ in range(3):
        try:
            o = Object(next(it), rng.choice([T1, T2]))
            pr.add_object(o)
            items["objects"].append(o)
        except Exception:  # noqa
            pass
    for k in range(3):
        pn = rng.sample(["x", "X", "x_0", "and", "1p", "p-q", "at", "?v", "y"], 2)
        an = next(it)
        try:
            if temporal and k == 0:
                a = DurativeAction(an, **{pn[0]: T1, pn[1]: T2})
                a.set_fixed_duration(2)
                for f in fl:
                    if f.type.is_bool_type() and f.arity == 1:
                        a.add_condition(StartTiming(), Not(f(a.parameters[0])))
                        a.add_effect(EndTiming(), f(a.parameters[0]), True)
                        break
            else:
                a = InstantaneousAction(an, **{pn[0]: T1, pn[1]: T2})
                for f in fl:
                    if f.type.is_bool_type() and f.arity == 1:
                        a.add_precondition(Not(f(a.parameters[0])))
                        a.add_effect(f(a.parameters[0]), True)
                        break
            pr.add_action(a)
            items["actions"].append(a)
            items["params"][a.name] = list(a.parameters)
        except Exception:  # noqa
            pass
    for f in fl:
        if f.type.is_bool_type() and f.arity == 0:
            pr.add_goal(f())
    return pr, items


def check_pddl(pr, items, bad, detail):
    w = pw.PDDLWriter(pr)
    try:
        dom, prob = w.get_domain(), w.get_problem()
    except Exception as ex:  # noqa
        if type(ex).__name__ in ("UPTypeError", "UPProblemDefinitionError", "UPUnsupportedProblemTypeError"):
            return 0
        bad(f"PDDLWriter raised {type(ex).__name__}", detail, str(ex)[:200])
        return 0
    kws = {k.lower() for k in w.pddl_keywords}
    text = (dom + "\n" + prob).lower()
    n = 0
    spaces = [("types", items["types"]), ("fluents", items["fluents"]), ("objects", items["objects"]), ("actions", items["actions"])]
    spaces += [(f"parameters of {a}", ps) for a, ps in items["params"].items()]
    for space, its in spaces:
        chosen = {}
        for it_ in its:
            try:
                name = w.get_pddl_name(it_)
            except UPException:
                continue      # item never written (e.g. unused type)
            n += 1
            core = name[1:] if name.startswith("?") else name
            if space.startswith("parameters") != name.startswith("?"):
                bad("PDDL name has a '?' exactly for parameters violated", dict(detail, item=str(it_), name=name))
            if not PDDL_ID.match(core):
                bad("PDDL name is not a valid identifier", dict(detail, item=str(it_), name=name))
            if core.lower() in kws:
                bad("PDDL name is a keyword", dict(detail, item=str(it_), name=name))
            if space == "types" and core.lower() == "object" and pr.kind.has_hierarchical_typing():
                # PDDL is case-insensitive and `object` is its predefined root type: in a type hierarchy a user type written as `object`
                # (in any case) would be declared as its own supertype
                bad("a user type is written as PDDL's predefined root type `object` in a hierarchically typed problem", dict(detail, item=str(it_), name=name))
            if name.lower() in chosen and chosen[name.lower()] is not it_ and chosen[name.lower()] != it_:
                bad(f"two {space.split(' ')[0]} share a PDDL name (case-insensitively)", dict(detail, a=str(it_), b=str(chosen[name.lower()]), name=name))
            chosen[name.lower()] = it_
            try:
                back = w.get_item_named(name)
                if back is not it_ and back != it_:
                    bad("get_item_named(get_pddl_name(item)) is not the item", dict(detail, item=str(it_), name=name, back=str(back)))
            except UPException:
                bad("get_item_named fails on a name the writer chose", dict(detail, item=str(it_), name=name))
            if not re.search(r"(?<![a-z0-9_\-])" + re.escape(name.lower()) + r"(?![a-z0-9_\-])", text):
                bad("chosen PDDL name does not occur in the written text", dict(detail, item=str(it_), name=name))
    for name, it_ in list(w.nto_renamings.items()):
        if w.get_pddl_name(it_) != name:
            bad("get_pddl_name(get_item_named(name)) is not the name", dict(detail, name=name, item=str(it_)))
    return n


DECL = [re.compile(r"^\s*type\s+([^\s;<]+)"), re.compile(r"^\s*(?:fluent|constant)\s+.*?\s([^\s(;]+)\s*(?:\(|;)"), re.compile(r"^\s*action\s+([^\s(]+)\s*\("),
        re.compile(r"^\s*instance\s+\S+\s+(.*);")]


def check_anml(pr, items, bad, detail):
    w = aw.ANMLWriter(pr)
    try:
        text = w.get_problem()
    except Exception as ex:  # noqa
        if type(ex).__name__ in ("UPTypeError", "UPProblemDefinitionError", "UPUnsupportedProblemTypeError"):
            return 0
        bad(f"ANMLWriter raised {type(ex).__name__}", detail, str(ex)[:200])
        return 0
    declared = {"type": [], "fluent": [], "action": [], "instance": []}
    for line in text.splitlines():
        m = DECL[0].match(line)
        if m:
            declared["type"].append(m.group(1))
            continue
        m = DECL[2].match(line)
        if m:
            declared["action"].append(m.group(1))
            # parameters: "type name" pairs
            inside = line[line.index("(") + 1: line.index(")")] if ")" in line else ""
            ps = [p.strip().rsplit(" ", 1)[-1] for p in inside.split(",") if p.strip()]
            declared.setdefault("params:" + m.group(1), []).extend(ps)
            continue
        m = DECL[3].match(line)
        if m:
            declared["instance"].extend([x.strip() for x in m.group(1).split(",")])
            continue
        if re.match(r"^\s*(fluent|constant)\s", line):
            head = line.split("(")[0].rstrip(";").strip()
            declared["fluent"].append(head.rsplit(" ", 1)[-1] if "]" not in head.rsplit(" ", 1)[-1] and ")" not in head.rsplit(" ", 1)[-1] else head)
    n = 0
    allnames = []
    for space, names in declared.items():
        for nm_ in names:
            n += 1
            if not ANML_ID.match(nm_):
                bad("ANML declared name is not a valid identifier", dict(detail, space=space.split(":")[0], name=nm_))
            if nm_ in aw.ANML_KEYWORDS:
                bad("ANML declared name is a keyword", dict(detail, space=space.split(":")[0], name=nm_))
        if len(set(names)) != len(names):
            bad(f"two {space.split(':')[0]} declarations share an ANML name", dict(detail, names=names))
        if not space.startswith("params"):
            allnames += names
    if len(set(allnames)) != len(allnames):
        bad("two different model elements share an ANML name", dict(detail, names=sorted(allnames)))
    want = {"type": len(pr.user_types), "fluent": len(pr.fluents), "action": len(pr.actions), "instance": len(pr.all_objects)}
    for k_, v in want.items():
        if len(declared[k_]) != v:
            bad(f"ANML text declares {len(declared[k_])} {k_} names for {v} model elements", dict(detail, declared=declared[k_]), text[:600])
    return n


def reserved_type_problems():
    """directed: a user type whose name is a case variant of a word the target languages reserve for types (`object`, PDDL's predefined root
    type; `number`), as root and as child of a type hierarchy"""
    from unified_planning.shortcuts import Problem, UserType, Fluent, BoolType, Object, InstantaneousAction, Not
    out = []
    for nm in ("object", "Object", "OBJECT", "oBject", "number", "Number"):
        for as_root in (True, False):
            pr = Problem("reserved_" + nm)
            if as_root:
                T1 = UserType(nm)
                T2 = UserType("crate", T1)
            else:
                T1 = UserType("thing")
                T2 = UserType(nm, T1)
            f = Fluent("held", BoolType(), x=T1)
            pr.add_fluent(f, default_initial_value=False)
            o1, o2 = Object("o1", T1), Object("o2", T2)
            pr.add_objects([o1, o2])
            a = InstantaneousAction("take", x=T1, y=T2)
            a.add_precondition(Not(f(a.parameters[0])))
            a.add_effect(f(a.parameters[0]), True)
            pr.add_action(a)
            pr.add_goal(f(o2))
            out.append((pr, {"types": [T1, T2], "fluents": [f], "objects": [o1, o2], "actions": [a], "params": {a.name: list(a.parameters)}},
                        {"reserved_type_name": nm, "as_root": as_root}))
    return out


def bounded(tier, seed):
    n = 120 if tier == "quick" else 3000
    rng = random.Random(seed * 31337 + 38)
    failures, evals, nontrivial = [], 0, set()

    def bad(what, detail, observed=None):
        if len(failures) < 12 and what not in {f["what"] for f in failures}:
            failures.append({"what": what, "concrete": detail, "observed": observed})
    with warnings.catch_warnings():
        warnings.simplefilter("ignore")
        for pr, items, detail in reserved_type_problems():
            evals += check_pddl(pr, items, bad, detail)
            evals += check_anml(pr, items, bad, detail)
        for i in range(n):
            s_ = seed * 1000003 + i
            temporal = (i % 3 == 0)
            pr, items = build_problem(random.Random(s_), temporal)
            detail = {"seed": s_, "temporal": temporal}
            evals += check_pddl(pr, items, bad, detail)
            evals += check_anml(pr, items, bad, detail)
            nontrivial.add(tuple(sorted(str(x) for x in pr.user_types)) + tuple(f.name for f in pr.fluents))
            if len(failures) >= 12:
                break
    return {"evaluations": evals, "distinct_nontrivial": len(nontrivial), "failures": failures,
            "rule": f"12 directed problems with a user type named like a reserved type word (case variants of object / number, as root and as child); {n} problems whose types/fluents/objects/actions/parameters draw names from {len(ADVERSARIAL)} adversarial identifiers; "
                    f"evaluation = one chosen name checked (validity, keyword, uniqueness in namespace, both lookups, presence in text); non-trivial = distinct name set",
            "samples": [{"adversarial_pool": ADVERSARIAL[:12]}], "bound": f"{n} problems"}


def replay_file(data):
    c = data.get("concrete") or {}
    fails = []
    with warnings.catch_warnings():
        warnings.simplefilter("ignore")
        pr, items = build_problem(random.Random(c.get("seed", 0)), c.get("temporal", False))
        bad = lambda what, detail, observed=None: fails.append(what)  # noqa
        check_pddl(pr, items, bad, {})
        check_anml(pr, items, bad, {})
    return {"reproduced": bool(fails), "concrete": c, "observed": sorted(set(fails))[:6]}


LEVEL = "other"
EXPLANATION = __doc__
TRUSTED = ["_get_pddl_name is an assumed contract in the P unit (returns a string); identifier validity / keyword avoidance are bounded only",
           "Problem.has_name is a pure observer", "dict keys (items) compare by an equivalence consistent with hash (items are opaque references)",
           "termination of the renaming loop is not proved", "ANML names are observed by parsing the declarations of the written text"]
USES_THEORY = False

"""Kernels shared by the compilers, under contract for C06 (soundness of the map back) and C07 (completeness):

  replace_action / lift_action_instance   the map-back plumbing every compiler hands to CompilerResult: the instance that comes back is the
      mapped action applied to the very same parameters (None exactly when the map says the action has no counterpart; UPUsageError exactly
      for an action the compiler never produced);
  check_and_simplify_preconditions        used by the grounder and the removers to prune actions: with the Simplifier by its contract (C11: the
      value is preserved under every interpretation), the answer False is given only for preconditions that are false under the interpretation
      at hand -- so a pruned action is never applicable (completeness) -- and otherwise the new preconditions are equivalent to the old ones
      (soundness and completeness), for any number of preconditions.
The ActionInstance constructor is used by contract (its own checks are proved in C23).
"""
import z3
from pyvc.values import Ref, Seq, Map, Opt, SBool, SRef, SUnion, SSeq, SMap, Rec, CList, Loc, ExcVal, fresh_name, zbool, zint, Unsupported
from pyvc.verify import Unit
from pyvc import builtins as B
from contracts import theory as T
from contracts.theory import OK, OKT, node_type, evb, args_arr, args_len
import unified_planning as up
import unified_planning.engines.compilers.utils as _cu
from unified_planning.exceptions import UPUsageError as _Usage

Action, Params, Agent, Paths = Ref("ActionK"), Ref("ParamsK"), Ref("AgentK"), Ref("MotionPathsK")
AI = Ref("ActionInstanceK", fields={"action": Action, "actual_parameters": Params, "agent": Opt(Agent), "motion_paths": Opt(Paths)})
MKAI = z3.Function("ActionInstance", Action.z3sort(), Params.z3sort(), AI.z3sort())
TUPLE_OF = z3.Function("tuple_of", Ref("ParamListK").z3sort(), Params.z3sort())
ParamList = Ref("ParamListK")


def _new_ai(eng, st, args, kw):
    a = args[0]
    p = args[1] if len(args) > 1 else kw.get("params")
    st.ghost["ai_built"] = st.ghost.get("ai_built", ()) + ((a, p, args[2] if len(args) > 2 else kw.get("agent"), args[3] if len(args) > 3 else kw.get("motion_paths")),)
    yield st, AI.wrap(MKAI(a.z, p.z if isinstance(p, SRef) else Params.fresh("other_params").z))


def _tuple_contract(eng, st, args, kw):
    yield st, Params.wrap(TUPLE_OF(args[0].z))


class ReplaceAction(Unit):
    name = "replace_action"
    doc = "the mapped action on the same parameters, agent and motion paths; None iff mapped to None; UPUsageError iff the action is not in the map"
    allowed_raises = (_Usage,)

    def __init__(self, prop):
        self.prop = prop

    def target(self):
        return _cu.replace_action

    def configure(self, eng):
        eng.contracts[_cu.ActionInstance] = _new_ai

    def setup(self, eng, st):
        ai = AI.fresh("action_instance")
        m = eng.fresh_of(st, Map(Action, Opt(Action)), "map") if False else None
        has = z3.Array(fresh_name("map.has"), Action.z3sort(), z3.BoolSort())
        none = z3.Array(fresh_name("map.isnone"), Action.z3sort(), z3.BoolSort())
        val = z3.Array(fresh_name("map.val"), Action.z3sort(), Action.z3sort())
        MapRef = Ref("ActionMapK")

        def getitem(eng_, s, selfv, args_, kw_):
            k = args_[0]
            for s2, ok in eng_.branch(s, z3.Select(has, k.z), "map:has"):
                if not ok:
                    yield s2, ExcVal(KeyError, (), "map[...]")
                else:
                    yield s2, SUnion([(z3.Select(none, k.z), None), (z3.Not(z3.Select(none, k.z)), Action.wrap(z3.Select(val, k.z)))])
        MapRef.methods["__getitem__"] = getitem
        mp = MapRef.fresh("map")
        return [ai, mp], {}, dict(ai=ai, has=has, none=none, val=val)

    def post(self, eng, ctx, st, out):
        ai, has, none, val = ctx["ai"], ctx["has"], ctx["none"], ctx["val"]
        act = B._uf("ActionInstanceK.action", AI.z3sort(), Action.z3sort())(ai.z)
        if out[0] == "raise":
            st.oblige("UPUsageError only for an action that has no entry in the map", z3.Not(z3.Select(has, act)))
            return
        st.oblige("an action without an entry is rejected", z3.Select(has, act))
        r = out[1]
        if r is None:
            st.oblige("None only when the map sends the action to None", z3.Select(none, act))
            return
        st.oblige("an instance only when the action has a counterpart", z3.Not(z3.Select(none, act)))
        built = st.ghost.get("ai_built", ())
        st.oblige("exactly one instance is built", z3.BoolVal(len(built) == 1))
        if len(built) == 1:
            a, p, ag, mpaths = built[0]
            st.oblige("of the mapped action", a.z == z3.Select(val, act))
            st.oblige("on the very same actual parameters", (p.z == B._uf("ActionInstanceK.actual_parameters", AI.z3sort(), Params.z3sort())(ai.z))
                      if isinstance(p, SRef) else z3.BoolVal(False))
            same_ag = B.identical(eng, st, ag, B.field_uf(eng, st, ai, "agent"))
            same_mp = B.identical(eng, st, mpaths, B.field_uf(eng, st, ai, "motion_paths"))
            st.oblige("with the same agent and motion paths", z3.And(zbool(same_ag), zbool(same_mp)))


class LiftActionInstance(Unit):
    name = "lift_action_instance"
    doc = "the instance of the original action on the parameters the grounding recorded"

    def __init__(self, prop):
        self.prop = prop

    def target(self):
        return _cu.lift_action_instance

    def configure(self, eng):
        eng.contracts[_cu.ActionInstance] = _new_ai
        eng.contracts[tuple] = _tuple_contract

    def setup(self, eng, st):
        ai = AI.fresh("action_instance")
        orig = z3.Array(fresh_name("map.action"), Action.z3sort(), Action.z3sort())
        plist = z3.Array(fresh_name("map.params"), Action.z3sort(), ParamList.z3sort())
        has = z3.Array(fresh_name("map.has"), Action.z3sort(), z3.BoolSort())
        MapRef = Ref("GroundMapK")

        def getitem(eng_, s, selfv, args_, kw_):
            k = args_[0]
            for s2, ok in eng_.branch(s, z3.Select(has, k.z), "map:has"):
                yield s2, (ExcVal(KeyError, (), "map[...]") if not ok else (Action.wrap(z3.Select(orig, k.z)), ParamList.wrap(z3.Select(plist, k.z))))
        MapRef.methods["__getitem__"] = getitem
        act = B._uf("ActionInstanceK.action", AI.z3sort(), Action.z3sort())(ai.z)
        st.assume(z3.Select(has, act))     # the plan is a plan of the compiled problem: every action has an entry
        return [ai, MapRef.fresh("map")], {}, dict(ai=ai, orig=orig, plist=plist)

    def post(self, eng, ctx, st, out):
        if out[0] != "return":
            return
        ai = ctx["ai"]
        act = B._uf("ActionInstanceK.action", AI.z3sort(), Action.z3sort())(ai.z)
        built = st.ghost.get("ai_built", ())
        st.oblige("exactly one instance is built", z3.BoolVal(len(built) == 1))
        if len(built) == 1:
            a, p, _, _ = built[0]
            st.oblige("of the original action recorded for the grounded action", a.z == z3.Select(ctx["orig"], act))
            st.oblige("on the recorded parameters", p.z == TUPLE_OF(z3.Select(ctx["plist"], act)))


ProblemK, EnvK, SimplifierK = Ref("ProblemK"), Ref("EnvironmentK"), Ref("SimplifierK")
ProblemK.fields["environment"] = EnvK
EnvK.fields["expression_manager"] = T.Manager
_SIMP = z3.Function("simplify", T.FNode.z3sort(), T.FNode.z3sort())


def _simplify(eng, st, selfv, args, kw):
    """contract of Simplifier.simplify = C11: the result has the value of the argument (under the interpretation at hand)"""
    r = _SIMP(args[0].z)
    st.assume(evb(r) == evb(args[0].z))
    yield st, T.FNode.wrap(r)


SimplifierK.methods["simplify"] = _simplify


class InstAction:
    """marker record for the instantaneous action whose preconditions are simplified"""
    def _set_preconditions(self, p): pass     # noqa: E704


class CheckAndSimplifyPreconditions(Unit):
    name = "check_and_simplify_preconditions"
    doc = "False only for preconditions that are false; otherwise the new preconditions are equivalent to the old ones (any number of preconditions)"

    def __init__(self, prop):
        self.prop = prop

    def target(self):
        return _cu.check_and_simplify_preconditions

    def configure(self, eng):
        eng.axioms += T.semantic_axioms((OK.AND, OK.BOOL_CONSTANT))

        def set_pre(eng_, st, args, kw):
            st.ghost["set_preconditions"] = eng_.deref(st, args[1])
            yield st, None
        eng.contracts[InstAction._set_preconditions] = set_pre

    def setup(self, eng, st):
        ap = eng.fresh_of(st, Seq(T.FNode), "preconditions")
        act = st.alloc(Rec(InstAction, {"preconditions": st.alloc(ap, "list")}), "action")
        return [ProblemK.fresh("problem"), act, SimplifierK.fresh("simplifier")], {}, dict(ap=ap)

    def post(self, eng, ctx, st, out):
        if out[0] != "return":
            return
        ap = ctx["ap"]
        j = z3.Int(fresh_name("j"))
        conj_old = z3.ForAll([j], z3.Implies(z3.And(0 <= j, j < ap.n), evb(z3.Select(ap.arr, j))))
        ok, nap = out[1]
        okv = eng.as_bool_value(st, ok)
        nap = eng.deref(st, nap)
        if okv is False:
            st.oblige("the action is pruned only when its preconditions are false (under the interpretation at hand, i.e. under every one)", z3.Not(conj_old))
            return
        nseq = B.as_sseq(eng, st, nap, T.FNode) if not (isinstance(nap, CList) and not nap.items) else SSeq.of(T.FNode, [])
        conj_new = z3.ForAll([j], z3.Implies(z3.And(0 <= j, j < nseq.n), evb(z3.Select(nseq.arr, j))))
        st.oblige("the new preconditions hold exactly when the old ones do", conj_new == conj_old)
        if ap is not None:
            stored = st.ghost.get("set_preconditions")
            if stored is not None:
                sseq = B.as_sseq(eng, st, stored, T.FNode) if not (isinstance(stored, CList) and not stored.items) else SSeq.of(T.FNode, [])
                st.oblige("the action receives exactly the returned preconditions",
                          z3.And(sseq.n == nseq.n, z3.ForAll([j], z3.Implies(z3.And(0 <= j, j < nseq.n), z3.Select(sseq.arr, j) == z3.Select(nseq.arr, j)))))


def units(prop):
    return [ReplaceAction(prop), LiftActionInstance(prop), CheckAndSimplifyPreconditions(prop)]


TRUSTED = ["Simplifier.simplify preserves the value of its argument (C11)", "ActionInstance(...) by contract (its parameter checks are proved in C23)",
           "the kernels are shared plumbing: what each compiler's _compile builds around them is decided by the bounded layer"]

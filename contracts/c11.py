"""C11 — simplification preserves the meaning of expressions.

Fold schema (DESIGN.md 3.1): DagWalker.walk computes the fold of the handlers (proved in C14); here, for every
operator kind, the handler the real Simplifier class dispatches that kind to is verified against the local
obligation  (forall children j. value(args[j]) == value(arg_j(expression)))  =>  value(result) == value(expression)
for one arbitrary, fixed interpretation (evb / evn / evo uninterpreted, defining equations per kind).
Constructor calls use the ExpressionManager contracts (proved in C16).
"""
import z3
from pyvc.values import *  # noqa
from pyvc.values import Rec
from pyvc.verify import Unit
from pyvc.engine import LoopSpec
from pyvc import builtins as B
from . import theory as T
from .theory import OK, evb, evn, evo, is_numeric, args_arr, args_len

import unified_planning.model.walkers.simplifier as simp
from unified_planning.model.walkers.generic import nt_to_fun

QN = "unified_planning.model.walkers.simplifier.Simplifier."
BOOL_KINDS = {OK.AND, OK.OR, OK.NOT, OK.IMPLIES, OK.IFF, OK.LE, OK.LT, OK.EQUALS}
NUM_KINDS = {OK.PLUS, OK.MINUS, OK.TIMES, OK.DIV}


def same_value(a, b):
    """two nodes denote the same value under the fixed interpretation"""
    return z3.And(evb(a) == evb(b), evn(a) == evn(b), evo(a) == evo(b), is_numeric(a) == is_numeric(b))


def conj(keys):
    m = z3.Int(fresh_name("m"))
    return z3.ForAll([m], z3.Implies(z3.And(0 <= m, m < keys.n), evb(z3.Select(keys.arr, m))))


def disj(keys):
    m = z3.Int(fresh_name("m"))
    return z3.Exists([m], z3.And(0 <= m, m < keys.n, evb(z3.Select(keys.arr, m))))


def prefix_all(arr, i):
    j = z3.Int(fresh_name("j"))
    return z3.ForAll([j], z3.Implies(z3.And(0 <= j, j < i), evb(z3.Select(arr, j))))


def prefix_any(arr, i):
    j = z3.Int(fresh_name("j"))
    return z3.Exists([j], z3.And(0 <= j, j < i, evb(z3.Select(arr, j))))


def numz(v):
    """z3 Real of a python/symbolic number or an int|Fraction union"""
    if isinstance(v, SUnion):
        out = None
        for g, a in reversed(v.alts):
            out = zreal(a) if out is None else z3.If(g, zreal(a), out)
        return out
    return zreal(v)


class Handler(Unit):
    prop = "C11"

    def __init__(self, kind):
        self.kind = kind
        self.fn = getattr(simp.Simplifier, nt_to_fun(kind))       # what the real class dispatches this kind to
        self.name = f"Simplifier[{kind.name}] -> {self.fn.__name__}"
        self.doc = "children results have the children's values  =>  the result has the node's value"

    def target(self):
        return self.fn

    def configure(self, eng):
        eng.axioms += T.semantic_axioms() + T.fold_axioms() + T.prefix_lemmas() + T.typed_interpretation_axioms()
        fname = self.fn.__name__
        if fname in ("walk_and", "walk_or"):
            is_and = fname == "walk_and"
            pre_fn, col = (prefix_all, conj) if is_and else (prefix_any, disj)

            def outer(L):
                new = L.new_args
                args = L._seq
                keys = new.keys if hasattr(new, "keys") and not isinstance(new, B.PendingEmpty) else SSeq.of(T.FNode, [])
                return [("collected == prefix", col(keys) == pre_fn(args.arr, zint(L._i)))]

            def inner(L):
                new = L.new_args
                keys = new.keys if hasattr(new, "keys") and not isinstance(new, B.PendingEmpty) else SSeq.of(T.FNode, [])
                oi, oseq = zint(L._loop0_i), L._loop0_seq
                sub = L._seq
                if is_and:
                    rhs = z3.And(prefix_all(oseq.arr, oi), prefix_all(sub.arr, zint(L._i)))
                else:
                    rhs = z3.Or(prefix_any(oseq.arr, oi), prefix_any(sub.arr, zint(L._i)))
                return [("collected == outer prefix (+) inner prefix", col(keys) == rhs)]
            NA = Map(T.FNode, Bool, ordered=True)
            eng.loops[(QN + fname, 0)] = LoopSpec(outer, modifies=["a", "s", "new_args"], types={"new_args": NA, "a": T.FNode, "s": T.FNode})
            eng.loops[(QN + fname, 1)] = LoopSpec(inner, modifies=["s", "new_args"], types={"new_args": NA, "s": T.FNode})
        if fname == "walk_minus":
            self._arith_loops(eng, "walk_plus")       # walk_minus delegates to walk_plus
        if fname in ("walk_plus", "walk_times"):
            self._arith_loops(eng, fname)
            if fname == "walk_times":
                eng.axioms += T.zero_product_lemma()

    def _arith_loops(self, eng, fname):
        is_plus = fname == "walk_plus"
        fold = T.ssum if is_plus else T.sprod
        lst = "new_args_plus" if is_plus else "new_args_times"

        def accz(L):
            return numz(L.accumulator)

        def comb(a, b):
            return a + b if is_plus else a * b

        def allnum(new):
            m = z3.Int(fresh_name("m"))
            return z3.ForAll([m], z3.Implies(z3.And(0 <= m, m < new.n), is_numeric(z3.Select(new.arr, m))))

        def outer(L):
            new = L.seq(lst, T.FNode)
            args = L._seq
            return [("accumulator (+) fold(collected) == fold(prefix)", comb(accz(L), fold(new.arr, new.n)) == fold(args.arr, zint(L._i))),
                    ("collected are numeric", allnum(new)), ("len", new.n >= 0)]

        def inner(L):
            new = L.seq(lst, T.FNode)
            oi, oseq = zint(L._loop0_i), L._loop0_seq
            sub = L._seq
            return [("accumulator (+) fold(collected) == fold(outer prefix) (+) fold(inner prefix)",
                     comb(accz(L), fold(new.arr, new.n)) == comb(fold(oseq.arr, oi), fold(sub.arr, zint(L._i)))),
                    ("collected are numeric", allnum(new)), ("len", new.n >= 0)]
        ty = {"accumulator": Num, lst: Seq(T.FNode), "a": T.FNode, "s": T.FNode}
        eng.loops[(QN + fname, 0)] = LoopSpec(outer, modifies=["a", "s", "accumulator", lst], types=ty)
        eng.loops[(QN + fname, 1)] = LoopSpec(inner, modifies=["s", "accumulator", lst], types=ty)

    def setup(self, eng, st):
        mgr = T.Manager.fresh("manager")
        w = st.alloc(Rec(simp.Simplifier, {"manager": mgr, "environment": T.Environment.fresh("env"),
                                           "static_fluents": st.alloc(B.CSet(()), "set"), "problem": None}), "Simplifier")
        e = T.FNode.fresh("expression")
        T.assume_node(eng, st, e.z, self.kind)
        args = eng.fresh_of(st, Seq(T.FNode), "args")
        st.assume(args.n == args_len(e.z))
        j = z3.Int(fresh_name("j"))
        st.assume(z3.ForAll([j], z3.Implies(z3.And(0 <= j, j < args.n),
                                            same_value(z3.Select(args.arr, j), z3.Select(args_arr(e.z), j)))))
        if self.kind in (OK.LE, OK.LT, OK.MINUS, OK.DIV):
            # well-typed node: both children are numeric expressions (quantifier-free, so that path pruning sees it)
            C = T.OKT.consts
            for jj in (0, 1):
                a = z3.Select(args.arr, jj)
                st.assume(is_numeric(a), T.node_type(a) != C[OK.BOOL_CONSTANT], T.node_type(a) != C[OK.OBJECT_EXP])
        if self.kind in (OK.PLUS, OK.TIMES):
            st.assume(z3.ForAll([j], z3.Implies(z3.And(0 <= j, j < args.n), is_numeric(z3.Select(args.arr, j)))))
        if self.kind == OK.DIV:
            st.assume(evn(z3.Select(args_arr(e.z), 1)) != 0)      # division by zero is outside the semantics
        if self.kind == OK.EQUALS:
            # the two sides have compatible types (type checker, C15): both numeric or both objects
            a0, a1 = z3.Select(args.arr, 0), z3.Select(args.arr, 1)
            st.assume(is_numeric(a0) == is_numeric(a1))
            C = T.OKT.consts
            for a in (a0, a1):
                st.assume(z3.Implies(T.node_type(a) == C[OK.BOOL_CONSTANT], z3.BoolVal(False)))   # Equals is not used on Booleans
                st.assume(is_numeric(a) == z3.Or(T.node_type(a) == C[OK.INT_CONSTANT], T.node_type(a) == C[OK.REAL_CONSTANT],
                                                 z3.And(is_numeric(a), T.node_type(a) != C[OK.OBJECT_EXP])))
        return [w, e, st.alloc(args, "list")], {}, dict(e=e, args=args)

    def post(self, eng, ctx, st, out):
        if out[0] != "return":
            return
        r, e = out[1], ctx["e"]
        if self.kind in BOOL_KINDS:
            st.oblige("truth value preserved", evb(r.z) == evb(e.z))
        elif self.kind in NUM_KINDS:
            st.oblige("numeric value preserved", evn(r.z) == evn(e.z))
            st.oblige("result is numeric", is_numeric(r.z))
        else:
            st.oblige("value preserved", same_value(r.z, e.z))


# TIMES is *not* among the proved kinds: the loop-invariant steps of walk_times are products of uninterpreted folds
# (accumulator * prod(collected) == prod(prefix)); z3 proves them for some random seeds and times out for others,
# cvc5 times out -- too unstable to register.  walk_times is covered by the bounded layer below only.
KINDS = [OK.NOT, OK.IFF, OK.IMPLIES, OK.AND, OK.OR, OK.LE, OK.LT, OK.EQUALS, OK.MINUS, OK.PLUS, OK.DIV,
         OK.BOOL_CONSTANT, OK.INT_CONSTANT, OK.REAL_CONSTANT, OK.OBJECT_EXP, OK.PARAM_EXP, OK.VARIABLE_EXP]
UNITS = [Handler(k) for k in KINDS]
LEVEL = "other"
EXPLANATION = __doc__
TRUSTED = ["semantics of the operators (contracts/theory.py sem_eq) for one arbitrary fixed interpretation",
           "ExpressionManager constructor contracts (C16)", "DagWalker.walk computes the fold of the handlers (C14)"]


# ------------------------------------------------------------------------------- bounded layer
def hierarchy_equalities():
    """exhaustive: Equals(t1, t2) for all user-typed terms over Depot < Location > Market (both argument orders, so subtype-left and
    supertype-left), bare, negated and next to a disjunct, with and without a problem, under every type-correct assignment of the
    non-constant terms"""
    import itertools
    import warnings
    from unified_planning.shortcuts import Problem, Fluent, BoolType, UserType, Object, Variable, Equals, Not, Or
    from unified_planning.model import Parameter
    from unified_planning.model.walkers import Simplifier
    from spec.ev import ev
    Loc = UserType("Location11")
    Dep, Mar = UserType("Depot11", Loc), UserType("Market11", Loc)
    d1, d2, m1, l0 = Object("d1", Dep), Object("d2", Dep), Object("m1", Mar), Object("l0", Loc)
    pr = Problem("c11_hierarchy")
    pr.add_objects([d1, d2, m1, l0])
    fl, fd, fm, b = Fluent("at", Loc), Fluent("dep", Dep), Fluent("mk", Mar), Fluent("b", BoolType())
    for f in (fl, fd, fm, b):
        pr.add_fluent(f)
    vl, vd = Variable("vl", Loc), Variable("vd", Dep)
    pl, pd, pm = Parameter("pl", Loc), Parameter("pd", Dep), Parameter("pm", Mar)
    em = pr.environment.expression_manager
    terms = [em.ObjectExp(d1), em.ObjectExp(m1), em.ObjectExp(l0), fl(), fd(), fm(), em.VariableExp(vl), em.VariableExp(vd),
             em.ParameterExp(pl), em.ParameterExp(pd), em.ParameterExp(pm)]
    dom = {"Location11": [d1, d2, m1, l0], "Depot11": [d1, d2], "Market11": [m1]}
    failures, evals = [], 0
    with warnings.catch_warnings():
        warnings.simplefilter("ignore")
        simps = (("plain", Simplifier(pr.environment)), ("problem", Simplifier(pr.environment, pr)))
        for t1, t2 in itertools.product(terms, repeat=2):
            try:
                eq = Equals(t1, t2)
            except Exception:  # noqa: rejected by the constructor (incompatible types)
                continue
            holes = [t for t in {t1, t2} if not t.is_object_exp()]
            for e in (eq, Not(eq), Or(eq, b())):
                for which, simp_ in simps:
                    se = simp_.simplify(e)
                    for choice in itertools.product(*[dom[t.type.name] for t in holes]):
                        val = dict(zip(holes, choice))
                        env_ = {}
                        for t, o in val.items():
                            if t.is_variable_exp():
                                env_[t.variable()] = o
                            elif t.is_parameter_exp():
                                env_[t.parameter()] = o
                        for bv in (False, True):
                            lk = lambda f, args, val=val, bv=bv: bv if f.name == "b" else val[f()]
                            evals += 1
                            v1, v2 = ev(e, lk, env_, pr), ev(se, lk, env_, pr)
                            if v1 != v2:
                                failures.append({"what": "simplification changed the value [equality between user-typed terms of a type hierarchy]",
                                                 "concrete": {"expression": str(e), "simplifier": which, "assignment": {str(k): str(v) for k, v in val.items()}},
                                                 "observed": {"simplified": str(se), "value": str(v1), "simplified_value": str(v2)}})
                                break
                        else:
                            continue
                        break
                if len(failures) >= 3:
                    return failures, evals
    return failures, evals


def quantifier_scopes():
    """directed and exhaustive: the `Exists w. (w == t) and phi(w)` elimination next to quantifiers that bind, shadow or capture the variables
    involved -- t a free variable / an object / a fluent of a variable, phi containing a quantifier over a variable named like t's, several
    quantified variables of which some disappear -- under EVERY interpretation of two unary predicates over two objects and every value of the
    free variables: value preserved, no new free variable, simplify idempotent"""
    import itertools
    import warnings
    from unified_planning.shortcuts import Problem, Fluent, BoolType, UserType, Object, Variable, Exists, Forall, And, Or, Not, Equals
    from unified_planning.model.walkers import Simplifier
    from spec.ev import ev
    T_ = UserType("T11q")
    pr = Problem("c11_scopes")
    o0, o1 = Object("o0", T_), Object("o1", T_)
    pr.add_objects([o0, o1])
    p, q, loc = Fluent("p", BoolType(), x=T_), Fluent("q", BoolType(), x=T_), Fluent("loc", T_, x=T_)
    for f in (p, q, loc):
        pr.add_fluent(f)
    w, v, u = Variable("w", T_), Variable("v", T_), Variable("u", T_)
    exprs = []
    for t in (v, o0, loc(v), loc(o1)):
        for Q in (Forall, Exists):
            for bound in (v, u):
                for body in (Or(q(bound), p(w)), And(q(bound), Not(p(w))), Or(p(bound), Equals(w, bound))):
                    exprs.append(Exists(And(Equals(w, t), Q(body, bound)), w))
                    exprs.append(Exists(And(Q(body, bound), Equals(t, w)), w))
    exprs += [Exists(And(Equals(w, o0), Or(Equals(w, o0), q(v))), w, v), Exists(And(Equals(w, v), p(w)), w), Exists(And(Equals(w, v), p(w)), w, v),
              Forall(Exists(And(Equals(w, v), Exists(And(q(v), p(w)), v)), w), v), Exists(Or(Equals(w, o0), q(v)), w, v),
              Exists(And(Equals(w, u), Equals(u, o1), p(w)), w, u), Exists(And(Equals(w, loc(w)), p(w)), w)]
    # the re-binding of t's variable sits strictly INSIDE another quantifier of the remaining conjuncts (depth 2 and 3), with and without an
    # enclosing binder of t's variable
    for t in (v, loc(v)):
        for Q1 in (Forall, Exists):
            for Q2 in (Forall, Exists):
                for inner in (And(q(v), p(w)), Or(Not(q(v)), p(w)), Or(p(v), Equals(w, v))):
                    deep2 = Q1(Or(q(u), Q2(inner, v)), u)
                    deep3 = Q1(And(Or(q(u), Not(q(u))), Q2(Or(p(u), Q1(inner, v)), u)), u)
                    for deep in (deep2, deep3):
                        core = Exists(And(Equals(w, t), deep), w)
                        exprs += [core, Forall(core, v), Exists(And(deep, Equals(t, w)), w)]
    fvo = pr.environment.free_vars_oracle
    failures, evals = [], 0
    objs = [o0, o1]
    with warnings.catch_warnings():
        warnings.simplefilter("ignore")
        simps = (("plain", Simplifier(pr.environment)), ("problem", Simplifier(pr.environment, pr)))
        for e in exprs:
            for which, simp_ in simps:
                try:
                    se = simp_.simplify(e)
                    sse = simp_.simplify(se)
                except Exception as ex:  # noqa
                    failures.append({"what": f"simplify raised {type(ex).__name__} [quantifier scopes]", "concrete": {"expression": str(e), "simplifier": which}, "observed": repr(ex)})
                    continue
                if sse is not se:
                    failures.append({"what": "simplification is not idempotent [quantifier scopes]", "concrete": {"expression": str(e), "simplifier": which},
                                     "observed": {"once": str(se), "twice": str(sse)}})
                free = sorted(fvo.get_free_variables(e), key=lambda x: x.name)
                if not set(fvo.get_free_variables(se)) <= set(free):
                    failures.append({"what": "simplification introduced a free variable [quantifier scopes]", "concrete": {"expression": str(e), "simplifier": which}, "observed": str(se)})
                    continue
                bad = None
                for bits in itertools.product([False, True], repeat=4):
                    for locs in itertools.product(objs, repeat=2):
                        table = {("p", "o0"): bits[0], ("p", "o1"): bits[1], ("q", "o0"): bits[2], ("q", "o1"): bits[3], ("loc", "o0"): locs[0], ("loc", "o1"): locs[1]}
                        lk = lambda f, args, table=table: table[(f.name, args[0].name)]
                        for vals in itertools.product(objs, repeat=len(free)):
                            env_ = dict(zip(free, vals))
                            evals += 1
                            v1, v2 = ev(e, lk, env_, pr), ev(se, lk, env_, pr)
                            if v1 != v2:
                                bad = {"interpretation": {f"{k[0]}({k[1]})": str(x) for k, x in table.items()}, "free": {x.name: o.name for x, o in env_.items()},
                                       "value": str(v1), "simplified_value": str(v2)}
                                break
                        if bad:
                            break
                    if bad:
                        break
                if bad:
                    failures.append({"what": "simplification changed the value [quantifier scopes: elimination of an equated existential next to another binder]",
                                     "concrete": {"expression": str(e), "simplifier": which}, "observed": dict(bad, simplified=str(se))})
            if len(failures) >= 3:
                break
    return failures, evals


def bounded(tier, seed):
    """random well-typed expressions (depth <= 3, quantifiers, big integer / rational constants, products) under random
    interpretations: simplify preserves the value, introduces no free variable and is idempotent; with a problem,
    static fluents are fixed to their initial values"""
    import random
    import warnings
    from fractions import Fraction
    from unified_planning.shortcuts import (Problem, Fluent, BoolType, IntType, RealType, UserType, Object, Variable, Exists, Forall,
                                            And, Or, Not, Implies, Iff, Equals, LE, LT, Plus, Minus, Times, Div, Int, Real, TRUE, FALSE)
    from unified_planning.model.walkers import Simplifier
    from spec.ev import ev, UNDEF
    n = 1500 if tier == "quick" else 30000
    rng = random.Random(seed)
    failures, evals, nontrivial, samples = [], 0, set(), []
    T_ = UserType("T")
    objs = [Object(f"o{i}", T_) for i in range(3)]
    pr = Problem("c11")
    pr.add_objects(objs)
    p, q = Fluent("p", BoolType(), x=T_), Fluent("q", BoolType())
    x, y = Fluent("x", IntType()), Fluent("y", RealType())
    loc = Fluent("loc", T_, x=T_)
    s_ = Fluent("s", IntType())            # static in the problem (never written)
    for f in (p, q, x, y, loc, s_):
        pr.add_fluent(f)
    pr.set_initial_value(s_, 7)
    env = pr.environment
    fvo = env.free_vars_oracle
    BIG = [2 ** 53 + 1, 3 * (2 ** 53 + 1), 10 ** 30 + 7, -(2 ** 60) - 3]

    def num(depth, scope):
        r = rng.random()
        if depth <= 0 or r < 0.3:
            k = rng.random()
            if k < 0.3:
                return rng.choice([x(), y(), s_()])
            if k < 0.45:
                return Int(rng.choice(BIG))
            if k < 0.6:
                return Real(Fraction(rng.choice(BIG), rng.choice([1, 3, 7, 2 ** 40 + 1])))
            return Int(rng.randint(-3, 4))
        if r < 0.5:
            return Plus(*[num(depth - 1, scope) for _ in range(rng.randint(2, 3))])
        if r < 0.65:
            return Minus(num(depth - 1, scope), num(depth - 1, scope))
        if r < 0.88:
            return Times(*[num(depth - 1, scope) for _ in range(rng.randint(2, 3))])
        d = rng.choice([Int(3), Int(-2), Real(Fraction(5, 3)), Int(7)])
        return Div(num(depth - 1, scope), d)

    def obj(scope):
        c = list(objs) + list(scope)
        o = rng.choice(c)
        return loc(o) if rng.random() < 0.25 else o

    def boolean(depth, scope):
        r = rng.random()
        if depth <= 0 or r < 0.25:
            k = rng.random()
            if k < 0.35:
                return p(obj(scope))
            if k < 0.5:
                return q()
            if k < 0.75:
                return rng.choice([LE, LT, Equals])(num(1, scope), num(1, scope))
            if k < 0.9:
                return Equals(obj(scope), obj(scope))
            return rng.choice([TRUE(), FALSE()])
        if r < 0.35:
            return Not(boolean(depth - 1, scope))
        if r < 0.5:
            return And(*[boolean(depth - 1, scope) for _ in range(rng.randint(2, 3))])
        if r < 0.65:
            return Or(*[boolean(depth - 1, scope) for _ in range(rng.randint(2, 3))])
        if r < 0.72:
            return Implies(boolean(depth - 1, scope), boolean(depth - 1, scope))
        if r < 0.8:
            return Iff(boolean(depth - 1, scope), boolean(depth - 1, scope))
        v = Variable(f"v{depth}", T_)
        body = boolean(depth - 1, scope + [v])
        if rng.random() < 0.5:        # the shape walk_exists rewrites: v == value and phi(v)
            body = And(Equals(v, obj(scope + [v])), body)
        return (Exists if rng.random() < 0.6 else Forall)(body, v)

    def interp():
        vals = {}

        def lookup(f, args):
            key = (f.name, tuple(a.name for a in args))
            if key not in vals:
                if f.type.is_bool_type():
                    vals[key] = rng.random() < 0.5
                elif f.type.is_int_type():
                    vals[key] = 7 if f.name == "s" else rng.choice([0, 1, -2, 5, 2 ** 53 + 1])
                elif f.type.is_real_type():
                    vals[key] = Fraction(rng.randint(-6, 6), rng.choice([1, 2, 3]))
                else:
                    vals[key] = rng.choice(objs)
            return vals[key]
        return lookup

    with warnings.catch_warnings():
        warnings.simplefilter("ignore")
        plain = Simplifier(env)
        with_problem = Simplifier(env, pr)
        for i in range(n):
            try:
                e = boolean(3, []) if i % 2 == 0 else num(3, [])
            except Exception:  # noqa: ill-typed combination rejected by the constructors
                continue
            for which, simp_ in (("plain", plain), ("problem", with_problem)):
                try:
                    se = simp_.simplify(e)
                    sse = simp_.simplify(se)
                except Exception as ex:  # noqa
                    failures.append({"what": f"simplify raised {type(ex).__name__}: {ex}", "concrete": {"expression": str(e), "simplifier": which}, "observed": repr(ex)})
                    continue
                evals += 1
                if se is not e:
                    nontrivial.add(str(e))
                if sse is not se:
                    failures.append({"what": "simplification is not idempotent", "concrete": {"expression": str(e), "simplifier": which},
                                     "observed": {"once": str(se), "twice": str(sse)}})
                if not set(fvo.get_free_variables(se)) <= set(fvo.get_free_variables(e)):
                    failures.append({"what": "simplification introduced a free variable", "concrete": {"expression": str(e), "simplifier": which},
                                     "observed": str(se)})
                    continue
                for _ in range(3):
                    lk = interp()
                    try:
                        v1 = ev(e, lk, {}, pr)
                        v2 = ev(se, lk, {}, pr)
                    except ZeroDivisionError:
                        continue
                    except KeyError as ex:
                        failures.append({"what": "simplified expression has an unbound variable", "concrete": {"expression": str(e), "simplifier": which}, "observed": str(se)})
                        break
                    if v1 != v2:
                        failures.append({"what": "simplification changed the value", "concrete": {"expression": str(e), "simplifier": which},
                                         "observed": {"simplified": str(se), "value": str(v1), "simplified_value": str(v2)}})
                        break
            if len(samples) < 3 and i % 200 == 5:
                samples.append({"expression": str(e)[:160], "simplified": str(plain.simplify(e))[:160]})
            if len(failures) >= 6:
                break
    hfail, hev = hierarchy_equalities()
    qfail, qev = quantifier_scopes()
    failures = hfail + qfail + failures
    evals += hev + qev
    return {"evaluations": evals, "distinct_nontrivial": len(nontrivial), "failures": failures[:6],
            "rule": f"directed quantifier-scope family (equated existentials next to binders that shadow / capture, every interpretation); every equality between two user-typed terms (objects, fluents, variables, parameters) over a type hierarchy "
                    f"Depot < Location > Market, bare / negated / in a disjunction, under every assignment of the terms; "
                    f"{n} random well-typed expressions of depth <= 3 (Boolean and numeric, quantifiers incl. the `v == t and phi(v)` shape, "
                    f"constants beyond 2**53 and large rationals, n-ary products), 3 random interpretations each, with and without a "
                    f"problem (static fluent s = 7); non-trivial = expression actually changed by simplify",
            "samples": samples, "bound": f"{n} expressions, depth <= 3"}

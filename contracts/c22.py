"""C22 — problem cloning yields an equal, independent copy that accepts the same edits.

Run-time contract on the real clone methods (bounded stand-in; the representation clause is complete over the
instance fields that exist at run time, the history clause is sampled):
  R  representation: for every instance attribute of the original (vars()), the clone has it, the values are
     structurally equal, and no mutable container / action / effect / agent object is shared at any nesting depth;
     applied recursively to cloned actions, events, processes, agents, task networks.
  E  clone == original, equal hash, equal kind.
  H  lock-step histories: random model-building operations (add fluent/object/action/goal/timed effect/timed goal/
     trajectory constraint/metric, set initial value, add effect/precondition to an action -- including operations that
     must be rejected: duplicate names, conflicting effects, ill-typed values) applied to both: same outcome
     (accepted / exception class) and the two stay equal with equal kind.
  I  independence: the same operations applied to one side only never change the structural snapshot of the other.
Problems: Problem (instantaneous + durative actions, timed effects with increase/decrease bookkeeping, timed goals,
trajectory constraints, metrics, events/processes), ContingentProblem, HierarchicalProblem, MultiAgentProblem,
SchedulingProblem.
"""
import random
import warnings
from fractions import Fraction

import unified_planning as up
from unified_planning.shortcuts import *  # noqa
from unified_planning.model.contingent import ContingentProblem, SensingAction
from unified_planning.model.htn import HierarchicalProblem, Method, Task
from unified_planning.model.multi_agent import MultiAgentProblem, Agent
from unified_planning.model.scheduling import SchedulingProblem

MUTABLE = (list, dict, set)

# ------------------------------------------------------------------------------------------------ proved kernels
# The flat mixin `_clone_to` methods on the real source: every container field of `other` is a *fresh* heap object with the
# same content as `self`'s, `self` is unchanged (separation at clone time for these fields, for all contents).
import z3
from pyvc.values import Ref, Seq, Map, Set, Opt, Enum, SBool, SRef, fresh_name, to_z3  # explicit: a star import would shadow the shortcuts' And/Or/Not
from pyvc.values import Rec, Loc, Unsupported
from pyvc.verify import Unit
import unified_planning.model.mixins as _mx

_ElemT = {"Fluent": Ref("Fluent22"), "Type": Ref("Type22"), "Object": Ref("Object22"), "FNode": Ref("FNode22")}


class CloneTo(Unit):
    prop = "C22"
    allowed_raises = ()

    def __init__(self, cls, fields):
        self.cls, self.fields = cls, fields
        self.name = f"{cls.__name__}._clone_to"
        self.doc = "every container field of the target is a fresh object with the source's content; the source is unchanged"

    def target(self):
        return self.cls._clone_to

    def configure(self, eng):
        eng.partial_classes.add(self.cls)

    def _fresh(self, eng, st, spec, name):
        if spec[0] == "list":
            return eng.fresh_of(st, Seq(_ElemT[spec[1]]), name), "list"
        return eng.fresh_of(st, Map(_ElemT[spec[1]], _ElemT[spec[2]]), name), "dict"

    def setup(self, eng, st):
        src, dst, c0 = {}, {}, {}
        for f, spec in self.fields.items():
            v, kind = self._fresh(eng, st, spec, "self" + f)
            c0[f] = v
            src[f] = st.alloc(v, kind)
            w, _ = self._fresh(eng, st, spec, "other" + f)
            dst[f] = st.alloc(w, kind)
        selfv = st.alloc(Rec(self.cls, src), "self")
        other = st.alloc(Rec(self.cls, dst), "other")
        return [selfv, other], {}, dict(selfv=selfv, other=other, src=src, c0=c0)

    def post(self, eng, ctx, st, out):
        if out[0] != "return":
            return
        for f in self.fields:
            ls, lo = st.getfield(ctx["selfv"], f), st.getfield(ctx["other"], f)
            st.oblige(f"{f}: the source still refers to its own container", z3.BoolVal(isinstance(ls, Loc) and ls.id == ctx["src"][f].id))
            st.oblige(f"{f}: the target holds a fresh container, not the source's", z3.BoolVal(isinstance(lo, Loc) and lo.id != ctx["src"][f].id))
            st.oblige(f"{f}: source content unchanged", st.load(ls).same(ctx["c0"][f]))
            st.oblige(f"{f}: target content equals the source's", st.load(lo).same(ctx["c0"][f]))


# ---- MultiAgentProblem.clone: the whole method on the real source.  The clone is a NEW problem object; every container it holds is a fresh object
# with the source's content; every cloned agent is cloned FOR THE CLONE (Agent.clone(problem) binds the agent's type registration and name checks
# to `problem`), in order; the source is unchanged.
from unified_planning.model.multi_agent import ma_problem as _map, ma_environment as _mae

_Agent = Ref("Agent22")
_Goal = Ref("FNode22")
_agent_clone = z3.Function("Agent22.clone", _Agent.z3sort(), z3.IntSort(), _Agent.z3sort())      # (agent, identity of the owning problem)
_agent_owner = z3.Function("Agent22.owner", _Agent.z3sort(), z3.IntSort())


def _agent_clone_m(eng, st, selfv, args, kw):
    owner = args[0]
    if not isinstance(owner, Loc):
        raise Unsupported("Agent.clone called with something that is not a problem object")
    r = _agent_clone(selfv.z, z3.IntVal(owner.id))
    yield st, _Agent.wrap(r)


_Agent.methods["clone"] = _agent_clone_m

_MA_FIELDS = {"_agents": ("list", _Agent), "_user_types": ("list", _ElemT["Type"]), "_user_types_hierarchy": ("dict", _ElemT["Type"], _ElemT["Type"]),
              "_objects": ("list", _ElemT["Object"]), "_initial_value": ("dict", _ElemT["FNode"], _ElemT["FNode"]), "_goals": ("list", _Goal),
              "_initial_defaults": ("dict", _ElemT["Type"], _ElemT["FNode"])}
_ENV_FIELDS = {"_fluents": ("list", _ElemT["Fluent"]), "_fluents_defaults": ("dict", _ElemT["Fluent"], _ElemT["FNode"])}


def _fresh_container(eng, st, spec, name):
    if spec[0] == "list":
        return eng.fresh_of(st, Seq(spec[1]), name), "list"
    return eng.fresh_of(st, Map(spec[1], spec[2]), name), "dict"


def _content_same(v, want, spec):
    """z3 Bool: the container value `v` (symbolic, or a concrete CList / CDict still holding what a constructor put there) has the content `want`"""
    from pyvc.values import CList, CDict, SSeq, SMap
    if isinstance(v, CList):
        v = SSeq.of(spec[1], list(v.items))
    elif isinstance(v, CDict):
        if len(v.items):
            raise Unsupported("a concrete non-empty dict in the clone")
        v = SMap.empty(spec[1], spec[2])
    return v.same(want)


class MAClone(Unit):
    prop = "C22"
    name = "MultiAgentProblem.clone"
    allowed_raises = ()
    doc = ("the clone is a new problem; each of its containers is a fresh object with the source's content; agent i of the clone is "
           "Agent.clone(agent i of the source, THE CLONE); the source is unchanged")

    def target(self):
        return _map.MultiAgentProblem.clone

    def configure(self, eng):
        from pyvc.values import CList, CDict
        eng.partial_classes.add(_map.MultiAgentProblem)

        def ctor(eng_, st, args, kw):
            # MultiAgentProblem(name, environment): a new object whose containers are new and empty (its own MAEnvironment included)
            env_ma = st.alloc(Rec(_mae.MAEnvironment, {f: st.alloc(CList([]) if spec[0] == "list" else CDict({}), spec[0]) for f, spec in _ENV_FIELDS.items()}), "ma_env")
            fields = {f: st.alloc(CList([]) if spec[0] == "list" else CDict({}), spec[0]) for f, spec in _MA_FIELDS.items()}
            fields.update({"_name": args[0], "_env": args[1] if len(args) > 1 else kw.get("environment"), "_env_ma": env_ma})
            new = st.alloc(Rec(_map.MultiAgentProblem, fields), "new_p")
            st.ghost["ma_new"] = st.ghost.get("ma_new", ()) + (new,)
            yield st, new
        eng.contracts[_map.MultiAgentProblem] = ctor

    def setup(self, eng, st):
        src, c0, esrc, ec0 = {}, {}, {}, {}
        for f, spec in _MA_FIELDS.items():
            v, kind = _fresh_container(eng, st, spec, "self" + f)
            c0[f], src[f] = v, st.alloc(v, kind)
        for f, spec in _ENV_FIELDS.items():
            v, kind = _fresh_container(eng, st, spec, "env" + f)
            ec0[f], esrc[f] = v, st.alloc(v, kind)
        env_ma = st.alloc(Rec(_mae.MAEnvironment, dict(esrc)), "self_ma_env")
        fields = dict(src)
        fields.update({"_name": "M", "_env": Ref("Environment22").fresh("env"), "_env_ma": env_ma})
        selfv = st.alloc(Rec(_map.MultiAgentProblem, fields), "self")
        return [selfv], {}, dict(selfv=selfv, src=src, c0=c0, esrc=esrc, ec0=ec0, env_ma=env_ma)

    def post(self, eng, ctx, st, out):
        if out[0] != "return":
            return
        new = out[1]
        made = st.ghost.get("ma_new", ())
        st.oblige("the result is the one problem object constructed by this call", z3.BoolVal(isinstance(new, Loc) and len(made) == 1 and made[0].id == new.id and new.id != ctx["selfv"].id))
        if not isinstance(new, Loc):
            return
        for f in _MA_FIELDS:
            ls, lo = st.getfield(ctx["selfv"], f), st.getfield(new, f)
            st.oblige(f"{f}: the source still refers to its own container", z3.BoolVal(isinstance(ls, Loc) and ls.id == ctx["src"][f].id))
            st.oblige(f"{f}: the clone holds a fresh container, not the source's", z3.BoolVal(isinstance(lo, Loc) and lo.id != ctx["src"][f].id))
            st.oblige(f"{f}: source content unchanged", st.load(ls).same(ctx["c0"][f]))
            if f != "_agents":
                st.oblige(f"{f}: clone content equals the source's", _content_same(st.load(lo), ctx["c0"][f], _MA_FIELDS[f]))
        # agents: same number, agent i is the source's agent i cloned for THE CLONE
        got = st.load(st.getfield(new, "_agents"))
        want = ctx["c0"]["_agents"]
        i = z3.Int(fresh_name("ai"))
        st.oblige("_agents: as many agents as the source", got.n == want.n)
        st.oblige("_agents: agent i of the clone is agent i of the source cloned for the clone (not for the source)",
                  z3.ForAll([i], z3.Implies(z3.And(i >= 0, i < want.n), z3.Select(got.arr, i) == _agent_clone(z3.Select(want.arr, i), z3.IntVal(new.id)))))
        se, ne = st.getfield(ctx["selfv"], "_env_ma"), st.getfield(new, "_env_ma")
        st.oblige("the clone has its own MA environment object", z3.BoolVal(isinstance(ne, Loc) and isinstance(se, Loc) and ne.id != se.id and se.id == ctx["env_ma"].id))
        for f in _ENV_FIELDS:
            ls, lo = st.getfield(se, f), st.getfield(ne, f)
            st.oblige(f"ma_environment.{f}: the source still refers to its own container", z3.BoolVal(isinstance(ls, Loc) and ls.id == ctx["esrc"][f].id))
            st.oblige(f"ma_environment.{f}: the clone holds a fresh container, not the source's", z3.BoolVal(isinstance(lo, Loc) and lo.id != ctx["esrc"][f].id))
            st.oblige(f"ma_environment.{f}: source content unchanged", st.load(ls).same(ctx["ec0"][f]))
            st.oblige(f"ma_environment.{f}: clone content equals the source's", _content_same(st.load(lo), ctx["ec0"][f], _ENV_FIELDS[f]))


# ---- Agent.clone(ma_problem, name=None): the new agent is constructed FOR the problem given (the constructor takes the type-registration and
# name-check callbacks from it), carries the given name (the source's by default), fresh copies of the five containers, and the clones of the
# source's actions in order; the source is unchanged.
from unified_planning.model.multi_agent import agent as _agm
from pyvc.engine import LoopSpec
from pyvc.values import Str, zint

_Action = Ref("Action22")
_Action.observers["clone"] = ((), _Action)
_action_clone = None        # resolved lazily: the uninterpreted function behind the observer
_AG_FIELDS = {"_public_fluents": ("list", _ElemT["Fluent"]), "_fluents": ("list", _ElemT["Fluent"]), "_fluents_defaults": ("dict", _ElemT["Fluent"], _ElemT["FNode"]),
              "_private_goals": ("list", _Goal), "_public_goals": ("list", _Goal)}
QN_AC = "unified_planning.model.multi_agent.agent.Agent.clone"


class AgentClone(Unit):
    prop = "C22"
    allowed_raises = ()

    def __init__(self, named):
        self.named = named
        self.name = "Agent.clone" + ("[name given]" if named else "")
        self.doc = ("the result is a new agent constructed for the problem passed in, named as asked, with fresh copies of the source's containers and the "
                    "clones of its actions in order; the source is unchanged")

    def target(self):
        return _agm.Agent.clone

    def configure(self, eng):
        from pyvc.values import CList, CDict
        from pyvc import builtins as B
        eng.partial_classes.add(_agm.Agent)
        unit = self

        def ctor(eng_, st, args, kw):
            fields = {f: st.alloc(CList([]) if spec[0] == "list" else CDict({}), spec[0]) for f, spec in _AG_FIELDS.items()}
            fields.update({"_name": args[0], "_g_owner": args[1], "_actions": st.alloc(CList([]), "list")})
            new = st.alloc(Rec(_agm.Agent, fields), "new_ag")
            st.ghost["ag_new"] = st.ghost.get("ag_new", ()) + (new,)
            yield st, new
        eng.contracts[_agm.Agent] = ctor

        def add_action(eng_, st, args, kw):
            # assumed: adding the clone of an action of a well-formed agent to a new agent of the same problem appends it and raises nothing
            lst = st.getfield(args[0], "_actions")
            cur = B.as_sseq(eng_, st, eng_.deref(st, lst), _Action)
            st.store(lst, cur.append(args[1]))
            yield st, None
        eng.contracts[_agm.Agent.add_action] = add_action

        def inv(L):
            i = zint(L._i)
            got = B.as_sseq(L._eng, L.st, L.field(L.new_ag, "_actions"), _Action)
            src = unit._actions0
            j = z3.Int(fresh_name("j"))
            f = B._uf("Action22.clone()", _Action.z3sort(), _Action.z3sort())
            return [("the new agent holds the clones of the actions seen so far, in order",
                     z3.And(got.n == i, z3.ForAll([j], z3.Implies(z3.And(0 <= j, j < i), z3.Select(got.arr, j) == f(z3.Select(src.arr, j))))))]
        eng.loops[(QN_AC, 0)] = LoopSpec(inv, modifies=["a", "new_ag._actions"], types={"a": _Action, "new_ag._actions": Seq(_Action)})

    def setup(self, eng, st):
        src, c0 = {}, {}
        for f, spec in _AG_FIELDS.items():
            v, kind = _fresh_container(eng, st, spec, "self" + f)
            c0[f], src[f] = v, st.alloc(v, kind)
        acts = eng.fresh_of(st, Seq(_Action), "self_actions")
        self._actions0 = acts
        src["_actions"] = st.alloc(acts, "list")
        name0 = Str.fresh("self_name")
        fields = dict(src)
        fields.update({"_name": name0})
        selfv = st.alloc(Rec(_agm.Agent, fields), "self")
        prob = st.alloc(Rec(_map.MultiAgentProblem, {}), "ma_problem")
        given = Str.fresh("name") if self.named else None
        return [selfv, prob, given], {}, dict(selfv=selfv, prob=prob, src=src, c0=c0, acts=acts, name0=name0, given=given)

    def post(self, eng, ctx, st, out):
        from pyvc import builtins as B
        if out[0] != "return":
            return
        new = out[1]
        made = st.ghost.get("ag_new", ())
        st.oblige("the result is the one agent constructed by this call", z3.BoolVal(isinstance(new, Loc) and len(made) == 1 and made[0].id == new.id and new.id != ctx["selfv"].id))
        if not isinstance(new, Loc):
            return
        owner = st.getfield(new, "_g_owner")
        st.oblige("the new agent is constructed for the problem passed in", z3.BoolVal(isinstance(owner, Loc) and owner.id == ctx["prob"].id))
        nm = st.getfield(new, "_name")
        want_nm = ctx["given"] if self.named else ctx["name0"]
        st.oblige("the new agent carries the requested name (the source's by default)", z3.BoolVal(isinstance(nm, type(want_nm))) if not hasattr(nm, "z") else nm.z == want_nm.z)
        for f in list(_AG_FIELDS) + ["_actions"]:
            ls, lo = st.getfield(ctx["selfv"], f), st.getfield(new, f)
            st.oblige(f"{f}: the source still refers to its own container", z3.BoolVal(isinstance(ls, Loc) and ls.id == ctx["src"][f].id))
            st.oblige(f"{f}: the new agent holds a fresh container, not the source's", z3.BoolVal(isinstance(lo, Loc) and lo.id != ctx["src"][f].id))
            if f != "_actions":
                st.oblige(f"{f}: source content unchanged", st.load(ls).same(ctx["c0"][f]))
                st.oblige(f"{f}: new content equals the source's", _content_same(st.load(lo), ctx["c0"][f], _AG_FIELDS[f]))
        got = B.as_sseq(eng, st, eng.deref(st, st.getfield(new, "_actions")), _Action)
        acts = ctx["acts"]
        st.oblige("_actions: source content unchanged", st.load(st.getfield(ctx["selfv"], "_actions")).same(acts))
        j = z3.Int(fresh_name("j"))
        f_ = B._uf("Action22.clone()", _Action.z3sort(), _Action.z3sort())
        st.oblige("_actions: the new agent holds the clone of every action of the source, in order",
                  z3.And(got.n == acts.n, z3.ForAll([j], z3.Implies(z3.And(0 <= j, j < acts.n), z3.Select(got.arr, j) == f_(z3.Select(acts.arr, j))))))


UNITS = [
    MAClone(),
    AgentClone(False),
    AgentClone(True),
    CloneTo(_mx.FluentsSetMixin, {"_fluents": ("list", "Fluent"), "_initial_defaults": ("dict", "Type", "FNode"), "_fluents_defaults": ("dict", "Fluent", "FNode")}),
    CloneTo(_mx.InitialStateMixin, {"_initial_value": ("dict", "FNode", "FNode")}),
    CloneTo(_mx.ObjectsSetMixin, {"_objects": ("list", "Object")}),
    CloneTo(_mx.UserTypesSetMixin, {"_user_types": ("list", "Type"), "_user_types_hierarchy": ("dict", "Type", "Type")}),
]


def _is_model_obj(x):
    m = type(x).__module__ or ""
    return m.startswith("unified_planning.model") and not m.startswith("unified_planning.model.walkers") and hasattr(x, "__dict__")


def _is_walker(x):
    return (type(x).__module__ or "").startswith("unified_planning.model.walkers")


SHAREABLE = ("Fluent", "Object", "_UserType", "_BoolType", "_IntType", "_RealType", "FNode", "Parameter", "Variable", "Timing", "Timepoint",
             "TimeInterval", "Environment", "Task", "Method", "Subtask", "SimulatedEffect", "ProblemKind", "MinimizeActionCosts",
             "MinimizeSequentialPlanLength", "MinimizeMakespan", "MaximizeExpressionOnFinalState", "MinimizeExpressionOnFinalState",
             "Oversubscription", "TemporalOversubscription", "DurationInterval", "Resource", "InterpretedFunction", "Presence")
SKIP_FIELDS = {"_object_set", "_fluent_set", "_operators_extractor", "_kind", "_env", "_environment", "_ma_problem", "_add_user_type_method", "_has_name_method",
               "_ma_problem_has_name_not_in_agents", "_env_ma"}


def snapshot(x, depth=0, seen=None):
    """structural snapshot (repr-based, order-insensitive for dict/set) used to detect any change"""
    if depth > 7:
        return "..."
    if isinstance(x, dict):
        return ("dict", tuple(sorted(((repr(k), snapshot(v, depth + 1)) for k, v in x.items()), key=repr)))
    if isinstance(x, (list, tuple)):
        return ("list", tuple(snapshot(v, depth + 1) for v in x))
    if isinstance(x, (set, frozenset)):
        return ("set", tuple(sorted((snapshot(v, depth + 1) for v in x), key=repr)))
    if _is_walker(x):
        return "<walker>"
    if _is_model_obj(x) and type(x).__name__ not in SHAREABLE:
        return (type(x).__name__, tuple(sorted((k, snapshot(v, depth + 1)) for k, v in vars(x).items() if k not in SKIP_FIELDS)))
    return repr(x)


def rep_check(a, b, path, out, depth=0, in_list=False):
    """R: a (original) vs b (clone) field by field.  Sharing is flagged for containers the public API mutates in place
    (fields, dict values) and for mutable model objects; a list nested in a list (oneof/or constraint) is only ever
    replaced, never mutated, so sharing it is not observable and not flagged."""
    if depth > 7 or len(out) > 6:
        return
    if _is_walker(a):
        return
    if isinstance(a, MUTABLE):
        if type(a) is not type(b) and not (isinstance(a, dict) and isinstance(b, dict)):
            out.append(f"{path}: container type differs ({type(a).__name__} vs {type(b).__name__})")
            return
        if a is b and not in_list:
            out.append(f"{path}: mutable container shared between original and clone")
            return
        if isinstance(a, dict):
            if set(map(repr, a.keys())) != set(map(repr, b.keys())):
                out.append(f"{path}: keys differ: {sorted(map(repr, a.keys()))} vs {sorted(map(repr, b.keys()))}")
                return
            bk = {repr(k): v for k, v in b.items()}
            for k, v in a.items():
                rep_check(v, bk[repr(k)], f"{path}[{k!r}]", out, depth + 1)
        elif isinstance(a, list):
            if len(a) != len(b):
                out.append(f"{path}: lengths differ: {len(a)} vs {len(b)}")
                return
            for i, (x, y) in enumerate(zip(a, b)):
                rep_check(x, y, f"{path}[{i}]", out, depth + 1, in_list=True)
        else:
            if snapshot(a) != snapshot(b):
                out.append(f"{path}: set contents differ")
        return
    if _is_model_obj(a) and type(a).__name__ not in SHAREABLE:
        if a is b:
            out.append(f"{path}: mutable {type(a).__name__} object shared between original and clone")
            return
        if type(a) is not type(b):
            out.append(f"{path}: class differs: {type(a).__name__} vs {type(b).__name__}")
            return
        va, vb = vars(a), vars(b)
        for k in va:
            if k in SKIP_FIELDS:
                continue
            if k not in vb:
                out.append(f"{path}.{k}: missing in clone")
                continue
            rep_check(va[k], vb[k], f"{path}.{k}", out, depth + 1)
        return
    if snapshot(a) != snapshot(b):
        out.append(f"{path}: value differs: {snapshot(a)!r:.120} vs {snapshot(b)!r:.120}")


# ------------------------------------------------------------------------------------------------ problem builders
def base_fill(pr, rng, temporal=True):
    T = UserType("T")
    S = UserType("S", T)
    o1, o2, s1 = Object("o1", T), Object("o2", T), Object("s1", S)
    pr.add_objects([o1, o2, s1])
    p = Fluent("p", BoolType(), x=T)
    q = Fluent("q", BoolType())
    n = Fluent("n", IntType(0, 10))
    m = Fluent("m", RealType())
    loc = Fluent("loc", T)
    pr.add_fluent(p, default_initial_value=False)
    pr.add_fluent(q, default_initial_value=rng.choice([True, False]))
    pr.add_fluent(n, default_initial_value=rng.randint(0, 3))
    pr.add_fluent(m, default_initial_value=0)
    pr.add_fluent(loc, default_initial_value=o1)
    pr.set_initial_value(p(o2), True)
    a = InstantaneousAction("a", x=T)
    a.add_precondition(Not(p(a.x)))
    a.add_effect(p(a.x), True)
    if rng.random() < 0.7:
        a.add_increase_effect(n, 1)
    b = InstantaneousAction("b")
    b.add_effect(q, Not(q))
    if rng.random() < 0.5:
        b.add_effect(n, 2, q)
    pr.add_action(a)
    pr.add_action(b)
    pr.add_goal(p(o1))
    if rng.random() < 0.5:
        pr.add_goal(GE(n, 1))
    return dict(T=T, S=S, objs=[o1, o2, s1], p=p, q=q, n=n, m=m, loc=loc)


def build(kind, rng):
    if kind == "problem":
        pr = Problem("P")
        sig = base_fill(pr, rng)
        if rng.random() < 0.8:
            d = DurativeAction("d", x=sig["T"])
            d.set_fixed_duration(rng.choice([2, 3]))
            d.add_condition(StartTiming(), Not(sig["p"](d.x)))
            d.add_effect(EndTiming(), sig["p"](d.x), True)
            if rng.random() < 0.6:
                d.add_increase_effect(EndTiming(), sig["m"], 1)
            pr.add_action(d)
        if rng.random() < 0.8:
            pr.add_timed_effect(GlobalStartTiming(5), sig["q"], True)
        if rng.random() < 0.7:
            pr.add_increase_effect(GlobalStartTiming(rng.choice([5, 7])), sig["m"], 1)
        if rng.random() < 0.5:
            pr.add_decrease_effect(GlobalStartTiming(7), sig["n"], 1)
        if rng.random() < 0.6:
            pr.add_timed_goal(GlobalStartTiming(6), sig["q"])
        if rng.random() < 0.5:
            pr.add_timed_goal(ClosedTimeInterval(GlobalStartTiming(1), GlobalStartTiming(4)), Not(sig["p"](sig["objs"][0])))
        if rng.random() < 0.5:
            pr.add_trajectory_constraint(Sometime(sig["q"]))
        r = rng.random()
        if r < 0.3:
            pr.add_quality_metric(MinimizeActionCosts({pr.action("a"): 2, pr.action("b"): Int(1)}, default=3))
        elif r < 0.5:
            pr.add_quality_metric(MaximizeExpressionOnFinalState(sig["n"]))
        elif r < 0.6:
            pr.add_quality_metric(MinimizeMakespan())
        if rng.random() < 0.3:
            ev = Event("ev")
            ev.add_precondition(sig["q"])
            ev.add_effect(sig["q"], False)
            pr.add_event(ev)
            pc = Process("pc")
            pc.add_precondition(sig["q"])
            pc.add_increase_continuous_effect(sig["m"], 1)
            pr.add_process(pc)
        if rng.random() < 0.3:
            pr.epsilon = Fraction(1, 10)
        if rng.random() < 0.3:
            pr.discrete_time = True
        if rng.random() < 0.3:
            pr.self_overlapping = True
        return pr, sig
    if kind == "contingent":
        pr = ContingentProblem("C")
        sig = base_fill(pr, rng)
        sa = SensingAction("sense", x=sig["T"])
        sa.add_observed_fluent(sig["p"](sa.x))
        pr.add_action(sa)
        pr.add_unknown_initial_constraint(sig["p"](sig["objs"][0]))
        pr.add_oneof_initial_constraint([sig["p"](sig["objs"][1]), sig["q"]])
        if rng.random() < 0.5:
            pr.add_or_initial_constraint([sig["p"](sig["objs"][2]), sig["q"]])
        if rng.random() < 0.6:
            pr.add_timed_effect(GlobalStartTiming(5), sig["q"], True)
            pr.add_increase_effect(GlobalStartTiming(5), sig["m"], 1)
        if rng.random() < 0.5:
            pr.add_trajectory_constraint(Sometime(sig["q"]))
        if rng.random() < 0.4:
            pr.add_quality_metric(MinimizeActionCosts({pr.action("a"): 2}, default=1))
        return pr, sig
    if kind == "htn":
        pr = HierarchicalProblem("H")
        sig = base_fill(pr, rng)
        t = pr.add_task("go", x=sig["T"])
        mth = Method("m_go", x=sig["T"])
        mth.set_task(t, mth.x)
        mth.add_precondition(Not(sig["p"](mth.x)))
        mth.add_subtask(pr.action("a"), mth.x)
        pr.add_method(mth)
        pr.task_network.add_subtask(t, sig["objs"][0])
        if rng.random() < 0.5:
            pr.task_network.add_subtask(pr.action("b"))
        if rng.random() < 0.5:
            pr.add_timed_effect(GlobalStartTiming(5), sig["q"], True)
            pr.add_increase_effect(GlobalStartTiming(5), sig["m"], 1)
        if rng.random() < 0.5:
            pr.add_trajectory_constraint(Sometime(sig["q"]))
        if rng.random() < 0.4:
            pr.add_quality_metric(MinimizeActionCosts({pr.action("a"): 2}, default=1))
        return pr, sig
    if kind == "ma":
        pr = MultiAgentProblem("M")
        T = UserType("T")
        o1, o2 = Object("o1", T), Object("o2", T)
        pr.add_objects([o1, o2])
        pub = Fluent("pub", BoolType(), x=T)
        pr.ma_environment.add_fluent(pub, default_initial_value=False)
        sig = dict(T=T, objs=[o1, o2], pub=pub)
        for an in ("ag1", "ag2"):
            ag = Agent(an, pr)
            f = Fluent("has", BoolType(), x=T)
            ag.add_fluent(f, default_initial_value=False)
            g = Fluent("cnt", IntType(0, 5))
            ag.add_fluent(g, default_initial_value=0)
            act = InstantaneousAction("take", x=T)
            act.add_precondition(Not(f(act.x)))
            act.add_effect(f(act.x), True)
            act.add_increase_effect(g, 1)
            ag.add_action(act)
            if rng.random() < 0.5:
                ag.add_public_goal(f(o1))
            pr.add_agent(ag)
        pr.set_initial_value(pub(o1), True)
        pr.add_goal(Dot(pr.agent("ag1"), pr.agent("ag1").fluent("has")(o2)))
        return pr, sig
    if kind == "sched":
        pr = SchedulingProblem("S")
        r = pr.add_resource("r", 2)
        act = pr.add_activity("act1", duration=3)
        act.uses(r, 1)
        act2 = pr.add_activity("act2", duration=2)
        act2.uses(r, 2)
        pr.add_constraint(LT(act.end, act2.start))
        if rng.random() < 0.5:
            pr.add_quality_metric(MinimizeMakespan())
        f = pr.add_fluent("fl", BoolType(), default_initial_value=False)
        return pr, dict(r=r)
    raise ValueError(kind)


# ------------------------------------------------------------------------------------------------ operations
def make_ops(kind, sig, rng, k):
    """k operations; each is (label, fn(problem)) resolving everything by name inside the given problem"""
    ops = []
    if kind in ("problem", "contingent", "htn"):
        T, objs = sig["T"], sig["objs"]
        pN, qN, nN, mN = "p", "q", "n", "m"

        def fexp(pr, name, *args):
            return pr.fluent(name)(*args)
        cands = []
        cands.append(("add_fluent new", lambda pr, i=rng.randint(0, 2): pr.add_fluent(Fluent(f"nf{i}", BoolType()), default_initial_value=True)))
        cands.append(("add_fluent dup", lambda pr: pr.add_fluent(Fluent("q", BoolType()))))
        cands.append(("add_fluent bad default", lambda pr: pr.add_fluent(Fluent("bad", BoolType()), default_initial_value=5)))
        cands.append(("add_object new", lambda pr, i=rng.randint(0, 2): pr.add_object(Object(f"no{i}", T))))
        cands.append(("add_object dup", lambda pr: pr.add_object(Object("o1", T))))

        def new_action(pr, i):
            a = InstantaneousAction(f"na{i}", y=T)
            a.add_precondition(fexp(pr, pN, a.y))
            a.add_effect(fexp(pr, pN, a.y), False)
            pr.add_action(a)
        cands.append(("add_action new", lambda pr, i=rng.randint(0, 1): new_action(pr, i)))
        cands.append(("add_action dup", lambda pr: pr.add_action(InstantaneousAction("a"))))
        cands.append(("add_goal", lambda pr, o=rng.choice(objs): pr.add_goal(fexp(pr, pN, o))))
        cands.append(("add_goal numeric", lambda pr, v=rng.randint(0, 4): pr.add_goal(LE(fexp(pr, nN), v))))
        for t_ in (5, 7, 9):
            cands.append((f"timed assign q@{t_}", lambda pr, t_=t_, v=rng.choice([True, False]): pr.add_timed_effect(GlobalStartTiming(t_), fexp(pr, qN), v)))
            cands.append((f"timed assign m@{t_}", lambda pr, t_=t_, v=rng.randint(0, 2): pr.add_timed_effect(GlobalStartTiming(t_), fexp(pr, mN), v)))
            cands.append((f"timed increase m@{t_}", lambda pr, t_=t_: pr.add_increase_effect(GlobalStartTiming(t_), fexp(pr, mN), 1)))
            cands.append((f"timed decrease n@{t_}", lambda pr, t_=t_: pr.add_decrease_effect(GlobalStartTiming(t_), fexp(pr, nN), 1)))
            cands.append((f"timed assign n@{t_}", lambda pr, t_=t_, v=rng.randint(0, 2): pr.add_timed_effect(GlobalStartTiming(t_), fexp(pr, nN), v)))
        cands.append(("timed assign ill-typed", lambda pr: pr.add_timed_effect(GlobalStartTiming(5), fexp(pr, qN), 3)))
        cands.append(("timed goal", lambda pr, t_=rng.choice([2, 6]): pr.add_timed_goal(GlobalStartTiming(t_), fexp(pr, qN))))
        cands.append(("timed goal interval", lambda pr: pr.add_timed_goal(OpenTimeInterval(GlobalStartTiming(1), GlobalStartTiming(3)), Not(fexp(pr, qN)))))
        cands.append(("trajectory", lambda pr, o=rng.choice(objs): pr.add_trajectory_constraint(Always(Or(fexp(pr, qN), Not(fexp(pr, pN, o)))))))
        cands.append(("metric final", lambda pr: pr.add_quality_metric(MinimizeExpressionOnFinalState(fexp(pr, nN)))))
        cands.append(("metric costs", lambda pr: pr.add_quality_metric(MinimizeActionCosts({pr.action("a"): 4}, default=1))))
        cands.append(("set_initial_value p", lambda pr, o=rng.choice(objs), v=rng.choice([True, False]): pr.set_initial_value(fexp(pr, pN, o), v)))
        cands.append(("set_initial_value n", lambda pr, v=rng.randint(0, 12): pr.set_initial_value(fexp(pr, nN), v)))
        cands.append(("set_initial_value ill-typed", lambda pr: pr.set_initial_value(fexp(pr, qN), 2)))
        cands.append(("a.add_effect q", lambda pr, v=rng.choice([True, False]): pr.action("a").add_effect(fexp(pr, qN), v)))
        cands.append(("a.add_effect n (conflicts with increase)", lambda pr: pr.action("a").add_effect(fexp(pr, nN), 0)))
        cands.append(("a.add_increase n", lambda pr: pr.action("a").add_increase_effect(fexp(pr, nN), 2)))
        cands.append(("a.add_decrease m", lambda pr: pr.action("a").add_decrease_effect(fexp(pr, mN), 1)))
        cands.append(("b.add_effect q again (conflict)", lambda pr: pr.action("b").add_effect(fexp(pr, qN), True)))
        cands.append(("b.add_increase n", lambda pr: pr.action("b").add_increase_effect(fexp(pr, nN), 1)))
        cands.append(("a.add_precondition", lambda pr: pr.action("a").add_precondition(fexp(pr, qN))))
        cands.append(("d.add_effect start q", lambda pr: pr.action("d").add_effect(StartTiming(), fexp(pr, qN), True)))
        cands.append(("d.add_effect end m (conflicts with increase)", lambda pr: pr.action("d").add_effect(EndTiming(), fexp(pr, mN), 0)))
        cands.append(("d.add_increase end m", lambda pr: pr.action("d").add_increase_effect(EndTiming(), fexp(pr, mN), 2)))
        if kind == "contingent":
            cands.append(("oneof", lambda pr, o=rng.choice(objs): pr.add_oneof_initial_constraint([fexp(pr, pN, o), fexp(pr, qN)])))
            cands.append(("unknown", lambda pr, o=rng.choice(objs): pr.add_unknown_initial_constraint(fexp(pr, pN, o))))
        if kind == "htn":
            cands.append(("tn.add_subtask", lambda pr, i=rng.randint(0, 99): pr.task_network.add_subtask(pr.action("b"), ident=f"st{i}")))
            cands.append(("add_task", lambda pr, i=rng.randint(0, 1): pr.add_task(f"t{i}", z=T)))
    elif kind == "ma":
        T, objs = sig["T"], sig["objs"]
        cands = [
            ("env.add_fluent", lambda pr, i=rng.randint(0, 1): pr.ma_environment.add_fluent(Fluent(f"e{i}", BoolType()), default_initial_value=False)),
            ("env.add_fluent dup", lambda pr: pr.ma_environment.add_fluent(Fluent("pub", BoolType()))),
            ("add_object", lambda pr, i=rng.randint(0, 1): pr.add_object(Object(f"no{i}", T))),
            ("add_object dup", lambda pr: pr.add_object(Object("o1", T))),
            ("set_initial_value", lambda pr, o=rng.choice(objs), v=rng.choice([True, False]): pr.set_initial_value(pr.ma_environment.fluent("pub")(o), v)),
            ("set_initial_value dot", lambda pr, o=rng.choice(objs): pr.set_initial_value(Dot(pr.agent("ag1"), pr.agent("ag1").fluent("has")(o)), True)),
            ("add_goal", lambda pr, o=rng.choice(objs): pr.add_goal(pr.ma_environment.fluent("pub")(o))),
            ("agent.add_fluent", lambda pr, i=rng.randint(0, 1): pr.agent("ag1").add_fluent(Fluent(f"af{i}", BoolType()), default_initial_value=True)),
            ("agent action add_effect", lambda pr: pr.agent("ag2").action("take").add_effect(pr.ma_environment.fluent("pub")(pr.agent("ag2").action("take").x), True)),
            ("agent action add_effect conflict", lambda pr: pr.agent("ag1").action("take").add_effect(pr.agent("ag1").fluent("cnt"), 0)),
            ("agent action increase", lambda pr: pr.agent("ag1").action("take").add_increase_effect(pr.agent("ag1").fluent("cnt"), 2)),
            ("agent.add_action", lambda pr, i=rng.randint(0, 1): pr.agent("ag2").add_action(InstantaneousAction(f"noop{i}"))),
            ("agent public goal", lambda pr, o=rng.choice(objs): pr.agent("ag2").add_public_goal(pr.agent("ag2").fluent("has")(o))),
            # edits made THROUGH an agent that reach the problem it belongs to: a user type the problem does not know yet (registered in the
            # agent's problem), a name that is checked against the agent's problem
            ("agent.add_fluent new user type", lambda pr: pr.agent("ag1").add_fluent(Fluent("carry", BoolType(), c=UserType("Parcel")), default_initial_value=False)),
            ("agent.add_action new user type", lambda pr: pr.agent("ag2").add_action(InstantaneousAction("ship", c=UserType("Crate")))),
            ("agent.add_fluent named like an object", lambda pr: pr.agent("ag2").add_fluent(Fluent("no0", BoolType()), default_initial_value=False)),
        ]
    else:
        cands = [
            ("add_fluent", lambda pr, i=rng.randint(0, 1): pr.add_fluent(f"sf{i}", BoolType(), default_initial_value=True)),
            ("add_fluent dup", lambda pr: pr.add_fluent("fl", BoolType())),
            ("add_resource", lambda pr, i=rng.randint(0, 1): pr.add_resource(f"res{i}", 3)),
            ("add_activity", lambda pr, i=rng.randint(0, 1): pr.add_activity(f"nact{i}", duration=2)),
            ("add_activity dup", lambda pr: pr.add_activity("act1", duration=2)),
            ("activity.uses", lambda pr: pr.get_activity("act1").uses(pr.fluent("r"), 1)),
            ("add_constraint", lambda pr: pr.add_constraint(LE(pr.get_activity("act1").start, 10))),
            ("metric", lambda pr: pr.add_quality_metric(MinimizeMakespan())),
            ("set_initial_value", lambda pr: pr.set_initial_value(pr.fluent("fl"), True)),
            ("add effect", lambda pr: pr.get_activity("act2").add_effect(pr.get_activity("act2").end, pr.fluent("fl"), True)),
        ]
    for _ in range(k):
        ops.append(rng.choice(cands))
    return ops


def run_op(fn, pr):
    try:
        fn(pr)
        return "ok"
    except AssertionError:
        return "AssertionError"
    except Exception as ex:  # noqa
        return type(ex).__name__


def safe_kind(pr):
    try:
        return pr.kind
    except Exception as ex:  # noqa
        return f"raises {type(ex).__name__}"


def check_pair(a, b, label, detail, failures, what_prefix=""):
    rep = []
    rep_check(a, b, type(a).__name__, rep)
    for r in rep[:3]:
        # strip indices so the finding signature is the field, not the instance
        import re
        sig_ = re.sub(r"\[[^\]]*\]", "[]", r.split(":")[0])
        cat_ = re.split(r"[:(]", r.split(":", 1)[1].strip())[0].strip()
        failures.append({"what": f"{what_prefix}{type(a).__name__}.clone representation: {sig_}: {cat_} [{re.sub(chr(39) + '.*' + chr(39), '<op>', label)}]",
                         "concrete": detail, "observed": r})
    if not (a == b):
        failures.append({"what": f"{what_prefix}{type(a).__name__}: clone != original [{label}]", "concrete": detail, "observed": None})
    elif hash(a) != hash(b):
        failures.append({"what": f"{what_prefix}{type(a).__name__}: clone == original but hashes differ [{label}]", "concrete": detail, "observed": None})
    ka, kb = safe_kind(a), safe_kind(b)
    if ka != kb:
        failures.append({"what": f"{what_prefix}{type(a).__name__}: kind of clone differs from kind of original [{label}]", "concrete": detail,
                         "observed": f"{ka} vs {kb}"})


def scenario(kind, seed, nops, failures):
    rng = random.Random(seed)
    pr, sig = build(kind, rng)
    cl = pr.clone()
    detail = {"kind": kind, "seed": seed, "nops": nops}
    n0 = len(failures)
    check_pair(pr, cl, "at clone time", detail, failures)
    if len(failures) > n0:
        return 1
    ops = make_ops(kind, sig, rng, nops)
    # H: lock-step
    labels = []
    for lab, fn in ops:
        ra, rb = run_op(fn, pr), run_op(fn, cl)
        labels.append(f"{lab}:{ra}")
        if ra != rb:
            failures.append({"what": f"{type(pr).__name__}: operation '{lab}' {ra} on the original but {rb} on the clone",
                             "concrete": dict(detail, ops=labels), "observed": f"{ra} vs {rb}"})
            return len(ops)
        n1 = len(failures)
        check_pair(pr, cl, f"after lock-step '{lab}'", dict(detail, ops=labels), failures, what_prefix="history: ")
        if len(failures) > n1:
            return len(ops)
    # I: independence (fresh clone; edit one side only)
    c2 = pr.clone()
    n2 = len(failures)
    check_pair(pr, c2, "clone taken after a history of edits", dict(detail, ops=labels), failures, what_prefix="history: ")
    if len(failures) > n2:
        return len(ops)
    side = rng.random() < 0.5
    edited, other = (pr, c2) if side else (c2, pr)
    snap = snapshot(other)
    ops2 = make_ops(kind, sig, rng, nops)
    labels2 = []
    for lab, fn in ops2:
        r = run_op(fn, edited)
        labels2.append(f"{lab}:{r}")
        if snapshot(other) != snap:
            failures.append({"what": f"{type(pr).__name__}: operation '{lab}' on the {'original' if side else 'clone'} changed the {'clone' if side else 'original'}",
                             "concrete": dict(detail, ops=labels + ["|clone|"] + labels2), "observed": None})
            break
    else:
        # then the same on the other side: equal again
        for lab, fn in ops2:
            run_op(fn, other)
        check_pair(edited, other, "after the same edits on both sides separately", dict(detail, ops=labels2), failures, what_prefix="history: ")
    return len(ops) + len(ops2)


KINDS = ["problem", "contingent", "htn", "ma", "sched"]


def bounded(tier, seed):
    n = 40 if tier == "quick" else 600
    failures, evals, nontrivial = [], 0, set()
    with warnings.catch_warnings():
        warnings.simplefilter("ignore")
        for i in range(n):
            for kind in KINDS:
                nops = 8 if kind != "sched" else 5
                evals += scenario(kind, seed * 100003 + i * 7 + KINDS.index(kind), nops, failures) + 1
                nontrivial.add((kind, i))
                if len(failures) > 10:
                    break
            if len(failures) > 10:
                break
    # de-duplicate by signature
    seen, out = set(), []
    for f in failures:
        if f["what"] in seen:
            continue
        seen.add(f["what"])
        out.append(f)
    return {"evaluations": evals, "distinct_nontrivial": len(nontrivial), "failures": out[:10],
            "rule": f"{n} seeds x {len(KINDS)} problem classes; per scenario: clone, representation/equality/kind check, 8 lock-step operations "
                    f"(checked after each), fresh clone, 8 one-sided operations (other side's snapshot unchanged), then the same on the other side",
            "samples": [{"kinds": KINDS}], "bound": f"{n} seeds, histories of 8+8 operations"}


def replay_file(data):
    c = data.get("concrete") or {}
    failures = []
    with warnings.catch_warnings():
        warnings.simplefilter("ignore")
        scenario(c.get("kind", "problem"), c.get("seed", 0), c.get("nops", 8), failures)
    return {"reproduced": bool(failures), "concrete": c, "observed": [f["what"] for f in failures][:4]}


LEVEL = "other"
EXPLANATION = __doc__
TRUSTED = ["proved: the flat mixin _clone_to methods, MultiAgentProblem.clone and Agent.clone (fresh containers, equal content, source unchanged, agents cloned for the "
           "clone, actions cloned in order); assumed there: the constructors MultiAgentProblem(name, env) and Agent(name, problem) return a new object with new empty "
           "containers (Agent: bound to the problem given), Agent.add_action appends the clone of a source action without raising, Action.clone() is a pure function "
           "of the action (its own independence is bounded); Problem.clone itself, the action / effect / "
           "timed-effect clones (comprehensions over dicts of lists of cloned effects) and the name-resolved metric re-binding are outside pyvc's subset: bounded", "snapshot is repr-based: two different objects with equal repr are not told apart"]
USES_THEORY = False

"""C20 — protobuf round trip is lossless.

P (real source, all bounds of any magnitude): convert_type_str(proto_type(t), problem) for every Boolean, time, integer and real type -- with each
bound absent or any integer / rational -- asks the type manager for exactly the type t was built from (same family, same bounds, absent bounds
stay absent), and raises nothing.  The text in between is modelled exactly (pyvc/segstr.py: literal pieces and printed numbers; `in`, `==`,
split, strip, int(), Fraction() are decided without looking at digits, or left undecided): the writer's f-string goes through the real
_IntType.__repr__ / _RealType.__repr__, the reader through its real split / strip / int / Fraction calls.

Bounded run-time contract on ProtobufWriter().convert / ProtobufReader().convert (real code, real protobuf messages,
serialised to bytes and parsed back in between so that nothing survives by object identity):
  T  type grid: Int/Real fluent and parameter types with every combination of {no bound, negative, zero, positive, huge}
     lower/upper bounds (huge ints beyond 2**64, rationals with big numerators/denominators) -- exhaustive over the grid;
  K  constants: rational constants of any size in initial values, effects, durations, timed-effect delays;
  I  timings and intervals: every timepoint kind (global start/end, start/end of the action) x delays, open/closed
     time intervals and duration intervals;
  P  generated problems (rtc.gen sequential, rtc.tgen temporal, the hierarchical / scheduling builders of C22) and the
     example corpus: read(write(p)) == p and kind equal;
  L  plans (sequential, time-triggered with rational times and durations), plan-generation results, compiler results
     (grounder: problem and map-back on every ground action), validation results, log messages.
A writer exception means "not accepted" (skipped, counted); a reader exception or an unequal object is a violation.
"""
import dataclasses
import random
import warnings
from fractions import Fraction

import unified_planning as up
from unified_planning.shortcuts import *  # noqa
from unified_planning.plans import SequentialPlan, TimeTriggeredPlan, ActionInstance



def rt():
    from unified_planning.grpc.proto_reader import ProtobufReader
    from unified_planning.grpc.proto_writer import ProtobufWriter
    return ProtobufWriter(), ProtobufReader()


def through_bytes(msg):
    data = msg.SerializeToString()
    m2 = type(msg)()
    m2.ParseFromString(data)
    return m2


class Ctx:
    def __init__(self):
        self.failures, self.evals, self.skipped, self.nontrivial = [], 0, 0, set()

    def bad(self, what, detail, observed=None):
        if what not in {f["what"] for f in self.failures} and len(self.failures) < 12:
            self.failures.append({"what": what, "concrete": detail, "observed": observed})


def roundtrip_problem(c, pr, label, what):
    w, r = rt()
    try:
        msg = w.convert(pr)
    except Exception as ex:  # noqa
        c.skipped += 1
        return None
    c.evals += 1
    try:
        back = r.convert(through_bytes(msg))
    except Exception as ex:  # noqa
        c.bad(f"{what}: reader fails on a message the writer produced ({type(ex).__name__})", label, str(ex)[:300])
        return None
    if back != pr:
        c.bad(f"{what}: read(write(problem)) != problem", label, diff_problem(pr, back))
        return back
    try:
        if back.kind != pr.kind:
            c.bad(f"{what}: kind changes through the round trip", label, f"{sorted(set(pr.kind.features) ^ set(back.kind.features))}")
    except Exception:  # noqa
        pass
    return back


def diff_problem(a, b):
    out = []
    try:
        if set(a.fluents) != set(b.fluents):
            out.append(f"fluents {a.fluents} vs {b.fluents}")
        if a.initial_values != b.initial_values:
            da = {str(k): str(v) for k, v in a.initial_values.items()}
            db = {str(k): str(v) for k, v in b.initial_values.items()}
            out.append("initial values differ: " + str({k: (da.get(k), db.get(k)) for k in set(da) | set(db) if da.get(k) != db.get(k)})[:300])
        if set(a.actions) != set(b.actions):
            out.append(f"actions differ: {[str(x) for x in a.actions]} vs {[str(x) for x in b.actions]}"[:600])
        if a.goals != b.goals:
            out.append(f"goals {a.goals} vs {b.goals}")
        if hasattr(a, "timed_effects") and a.timed_effects != b.timed_effects:
            out.append(f"timed effects {a.timed_effects} vs {b.timed_effects}")
        if hasattr(a, "timed_goals") and a.timed_goals != b.timed_goals:
            out.append(f"timed goals {a.timed_goals} vs {b.timed_goals}")
        if a.quality_metrics != b.quality_metrics:
            out.append(f"metrics {a.quality_metrics} vs {b.quality_metrics}")
    except Exception as ex:  # noqa
        out.append(f"(diff failed: {ex})")
    return "; ".join(out)[:900] or "no field-level difference found by the diff helper"


INT_BOUNDS = [None, -3, 0, 7, 2 ** 70]
REAL_BOUNDS = [None, Fraction(-7, 3), Fraction(0), Fraction(5, 2), Fraction(10 ** 30, 7)]
CONSTS = [Fraction(1, 3), Fraction(-22, 7), Fraction(10 ** 25 + 1, 10 ** 12 + 39), Fraction(2 ** 80), -(2 ** 65), 0, 5]


def type_grid(c):
    for kind, bounds in (("int", INT_BOUNDS), ("real", REAL_BOUNDS)):
        for lb in bounds:
            for ub in bounds:
                if lb is not None and ub is not None and lb > ub:
                    continue
                t = IntType(lb, ub) if kind == "int" else RealType(lb, ub)
                pr = Problem("grid")
                f = Fluent("f", t)
                init = lb if lb is not None else (ub if ub is not None else 0)
                pr.add_fluent(f, default_initial_value=init)
                g = Fluent("g", BoolType(), p=t) if kind == "int" and lb is not None and ub is not None and ub - lb < 20 else None
                if g is not None:
                    pr.add_fluent(g, default_initial_value=False)
                a = InstantaneousAction("a", **({"n": t} if kind == "int" or True else {}))
                a.add_precondition(LE(a.n, f))
                pr.add_action(a)
                c.nontrivial.add(("type", kind, str(lb), str(ub)))
                roundtrip_problem(c, pr, {"grid": kind, "lower": str(lb), "upper": str(ub)},
                                  f"{kind} type with {'no' if lb is None else 'a'} lower and {'no' if ub is None else 'a'} upper bound")


def metrics_grid(c):
    """every quality-metric class, with the corner cases of their payloads: action costs with no default / a default equal to an explicit cost
    (same and different numeric kind) / a default used by an action without explicit cost, int and rational values; weighted goals"""
    from unified_planning.shortcuts import (MinimizeActionCosts, MinimizeSequentialPlanLength, MinimizeMakespan, MinimizeExpressionOnFinalState,
                                            MaximizeExpressionOnFinalState, Oversubscription, TemporalOversubscription, Int, Real)

    def base(temporal=False):
        pr = Problem("metrics")
        x, q = Fluent("x", IntType(0, 9)), Fluent("q", BoolType())
        pr.add_fluent(x, default_initial_value=0)
        pr.add_fluent(q, default_initial_value=False)
        acts = []
        for nm in ("a", "b", "c"):
            if temporal:
                a = DurativeAction(nm)
                a.set_fixed_duration(2)
                a.add_effect(EndTiming(), q, True)
            else:
                a = InstantaneousAction(nm)
                a.add_effect(q, True)
            pr.add_action(a)
            acts.append(a)
        pr.add_goal(q)
        return pr, x, q, acts
    cases = []
    for dname, default in (("no default", None), ("int default", Int(2)), ("real default", Real(Fraction(5, 2)))):
        for cname, costs in (("all explicit, one equal to the default", lambda a, d: {a[0]: Int(3), a[1]: (d if d is not None else Int(2)), a[2]: Int(0)}),
                             ("one action left to the default", lambda a, d: {a[0]: Int(3), a[1]: Real(Fraction(7, 3))}),
                             ("explicit cost equal in value but of the other numeric kind", lambda a, d: {a[0]: Real(Fraction(2)), a[1]: Int(2), a[2]: Real(Fraction(5, 2))}),
                             ("fluent-valued cost", lambda a, d: {a[0]: None, a[1]: Int(1), a[2]: Int(1)})):
            pr, x, q, acts = base()
            cs = costs(acts, default)
            cs = {k: (x() if v is None else v) for k, v in cs.items()}
            try:
                pr.add_quality_metric(MinimizeActionCosts(cs, default))
            except Exception:  # noqa
                continue
            cases.append((f"MinimizeActionCosts, {dname}, {cname}", pr))
    pr, x, q, acts = base()
    pr.add_quality_metric(MinimizeSequentialPlanLength())
    cases.append(("MinimizeSequentialPlanLength", pr))
    pr, x, q, acts = base(temporal=True)
    pr.add_quality_metric(MinimizeMakespan())
    cases.append(("MinimizeMakespan", pr))
    for M in (MinimizeExpressionOnFinalState, MaximizeExpressionOnFinalState):
        pr, x, q, acts = base()
        pr.add_quality_metric(M(Plus(x, 3)))
        cases.append((M.__name__, pr))
    for wname, weights in (("int weights", (1, 5)), ("rational weights", (Fraction(1, 3), Fraction(10 ** 12, 7))), ("equal weights", (2, 2))):
        pr, x, q, acts = base()
        pr.add_quality_metric(Oversubscription({q(): weights[0], GE(x, 1): weights[1]}))
        cases.append((f"Oversubscription, {wname}", pr))
        pr, x, q, acts = base(temporal=True)
        try:
            pr.add_quality_metric(TemporalOversubscription({(ClosedTimeInterval(GlobalStartTiming(1), GlobalStartTiming(4)), q()): weights[0],
                                                            (GlobalStartTiming(5), GE(x, 1)): weights[1]}))
            cases.append((f"TemporalOversubscription, {wname}", pr))
        except Exception:  # noqa
            pass
    for nm, pr in cases:
        c.nontrivial.add(("metric", nm))
        roundtrip_problem(c, pr, {"metric": nm}, f"quality metric [{nm}]")


def constants_and_timings(c):
    T = UserType("T")
    for k in CONSTS:
        pr = Problem("consts")
        x = Fluent("x", RealType())
        pr.add_fluent(x, default_initial_value=k)
        pr.add_object(Object("o", T))
        a = InstantaneousAction("a")
        a.add_effect(x, Plus(x, k))
        a.add_precondition(LT(Times(x, k), Div(x, 3)))
        pr.add_action(a)
        d = DurativeAction("d")
        dk = abs(Fraction(k)) + Fraction(1, 3)
        d.set_closed_duration_interval(dk, dk + 1)
        d.add_effect(StartTiming(dk / 2), x, k)
        d.add_condition(ClosedTimeInterval(StartTiming(), EndTiming()), GE(x, k))
        pr.add_action(d)
        pr.add_timed_effect(GlobalStartTiming(dk), x, k)
        pr.add_goal(GE(x, k))
        c.nontrivial.add(("const", str(k)))
        roundtrip_problem(c, pr, {"constant": str(k)}, "rational constant")
    # every timing / interval form
    points = [("GlobalStartTiming", GlobalStartTiming), ("GlobalEndTiming", GlobalEndTiming), ("StartTiming", StartTiming), ("EndTiming", EndTiming)]
    delays = [0, 3, Fraction(7, 2), -2, Fraction(-1, 3)]
    for (n1, p1) in points:
        for dl in delays:
            for ivk in ("point", "closed", "open", "left_open", "right_open"):
                pr = Problem("timings")
                q = Fluent("q", BoolType())
                pr.add_fluent(q, default_initial_value=False)
                try:
                    t1 = p1(dl) if dl != 0 else p1()
                except Exception:  # noqa
                    continue
                in_action = n1 in ("StartTiming", "EndTiming")
                try:
                    if in_action:
                        d = DurativeAction("d")
                        d.set_fixed_duration(10)
                        t2 = EndTiming()
                        iv = {"point": lambda: TimePointInterval(t1) if False else t1, "closed": lambda: ClosedTimeInterval(t1, t2), "open": lambda: OpenTimeInterval(t1, t2),
                              "left_open": lambda: LeftOpenTimeInterval(t1, t2), "right_open": lambda: RightOpenTimeInterval(t1, t2)}[ivk]()
                        d.add_condition(iv, q)
                        if ivk == "point":
                            d.add_effect(t1, q, True)
                        pr.add_action(d)
                    else:
                        t2 = GlobalEndTiming()
                        iv = {"point": lambda: t1, "closed": lambda: ClosedTimeInterval(t1, t2), "open": lambda: OpenTimeInterval(t1, t2),
                              "left_open": lambda: LeftOpenTimeInterval(t1, t2), "right_open": lambda: RightOpenTimeInterval(t1, t2)}[ivk]()
                        pr.add_timed_goal(iv, q)
                        if ivk == "point" and n1 == "GlobalStartTiming" and dl >= 0:
                            pr.add_timed_effect(t1, q, True)
                except Exception:  # noqa  (the model rejects the form: not in scope)
                    continue
                c.nontrivial.add(("timing", n1, str(dl), ivk))
                roundtrip_problem(c, pr, {"timepoint": n1, "delay": str(dl), "interval": ivk}, f"{n1} timing in a {ivk} interval")
    # duration intervals
    for mk in ("fixed", "closed", "open", "left_open", "right_open"):
        pr = Problem("durations")
        d = DurativeAction("d")
        lo, hi = Fraction(3, 2), Fraction(10 ** 20, 3)
        {"fixed": lambda: d.set_fixed_duration(lo), "closed": lambda: d.set_closed_duration_interval(lo, hi), "open": lambda: d.set_open_duration_interval(lo, hi),
         "left_open": lambda: d.set_left_open_duration_interval(lo, hi), "right_open": lambda: d.set_right_open_duration_interval(lo, hi)}[mk]()
        pr.add_action(d)
        c.nontrivial.add(("duration", mk))
        roundtrip_problem(c, pr, {"duration_interval": mk}, f"{mk} duration interval")


def plans_and_results(c, pr, rng, label):
    w, r = rt()
    acts = [a for a in pr.actions]
    if not acts:
        return
    objs = list(pr.all_objects)

    def inst(a):
        ps = []
        for p in a.parameters:
            if p.type.is_user_type():
                cands = [o for o in objs if p.type.is_compatible(o.type)]
                if not cands:
                    return None
                ps.append(rng.choice(cands))
            elif p.type.is_bool_type():
                ps.append(rng.choice([True, False]))
            elif p.type.is_int_type():
                lo = p.type.lower_bound if p.type.lower_bound is not None else -5
                hi = p.type.upper_bound if p.type.upper_bound is not None else lo + 10
                ps.append(rng.randint(lo, hi))
            else:
                ps.append(Fraction(rng.randint(-9, 9), rng.randint(1, 7)))
        try:
            return ActionInstance(a, tuple(ps))
        except Exception:  # noqa
            return None
    insts = [x for x in (inst(rng.choice(acts)) for _ in range(rng.randint(0, 4))) if x is not None]
    seqp = SequentialPlan(insts)
    tt = TimeTriggeredPlan([(Fraction(rng.randint(0, 50), rng.choice([1, 3, 7, 10 ** 9 + 7])), x,
                             (Fraction(rng.randint(1, 40), rng.choice([1, 2, 9])) if isinstance(x.action, DurativeAction) else None)) for x in insts])
    for name, plan in (("sequential plan", seqp), ("time-triggered plan", tt)):
        try:
            msg = w.convert(plan)
        except Exception:  # noqa
            c.skipped += 1
            continue
        c.evals += 1
        c.nontrivial.add((name, len(insts)))
        try:
            back = r.convert(through_bytes(msg), pr)
        except Exception as ex:  # noqa
            c.bad(f"{name}: reader fails on a message the writer produced ({type(ex).__name__})", label, str(ex)[:300])
            continue
        if back != plan:
            if not insts and type(back) is not type(plan):
                c.bad(f"[empty-plan] an empty {type(plan).__name__} is read back as an empty {type(back).__name__}", label, f"{plan} vs {back}"[:300])
            else:
                c.bad(f"{name}: read(write(plan)) != plan", label, f"{plan} vs {back}"[:500])
    # results
    from unified_planning.engines import PlanGenerationResult, PlanGenerationResultStatus, ValidationResult, ValidationResultStatus, LogMessage, LogLevel
    from unified_planning.engines.results import FailedValidationReason
    for status in list(PlanGenerationResultStatus):
        res = PlanGenerationResult(status, seqp if status.name.startswith("SOLVED") else None, "eng",
                                   metrics={"k": "v", "t": "1.5"}, log_messages=[LogMessage(LogLevel.INFO, "hello"), LogMessage(LogLevel.ERROR, "é\n")])
        try:
            msg = w.convert(res)
        except Exception:  # noqa
            c.skipped += 1
            continue
        c.evals += 1
        try:
            back = r.convert(through_bytes(msg), pr)
        except Exception as ex:  # noqa
            c.bad(f"plan generation result: reader fails ({type(ex).__name__})", dict(label, status=status.name), str(ex)[:300])
            continue
        if back != res:
            if not insts and res.plan is not None and type(back.plan) is not type(res.plan):
                c.bad(f"[empty-plan] an empty {type(res.plan).__name__} is read back as an empty {type(back.plan).__name__}", label, f"{res.plan} vs {back.plan}"[:300])
            else:
                c.bad("plan generation result: read(write(r)) != r", dict(label, status=status.name), f"{res} vs {back}"[:500])
    for status in list(ValidationResultStatus):
        kw = {}
        if status == ValidationResultStatus.INVALID:
            kw = dict(reason=rng.choice(list(FailedValidationReason)), inapplicable_action=(insts[0] if insts else None))
        try:
            res = ValidationResult(status, "val", [LogMessage(LogLevel.WARNING, "w")], metric_evaluations=None, **kw)
        except Exception:  # noqa
            continue
        try:
            msg = w.convert(res)
        except Exception:  # noqa
            c.skipped += 1
            continue
        c.evals += 1
        try:
            back = r.convert(through_bytes(msg), pr) if insts else r.convert(through_bytes(msg))
        except TypeError:
            try:
                back = r.convert(through_bytes(msg))
            except Exception as ex:  # noqa
                c.bad(f"validation result: reader fails ({type(ex).__name__})", dict(label, status=status.name), str(ex)[:300])
                continue
        except Exception as ex:  # noqa
            c.bad(f"validation result: reader fails ({type(ex).__name__})", dict(label, status=status.name), str(ex)[:300])
            continue
        want = dataclasses.replace(res, trace=None, calculated_interpreted_functions=None) if hasattr(res, "trace") else res
        # the protobuf message has no field for reason / inapplicable action / metric evaluations: documented as not represented
        fields = [f.name for f in dataclasses.fields(res)]
        cmp_fields = [f for f in ("status", "engine_name", "log_messages") if f in fields]
        if any(getattr(back, f) != getattr(want, f) for f in cmp_fields):
            c.bad("validation result: status / engine name / log messages change through the round trip", dict(label, status=status.name), f"{want} vs {back}"[:500])


def compiler_result(c, pr, label):
    from unified_planning.engines.compilers import Grounder
    w, r = rt()
    try:
        res = Grounder().compile(pr, up.engines.CompilationKind.GROUNDING)
    except Exception:  # noqa
        return
    try:
        msg = w.convert(res)
    except Exception:  # noqa
        c.skipped += 1
        return
    c.evals += 1
    try:
        back = r.convert(through_bytes(msg), pr)
    except Exception as ex:  # noqa
        c.bad(f"compiler result: reader fails ({type(ex).__name__})", label, str(ex)[:300])
        return
    if back.problem != res.problem:
        c.bad("compiler result: compiled problem changes through the round trip", label, diff_problem(res.problem, back.problem))
        return
    for ga in res.problem.actions:
        ai = ActionInstance(ga)
        try:
            x, y = res.map_back_action_instance(ai), back.map_back_action_instance(ai)
        except Exception as ex:  # noqa
            c.bad(f"compiler result: map_back of the read result fails ({type(ex).__name__})", label, str(ex)[:200])
            return
        if (x is None) != (y is None) or (x is not None and (x.action != y.action or x.actual_parameters != y.actual_parameters)):
            c.bad("compiler result: map_back of the read result differs", label, f"{x} vs {y}")
            return


def bounded(tier, seed):
    from rtc.gen import Gen
    from rtc.tgen import TGen
    from contracts import c22
    n = 40 if tier == "quick" else 800
    c = Ctx()
    rng = random.Random(seed * 9176 + 20)
    with warnings.catch_warnings():
        warnings.simplefilter("ignore")
        type_grid(c)
        constants_and_timings(c)
        metrics_grid(c)
        try:
            from unified_planning.test.examples import get_example_problems
            for name, ex in get_example_problems().items():
                c.nontrivial.add(("example", name))
                back = roundtrip_problem(c, ex.problem, {"source": f"example:{name}"}, "example problem")
        except Exception:  # noqa
            pass
        for i in range(n):
            s = seed * 100003 + i
            for src in ("gen", "tgen", "htn", "sched", "problem"):
                try:
                    if src == "gen":
                        pr = Gen(s, {"trajectory": 0.3, "undefined": 0.2, "hierarchy": 0.5}).problem()
                    elif src == "tgen":
                        pr = TGen(s).problem()
                        pr = pr[0] if isinstance(pr, tuple) else pr
                    else:
                        pr, _ = c22.build(src, random.Random(s))
                except Exception:  # noqa
                    continue
                label = {"source": src, "seed": s}
                c.nontrivial.add((src, s))
                back = roundtrip_problem(c, pr, label, f"generated {src} problem")
                if src in ("gen", "tgen", "problem"):
                    plans_and_results(c, pr, rng, label)
                if src == "gen" and i % 4 == 0:
                    compiler_result(c, pr, label)
            if len(c.failures) >= 12:
                break
    return {"evaluations": c.evals, "distinct_nontrivial": len(c.nontrivial), "failures": c.failures,
            "rule": f"every quality-metric class with default / explicit / equal-valued costs and weights; exhaustive type-bound grid ({len(INT_BOUNDS)}^2 int + {len(REAL_BOUNDS)}^2 real), {len(CONSTS)} rational constants, every timepoint kind x 5 delays x 5 interval "
                    f"forms, 5 duration-interval forms, example corpus, {n} seeds x 5 generators with plans/results; evaluation = one object written, "
                    f"serialised, parsed, read and compared; writer rejections skipped: {c.skipped}",
            "samples": [{"writer_rejections_skipped": c.skipped}], "bound": f"{n} seeds + grids", "skipped": c.skipped}


def replay_file(data):
    cc = data.get("concrete") or {}
    c = Ctx()
    with warnings.catch_warnings():
        warnings.simplefilter("ignore")
        if "grid" in cc:
            type_grid(c)
        elif "metric" in cc:
            metrics_grid(c)
        elif "constant" in cc or "timepoint" in cc or "duration_interval" in cc:
            constants_and_timings(c)
        elif "source" in cc:
            r_ = bounded("quick", 0)
            return {"reproduced": bool(r_["failures"]), "concrete": cc, "observed": [f["what"] for f in r_["failures"]][:5]}
    return {"reproduced": bool(c.failures), "concrete": cc, "observed": [f["what"] for f in c.failures][:5]}


# ======================================================================================================= proved kernel
import z3
from pyvc.values import Ref, Opt, SBool, SRef, SInt, SReal, SUnion, Rec, Loc, fresh_name, zbool, zint, zreal, Unsupported as _Unsup
from pyvc.values import Int as PInt, Real as PReal
from pyvc.verify import Unit
from pyvc import builtins as B
import unified_planning.model.types as _ty
from contracts.harness import c20 as H20

IntT20 = Ref("IntType20", _ty._IntType, fields={"_lower_bound": Opt(PInt), "_upper_bound": Opt(PInt)})
RealT20 = Ref("RealType20", _ty._RealType, fields={"_lower_bound": Opt(PReal), "_upper_bound": Opt(PReal)})
BoolT20 = Ref("BoolType20", _ty._BoolType)
TimeT20 = Ref("TimeType20", _ty._TimeType)
TM20 = Ref("TypeManager20")
Env20 = Ref("Environment20", fields={"type_manager": TM20})
Problem20 = Ref("Problem20", fields={"environment": Env20})


def _rec(kind):
    def m(eng, st, selfv, args, kw):
        lo = kw.get("lower_bound", args[0] if len(args) > 0 else None)
        hi = kw.get("upper_bound", args[1] if len(args) > 1 else None)
        st.ghost["built"] = st.ghost.get("built", ()) + ((kind, lo, hi),)
        yield st, Ref("BuiltType20").fresh("built")
    return m


TM20.methods.update({"IntType": _rec("int"), "RealType": _rec("real"), "BoolType": _rec("bool")})


class TypeRoundTrip(Unit):
    prop = "C20"
    allowed_raises = ()

    def __init__(self, ref, kind):
        self.ref, self.tkind = ref, kind
        self.name = f"convert_type_str(proto_type(t)) for {kind} types"
        self.doc = "the reader rebuilds the type the writer printed: same family, same bounds (absent stays absent), for bounds of any magnitude"

    def target(self):
        return H20.type_round_trip

    def configure(self, eng):
        eng.exact_strings = True

    def setup(self, eng, st):
        t = self.ref.fresh("tpe")
        pr = Problem20.fresh("problem")
        return [t, pr], {}, dict(t=t)

    def post(self, eng, ctx, st, out):
        if out[0] != "return":
            return
        built = st.ghost.get("built", ())
        st.oblige("exactly one type is requested from the type manager", z3.BoolVal(len(built) == 1))
        if len(built) != 1:
            return
        kind, lo, hi = built[0]
        st.oblige("the same family of type is rebuilt", z3.BoolVal(kind == self.tkind))
        if self.tkind in ("int", "real"):
            t = ctx["t"]
            tn = self.ref.name
            W = zint if self.tkind == "int" else zreal
            srt = z3.IntSort() if self.tkind == "int" else z3.RealSort()
            for nm, got in (("_lower_bound", lo), ("_upper_bound", hi)):
                none = B._uf(f"{tn}.{nm}.isnone", self.ref.z3sort(), z3.BoolSort())(t.z)
                val = B._uf(f"{tn}.{nm}", self.ref.z3sort(), srt)(t.z)
                if got is None:
                    st.oblige(f"{nm[1:]}: absent only if it was absent", none)
                elif isinstance(got, SUnion):
                    raise _Unsup("optional bound handed to the type manager")
                else:
                    st.oblige(f"{nm[1:]}: present only if it was present, with the same value", z3.And(z3.Not(none), W(got) == val))
        else:
            st.oblige("no bounds for Boolean / time types", z3.BoolVal(lo is None and hi is None))


UNITS = [TypeRoundTrip(IntT20, "int"), TypeRoundTrip(RealT20, "real"), TypeRoundTrip(BoolT20, "bool")]
LEVEL = "other"
EXPLANATION = __doc__
TRUSTED = ["library facts of the segment-string domain: int(str(i)) == i, Fraction(str(q)) == q, int() / Fraction() ignore surrounding whitespace, printed numbers "
           "contain only characters of '-0123456789/' (pyvc/segstr.py)", "user types (names are arbitrary text) and time types: bounded layer only",
           "whole messages: the converters dispatch on message classes; no contract within pyvc's reach "
           "(string theory + protobuf objects) expresses the round trip", "protobuf runtime (google.protobuf) serialisation is trusted",
           "ValidationResult: reason / inapplicable action / metric evaluations have no message field; compared fields are status, engine name, log messages"]
USES_THEORY = False

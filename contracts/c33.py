"""C33 — ProblemKind ordering is a lattice consistent with equality and hashing.

P(fin): the feature universe is the finite concrete list read from the imported real module; a
kind is a vector of symbolic membership bits plus a version; the laws are stated over the real
`__le__`, `__eq__`, `__hash__`, `union`, `intersection`, `version`, `equalize_versions`,
`upgrade_1_2`, `upgrade_2_3`, `get_valid_features` (all executed from /repo's source) and hold
for every kind, not for a sample.
"""
import itertools
import z3
from pyvc.values import *  # noqa
from pyvc.verify import Unit
from pyvc import builtins as B
from pyvc.values import Rec

import unified_planning.model.problem_kind as pk
import unified_planning.model.problem_kind_versioning as pkv
from contracts.harness import c33 as H

USES_THEORY = False
UNIVERSE = tuple(sorted(pk.all_features))
VERSIONS = [None] + list(range(1, pkv.LATEST_PROBLEM_KIND_VERSION + 1))


def added(f):
    return pkv.FEATURES_VERSIONS.get(f, (1, None))[0]


def mk_kind(eng, st, name, version):
    """a symbolic kind satisfying the class invariant established by __init__/_set"""
    fs = B.FSet.fresh(UNIVERSE, name)
    if version is not None:
        for f in UNIVERSE:
            if added(f) > version:
                st.assume(z3.Not(fs.mem[f]))
    loc = st.alloc(fs, "set")
    return st.alloc(Rec(pk.ProblemKind, {"_features": loc, "_version": version}), "ProblemKind"), fs


def eff_version(fs, version):
    """spec of .version: declared, else the highest `added` version among present features"""
    if version is not None:
        return z3.IntVal(version)
    v = z3.IntVal(1)
    for f in UNIVERSE:
        if added(f) > 1:
            v = z3.If(z3.And(fs.mem[f], added(f) > v), added(f), v)
    return v


class Law(Unit):
    prop = "C33"
    kind = "finite"

    def __init__(self, fn, arity, versions, same_version=True, doc=""):
        self.fn, self.arity, self.versions, self.same_version = fn, arity, versions, same_version
        self.name = f"{fn.__name__}[{','.join(str(v) for v in versions)}]"
        self.doc = doc or fn.__name__

    def target(self):
        return self.fn

    def setup(self, eng, st):
        ks, fss = [], []
        for i, v in enumerate(self.versions):
            k, fs = mk_kind(eng, st, "abc"[i], v)
            ks.append(k)
            fss.append(fs)
        if self.same_version:
            ev = [eff_version(fs, v) for fs, v in zip(fss, self.versions)]
            for x in ev[1:]:
                st.assume(ev[0] == x)
        return ks, {}, dict(fss=fss)

    def post(self, eng, ctx, st, out):
        if out[0] == "return":
            r = out[1]
            bv = eng.as_bool_value(st, r)
            st.oblige(f"law {self.fn.__name__} holds", zbool(bv) if bv is not None else z3.BoolVal(False))

    def replay(self, ctx, model, label):
        kinds = []
        for fs, v in zip(ctx["fss"], self.versions):
            feats = [f for f in UNIVERSE if z3.is_true(model.eval(fs.mem[f], model_completion=True))]
            kinds.append({"features": feats, "version": v})
        return replay_concrete({"law": self.fn.__name__, "kinds": kinds})


def replay_concrete(c):
    ks = [pk.ProblemKind(k["features"], k["version"]) for k in c["kinds"]]
    try:
        ok = getattr(H, c["law"])(*ks)
    except Exception as e:  # noqa
        return {"reproduced": True, "concrete": c, "observed": f"raised {type(e).__name__}: {e}"}
    return {"reproduced": not ok, "concrete": c, "observed": f"law returned {ok}"}


def replay_file(data):
    c = data["concrete"]
    return replay_upgrade(c) if "upgrade" in c else replay_concrete(c)


def _combos(n, same):
    out = []
    for vs in itertools.product(VERSIONS, repeat=n):
        if same and len({v for v in vs if v is not None}) > 1:
            continue     # declared versions differ: not "kinds of the same version"
        out.append(vs)
    return out


UNITS = []
for vs in _combos(1, True):
    UNITS.append(Law(H.refl, 1, vs))
for vs in _combos(2, True):
    for fn in (H.antisym, H.eq_implies_le, H.union_upper, H.inter_lower, H.eq_hash, H.eq_sym):
        UNITS.append(Law(fn, 2, vs))
for vs in _combos(3, True):
    for fn in (H.trans, H.union_least, H.inter_greatest, H.eq_trans):
        UNITS.append(Law(fn, 3, vs))


# == is an equivalence consistent with the hash for ALL kinds, not only within one version: symmetry and `== implies equal hashes` over every
# combination of declared versions (unversioned kinds, whose version is inferred from their features, included) WITHOUT the same-version hypothesis
class AnyVersionLaw(Law):
    def __init__(self, fn, versions):
        Law.__init__(self, fn, 2, versions, same_version=False, doc=fn.__name__ + " for kinds of any (declared or inferred) versions")
        self.name = f"{fn.__name__}[any versions: {','.join(str(v) for v in versions)}]"


for vs in itertools.product(VERSIONS, repeat=2):
    for fn in (H.eq_hash, H.eq_sym):
        UNITS.append(AnyVersionLaw(fn, vs))

# cross-version clauses: "comparing kinds of different versions upgrades the older one, and
# upgrading preserves <=": transitivity over *all* version combinations, plus monotonicity of each
# real upgrade function on raw feature sets
# (transitivity *across* versions is not demanded: an upgrade that drops deprecated features loses
#  information, and the property only states that upgrading preserves <=)


class CrossLe(Law):
    def __init__(self, v, w):
        Law.__init__(self, H.cross_le, 2, (v, w), same_version=False,
                     doc="(a<=b) with a older == (upgrade(a)<=b); same for b<=a")

    def setup(self, eng, st):
        ks, kw, ctx = Law.setup(self, eng, st)
        v, w = self.versions
        ups = tuple(pkv.upgrade_functions_map[(i, i + 1)] for i in range(v, w))
        return ks + [ups, pk.ProblemKind], kw, ctx

    def replay(self, ctx, model, label):
        return None


for v in VERSIONS[1:]:
    for w in VERSIONS[1:]:
        if v < w:
            UNITS.append(CrossLe(v, w))


class UpgradeMonotone(Unit):
    prop = "C33"
    kind = "finite"

    def __init__(self, key):
        self.key = key
        self.name = f"upgrade_monotone{list(key)}"
        self.doc = "a subset of b => upgrade(a) subset of upgrade(b)"

    def target(self):
        return H.upgrade_monotone

    def setup(self, eng, st):
        fa, fb = B.FSet.fresh(UNIVERSE, "a"), B.FSet.fresh(UNIVERSE, "b")
        la, lb = st.alloc(fa, "set"), st.alloc(fb, "set")
        return [la, lb, pkv.upgrade_functions_map[self.key]], {}, dict(fss=[fa, fb])

    def post(self, eng, ctx, st, out):
        if out[0] == "return":
            bv = eng.as_bool_value(st, out[1])
            st.oblige("upgrade monotone", zbool(bv) if bv is not None else z3.BoolVal(False))

    def replay(self, ctx, model, label):
        sets = [[f for f in UNIVERSE if z3.is_true(model.eval(fs.mem[f], model_completion=True))] for fs in ctx["fss"]]
        return replay_upgrade({"upgrade": list(self.key), "a": sets[0], "b": sets[1]})


def replay_upgrade(c):
    up = pkv.upgrade_functions_map[tuple(c["upgrade"])]
    a, b = set(c["a"]), set(c["b"])
    try:
        ok = H.upgrade_monotone(a, b, up)
    except Exception as e:  # noqa
        return {"reproduced": True, "concrete": c, "observed": f"raised {type(e).__name__}: {e}"}
    return {"reproduced": not ok, "concrete": c,
            "observed": f"a<=b but upgrade(a)={sorted(up(set(a)))} not <= upgrade(b)={sorted(up(set(b)))}" if not ok else "holds"}


for key in sorted(pkv.upgrade_functions_map):
    UNITS.append(UpgradeMonotone(key))

LEVEL = "proof"
EXPLANATION = __doc__
TRUSTED = ["feature universe, FEATURES_VERSIONS, upgrade map read from the imported real modules at run time",
           "input kinds satisfy the constructor's invariant (no feature newer than the declared version)",
           "hash of a str is an arbitrary function str -> int (uninterpreted); the == => hash== law must hold for every such function"]

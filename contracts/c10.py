"""C10 — the problem kind reports every feature the problem uses.

Bounded run-time contract: an independent syntactic feature extractor (spec below, written from the property statement,
not from _KindFactory) is run on generated problems of every class and on the example corpus; every feature it finds must
be in `problem.kind.features`.  The extractor is deliberately conservative (demands a feature only when the construct is
syntactically present in a place an engine must interpret; where the library distinguishes a STATIC_ variant either is
accepted), so a finding is a construct the kind does not report.

Spec (construct -> feature):
  user type anywhere (objects, fluent types/signatures, action parameters)     -> FLAT_TYPING; with a father -> HIERARCHICAL_TYPING
  int/real/object fluent read or written in a condition, effect or goal        -> INT_FLUENTS / REAL_FLUENTS / OBJECT_FLUENTS
  such a numeric fluent with a bound                                           -> BOUNDED_TYPES
  bool / int fluent parameter; bool / bounded int / unbounded int / real action parameter -> the *_PARAMETERS features
  Not / Or, Implies / Equals / Exists / Forall in a precondition, durative condition, effect condition, goal,
  timed goal or trajectory constraint                                          -> NEGATIVE_ / DISJUNCTIVE_ / EQUALITIES / EXISTENTIAL_ / UNIVERSAL_
  conditional / forall / increase / decrease effect, continuous effects        -> *_EFFECTS
  a fluent in an assigned value                                                -> (STATIC_)FLUENTS_IN_{BOOLEAN,NUMERIC,OBJECT}_ASSIGNMENTS
  a fluent in a duration bound; lower != upper                                 -> (STATIC_)FLUENTS_IN_DURATIONS; DURATION_INEQUALITIES
  timed effects / timed goals / durative actions                               -> TIMED_EFFECTS / TIMED_GOALS / CONTINUOUS_TIME or DISCRETE_TIME
  Always(..) constraint / other trajectory operators                           -> STATE_INVARIANTS / TRAJECTORY_CONSTRAINTS
  each quality metric class                                                    -> its QUALITY_METRICS feature
  a ground fluent without initial value (explicit, per-fluent or per-type default) -> UNDEFINED_INITIAL_NUMERIC / _SYMBOLIC
"""
import itertools
import random
import warnings

import unified_planning as up
from unified_planning.model.operators import OperatorKind as OK
from unified_planning.model import (InstantaneousAction, DurativeAction, Problem, MinimizeActionCosts, MinimizeSequentialPlanLength,
                                    MinimizeMakespan, MinimizeExpressionOnFinalState, MaximizeExpressionOnFinalState, Oversubscription,
                                    TemporalOversubscription)
from unified_planning.model.fluent import get_all_fluent_exp

UNITS = []


def ops_of(e, acc=None):
    acc = set() if acc is None else acc
    stack = [e]
    seen = set()
    while stack:
        x = stack.pop()
        if x in seen:
            continue
        seen.add(x)
        acc.add(x.node_type)
        stack.extend(x.args)
    return acc


def fluents_of(e):
    out, stack, seen = [], [e], set()
    while stack:
        x = stack.pop()
        if x in seen:
            continue
        seen.add(x)
        if x.is_fluent_exp():
            out.append(x.fluent())
        stack.extend(x.args)
    return out


class Need:
    def __init__(self):
        self.items = []   # (alternatives tuple, why)

    def add(self, feats, why):
        self.items.append((tuple([feats] if isinstance(feats, str) else feats), why))


def cond_features(e, need, where):
    ops = ops_of(e)
    if OK.NOT in ops:
        need.add("NEGATIVE_CONDITIONS", f"Not in {where}")
    if OK.OR in ops or OK.IMPLIES in ops:
        need.add("DISJUNCTIVE_CONDITIONS", f"Or/Implies in {where}")
    if OK.EQUALS in ops:
        need.add("EQUALITIES", f"Equals in {where}")
    if OK.EXISTS in ops:
        need.add("EXISTENTIAL_CONDITIONS", f"Exists in {where}")
    if OK.FORALL in ops:
        need.add("UNIVERSAL_CONDITIONS", f"Forall in {where}")
    for f in fluents_of(e):
        fluent_use(f, need, where)


def fluent_use(f, need, where):
    t = f.type
    if t.is_int_type():
        need.add("INT_FLUENTS", f"int fluent {f.name} in {where}")
    elif t.is_real_type():
        need.add("REAL_FLUENTS", f"real fluent {f.name} in {where}")
    elif t.is_user_type():
        need.add("OBJECT_FLUENTS", f"object fluent {f.name} in {where}")
    if (t.is_int_type() or t.is_real_type()) and (t.lower_bound is not None or t.upper_bound is not None):
        need.add("BOUNDED_TYPES", f"bounded numeric fluent {f.name} in {where}")


def type_features(t, need, where):
    if t.is_user_type():
        need.add("FLAT_TYPING", f"user type {t.name} ({where})")
        if t.father is not None:
            need.add("HIERARCHICAL_TYPING", f"user type {t.name} with father ({where})")


def effect_features(eff, need, where):
    if eff.is_conditional():
        need.add("CONDITIONAL_EFFECTS", f"conditional effect in {where}")
        cond_features(eff.condition, need, f"effect condition in {where}")
    if eff.is_forall():
        need.add("FORALL_EFFECTS", f"forall effect in {where}")
    if eff.is_increase():
        need.add("INCREASE_EFFECTS", f"increase effect in {where}")
    if eff.is_decrease():
        need.add("DECREASE_EFFECTS", f"decrease effect in {where}")
    fluent_use(eff.fluent.fluent(), need, f"effect target in {where}") if eff.fluent.is_fluent_exp() else None
    fl = fluents_of(eff.value)
    for f in fl:
        fluent_use(f, need, f"effect value in {where}")
    if fl:
        t = eff.fluent.type
        X = "BOOLEAN" if t.is_bool_type() else ("NUMERIC" if (t.is_int_type() or t.is_real_type()) else "OBJECT")
        need.add((f"FLUENTS_IN_{X}_ASSIGNMENTS", f"STATIC_FLUENTS_IN_{X}_ASSIGNMENTS"), f"fluent in the value of an effect on a {X.lower()} fluent in {where}")


def action_features(a, need, prefix=""):
    w = f"{prefix}action {a.name}"
    for p in a.parameters:
        t = p.type
        type_features(t, need, f"parameter {p.name} of {w}")
        if t.is_bool_type():
            need.add("BOOL_ACTION_PARAMETERS", f"bool parameter of {w}")
        elif t.is_real_type():
            need.add("REAL_ACTION_PARAMETERS", f"real parameter of {w}")
        elif t.is_int_type():
            if t.lower_bound is None or t.upper_bound is None:
                need.add("UNBOUNDED_INT_ACTION_PARAMETERS", f"unbounded int parameter of {w}")
            else:
                need.add("BOUNDED_INT_ACTION_PARAMETERS", f"bounded int parameter of {w}")
    if isinstance(a, InstantaneousAction):
        for c in a.preconditions:
            cond_features(c, need, f"precondition of {w}")
        for e in a.effects:
            effect_features(e, need, w)
    elif isinstance(a, DurativeAction):
        need.add(("CONTINUOUS_TIME", "DISCRETE_TIME"), f"durative {w}")
        for i, cl in a.conditions.items():
            for c in cl:
                cond_features(c, need, f"condition of {w}")
        for t, el in a.effects.items():
            for e in el:
                effect_features(e, need, w)
        d = a.duration
        if d.lower != d.upper:
            need.add("DURATION_INEQUALITIES", f"duration of {w}")
        for b in (d.lower, d.upper):
            if fluents_of(b):
                need.add(("FLUENTS_IN_DURATIONS", "STATIC_FLUENTS_IN_DURATIONS"), f"fluent in the duration of {w}")
        for t, el in getattr(a, "continuous_effects", {}).items():
            for e in el:
                need.add("INCREASE_CONTINUOUS_EFFECTS" if e.is_continuous_increase() else "DECREASE_CONTINUOUS_EFFECTS", f"continuous effect of {w}")


TEMPORAL_OPS = {OK.SOMETIME, OK.SOMETIME_BEFORE, OK.SOMETIME_AFTER, OK.AT_MOST_ONCE}


def extract(pr):
    need = Need()
    if isinstance(pr, up.model.multi_agent.MultiAgentProblem):
        for o in pr.all_objects:
            type_features(o.type, need, f"object {o.name}")
        for f in pr.ma_environment.fluents:
            for p in f.signature:
                type_features(p.type, need, f"signature of {f.name}")
        for ag in pr.agents:
            for f in ag.fluents:
                for p in f.signature:
                    type_features(p.type, need, f"signature of {ag.name}.{f.name}")
            for a in ag.actions:
                action_features(a, need, f"{ag.name}.")
        for g in pr.goals:
            cond_features(g, need, "goal")
        return need
    if isinstance(pr, up.model.scheduling.SchedulingProblem):
        return need     # scheduling kinds are computed by a separate factory; not in this extractor
    for o in pr.all_objects:
        type_features(o.type, need, f"object {o.name}")
    for f in pr.fluents:
        type_features(f.type, need, f"type of fluent {f.name}")
        if f.type.is_user_type():
            need.add("OBJECT_FLUENTS", f"object fluent {f.name} declared")
        for p in f.signature:
            type_features(p.type, need, f"signature of {f.name}")
            if p.type.is_bool_type():
                need.add("BOOL_FLUENT_PARAMETERS", f"bool parameter of fluent {f.name}")
            elif p.type.is_int_type():
                need.add("BOUNDED_INT_FLUENT_PARAMETERS", f"int parameter of fluent {f.name}")
    for a in pr.actions:
        action_features(a, need)
    for g in pr.goals:
        cond_features(g, need, "goal")
    if pr.timed_effects:
        need.add("TIMED_EFFECTS", "timed effects")
        need.add(("CONTINUOUS_TIME", "DISCRETE_TIME"), "timed effects")
        for t, el in pr.timed_effects.items():
            for e in el:
                effect_features(e, need, "timed effect")
    if pr.timed_goals:
        need.add("TIMED_GOALS", "timed goals")
        need.add(("CONTINUOUS_TIME", "DISCRETE_TIME"), "timed goals")
        for i, gl in pr.timed_goals.items():
            for g in gl:
                cond_features(g, need, "timed goal")
    for tc in pr.trajectory_constraints:
        ops = ops_of(tc)
        if ops & TEMPORAL_OPS:
            need.add("TRAJECTORY_CONSTRAINTS", "trajectory constraint with sometime / at-most-once / sometime-before / sometime-after")
        elif OK.ALWAYS in ops:
            need.add(("STATE_INVARIANTS", "TRAJECTORY_CONSTRAINTS"), "always constraint")
        cond_features(tc, need, "trajectory constraint")
    for m in pr.quality_metrics:
        if isinstance(m, MinimizeActionCosts):
            need.add("ACTIONS_COST", "MinimizeActionCosts")
        elif isinstance(m, (MinimizeExpressionOnFinalState, MaximizeExpressionOnFinalState)):
            need.add("FINAL_VALUE", "final-value metric")
        elif isinstance(m, MinimizeMakespan):
            need.add("MAKESPAN", "MinimizeMakespan")
        elif isinstance(m, MinimizeSequentialPlanLength):
            need.add("PLAN_LENGTH", "MinimizeSequentialPlanLength")
        elif isinstance(m, TemporalOversubscription):
            need.add("TEMPORAL_OVERSUBSCRIPTION", "TemporalOversubscription")
        elif isinstance(m, Oversubscription):
            need.add("OVERSUBSCRIPTION", "Oversubscription")
    # undefined initial values
    try:
        explicit = pr.explicit_initial_values
        for f in pr.fluents:
            if f in pr.fluents_defaults:
                continue
            n = 0
            for fe in get_all_fluent_exp(pr, f):
                n += 1
                if n > 200:
                    break
                if fe not in explicit:
                    need.add("UNDEFINED_INITIAL_NUMERIC" if (f.type.is_int_type() or f.type.is_real_type()) else "UNDEFINED_INITIAL_SYMBOLIC",
                             f"{f.name} has a ground instance without initial value")
                    break
    except Exception:  # noqa
        pass
    if isinstance(pr, up.model.htn.HierarchicalProblem):
        for mth in pr.methods:
            for c in mth.preconditions:
                cond_features(c, need, f"precondition of method {mth.name}")
    return need


def check(pr, label, failures, stats):
    with warnings.catch_warnings():
        warnings.simplefilter("ignore")
        try:
            kind = pr.kind
        except Exception as ex:  # noqa
            failures.append({"what": f"computing the kind raises {type(ex).__name__}", "concrete": label, "observed": str(ex)[:200]})
            return
        feats = set(kind.features)
        need = extract(pr)
    for alts, why in need.items:
        stats["n"] += 1
        stats["distinct"].add(alts[0])
        if not any(a in feats for a in alts):
            failures.append({"what": f"kind lacks {' or '.join(alts)} [{why.split(' in ')[0].split(' of ')[0][:40]}]", "concrete": label,
                             "observed": f"{why}; kind features: {sorted(feats)}"})


def corpus():
    out = []
    try:
        from unified_planning.test.examples import get_example_problems
        with warnings.catch_warnings():
            warnings.simplefilter("ignore")
            for name, ex in get_example_problems().items():
                out.append((f"example:{name}", ex.problem))
    except Exception:  # noqa
        pass
    return out


def bounded(tier, seed):
    from rtc.gen import Gen
    from rtc.tgen import TGen
    from contracts import c22
    n = 150 if tier == "quick" else 2500
    failures, stats = [], {"n": 0, "distinct": set()}
    nprob = 0
    for label, pr in corpus():
        check(pr, {"source": label}, failures, stats)
        nprob += 1
    with warnings.catch_warnings():
        warnings.simplefilter("ignore")
        for i in range(n):
            s = seed * 100003 + i
            try:
                pr = Gen(s, {"trajectory": 0.4, "undefined": 0.3, "hierarchy": 0.5}).problem()
                check(pr, {"source": "rtc.gen", "seed": s}, failures, stats)
                nprob += 1
            except Exception:  # noqa
                pass
            if i % 3 == 0:
                try:
                    pr = TGen(s).problem()
                    if isinstance(pr, tuple):
                        pr = pr[0]
                    check(pr, {"source": "rtc.tgen", "seed": s}, failures, stats)
                    nprob += 1
                except Exception:  # noqa
                    pass
            if i % 5 == 0:
                for kind in ("problem", "contingent", "htn", "ma"):
                    pr, _ = c22.build(kind, random.Random(s))
                    check(pr, {"source": f"c22.build:{kind}", "seed": s}, failures, stats)
                    nprob += 1
            if len(failures) > 30:
                break
    seen, out = set(), []
    for f in failures:
        if f["what"] in seen:
            continue
        seen.add(f["what"])
        out.append(f)
    return {"evaluations": stats["n"], "distinct_nontrivial": len(stats["distinct"]), "failures": out[:12],
            "rule": f"{nprob} problems (example corpus + rtc.gen sequential + rtc.tgen temporal + contingent/hierarchical/multi-agent builders); "
                    f"evaluation = one (construct, required feature) pair; non-trivial = distinct feature demanded",
            "samples": [{"features_demanded": sorted(stats["distinct"])}], "bound": f"{n} seeds + corpus"}


def replay_file(data):
    c = data.get("concrete") or {}
    failures, stats = [], {"n": 0, "distinct": set()}
    src = c.get("source", "")
    pr = None
    if src.startswith("example:"):
        pr = dict(corpus()).get(src)
    elif src == "rtc.gen":
        from rtc.gen import Gen
        pr = Gen(c["seed"], {"trajectory": 0.4, "undefined": 0.3, "hierarchy": 0.5}).problem()
    elif src == "rtc.tgen":
        from rtc.tgen import TGen
        pr = TGen(c["seed"]).problem()
        pr = pr[0] if isinstance(pr, tuple) else pr
    elif src.startswith("c22.build:"):
        from contracts import c22
        pr, _ = c22.build(src.split(":")[1], random.Random(c["seed"]))
    if pr is None:
        return {"reproduced": False, "concrete": c, "observed": "source not found"}
    check(pr, c, failures, stats)
    return {"reproduced": bool(failures), "concrete": c, "observed": [f["what"] for f in failures][:5]}


LEVEL = "exploration"
EXPLANATION = __doc__
TRUSTED = ["bounded stand-in only: _KindFactory (450 lines of feature bookkeeping over walkers) is not under a deductive contract",
           "the extractor's reading of 'syntactically uses' (conservative: Iff is not counted as disjunctive; unused fluents demand nothing)"]
USES_THEORY = False

"""C10 — the problem kind reports every feature the problem uses.

Proved (pyvc, every run): the per-construct updaters of `_KindFactory` (update_problem_kind_expression / _type / _effect /
_fluent, update_action_parameter) record the feature the table below demands, for every input (UNITS below).

Bounded run-time contract for everything else (the traversal applying the updaters, duration / metric / initial-state
updaters, subclass kind factories): an independent syntactic feature extractor (spec below, written from the property statement,
not from _KindFactory) is run on generated problems of every class and on the example corpus; every feature it finds must
be in `problem.kind.features`.  The extractor is deliberately conservative (demands a feature only when the construct is
syntactically present in a place an engine must interpret; where the library distinguishes a STATIC_ variant either is
accepted), so a finding is a construct the kind does not report.

Spec (construct -> feature):
  user type anywhere (objects, fluent types/signatures, action parameters)     -> FLAT_TYPING; with a father -> HIERARCHICAL_TYPING
  int/real/object fluent read or written in a condition, effect or goal        -> INT_FLUENTS / REAL_FLUENTS / OBJECT_FLUENTS
  such a numeric fluent with a bound                                           -> BOUNDED_TYPES
  bool / int fluent parameter; bool / bounded int / unbounded int / real action parameter -> the *_PARAMETERS features
  Not / Or, Implies / Equals / Exists / Forall in a precondition, durative condition, effect condition, goal,
  timed goal or trajectory constraint                                          -> NEGATIVE_ / DISJUNCTIVE_ / EQUALITIES / EXISTENTIAL_ / UNIVERSAL_
  conditional / forall / increase / decrease effect, continuous effects        -> *_EFFECTS
  a fluent in an assigned value                                                -> (STATIC_)FLUENTS_IN_{BOOLEAN,NUMERIC,OBJECT}_ASSIGNMENTS
  a fluent in a duration bound; lower != upper                                 -> (STATIC_)FLUENTS_IN_DURATIONS; DURATION_INEQUALITIES
  timed effects / timed goals / durative actions                               -> TIMED_EFFECTS / TIMED_GOALS / CONTINUOUS_TIME or DISCRETE_TIME
  Always(..) constraint / other trajectory operators                           -> STATE_INVARIANTS / TRAJECTORY_CONSTRAINTS
  each quality metric class                                                    -> its QUALITY_METRICS feature
  a ground fluent without initial value (explicit, per-fluent or per-type default) -> UNDEFINED_INITIAL_NUMERIC / _SYMBOLIC
"""
import itertools
import random
import warnings

import unified_planning as up
from unified_planning.model.operators import OperatorKind as OK
from unified_planning.model import (InstantaneousAction, DurativeAction, Problem, MinimizeActionCosts, MinimizeSequentialPlanLength,
                                    MinimizeMakespan, MinimizeExpressionOnFinalState, MaximizeExpressionOnFinalState, Oversubscription,
                                    TemporalOversubscription)
from unified_planning.model.fluent import get_all_fluent_exp

# ------------------------------------------------------------------------------------------------ proved kernels
# The per-construct updaters of _KindFactory on the real source: the kind is a recorder of set_*/unset_* calls, the
# constructs (operator set of an expression, type predicates, effect predicates) are uninterpreted; the post-condition
# is the construct -> feature table of the module docstring, for every input.
import z3
from pyvc.values import Bool as PBool, Int as PInt
from pyvc.values import Ref, Seq, Map, Set, Opt, Enum, SBool, SRef, fresh_name, to_z3  # explicit: a star import would shadow the shortcuts' And/Or/Not
from pyvc.values import Rec, ExcVal, SUnion, Loc
from pyvc.verify import Unit
from pyvc.engine import LoopSpec, OPAQUE
from pyvc import builtins as B
import unified_planning.model.problem as _pm

KindRec = Ref("KindRecorder")
OpSet = Ref("OperatorSet")
FNode10 = Ref("FNode10")
Type10 = Ref("Type10")
Fluent10 = Ref("Fluent10")
Param10 = Ref("Param10")
Effect10 = Ref("Effect10")
Var10 = Ref("Variable10")
OKE = Enum(OK)


def _p(t, name, *argsorts):
    return B._uf(f"{t.name}.{name}()", t.z3sort(), *argsorts, z3.BoolSort())


def _install(eng):
    eng.partial_classes.add(_pm._KindFactory)
    for m in ("set_typing", "set_parameters", "set_effects_kind", "set_conditions_kind", "set_fluents_type", "set_numbers", "set_problem_type",
              "set_time", "set_expression_duration", "set_simulated_entities", "set_quality_metrics", "set_problem_class", "set_initial_state", "set_constraints_kind"):
        KindRec.methods[m] = (lambda e, st, selfv, a, k: (_log(st, "set", a[0]), iter([(st, None)]))[1])
    for m in ("unset_problem_type", "unset_time", "unset_effects_kind"):
        KindRec.methods[m] = (lambda e, st, selfv, a, k: (_log(st, "unset", a[0]), iter([(st, None)]))[1])
    OpSet.methods["__contains__"] = lambda e, st, selfv, a, k: iter([(st, SBool(B._uf("OperatorSet.has", OpSet.z3sort(), OKE.z3sort(), z3.BoolSort())(selfv.z, to_z3(a[0], OKE))))])
    for n in ("is_user_type", "is_bool_type", "is_int_type", "is_real_type"):
        Type10.observers[n] = ((), PBool)
    Type10.fields["father"] = Opt(Type10)
    Type10.fields["lower_bound"] = Opt(PInt)
    Type10.fields["upper_bound"] = Opt(PInt)
    Param10.fields["type"] = Type10
    Fluent10.fields["type"] = Type10
    Fluent10.fields["signature"] = Seq(Param10)
    FNode10.fields["type"] = Type10
    for n in ("is_int_constant", "is_real_constant", "is_constant"):
        FNode10.observers[n] = ((), PBool)
    FNode10.observers["constant_value"] = ((), PInt)
    FNode10.observers["fluent"] = ((), Fluent10)
    Effect10.fields["value"] = FNode10
    Effect10.fields["fluent"] = FNode10
    Effect10.fields["condition"] = FNode10
    Effect10.fields["forall"] = Seq(Var10)
    Var10.fields["type"] = Type10
    for n in ("is_conditional", "is_forall", "is_increase", "is_decrease", "is_assignment", "is_continuous_increase", "is_continuous_decrease"):
        Effect10.observers[n] = ((), PBool)
    Type10.pycls = object
    Type10.isinstance_hook = lambda e, st, v, clss: True     # `assert isinstance(numeric_type, (_RealType, _IntType))` after the is_*_type test


def _log(st, what, name, guard=None):
    st.ghost["log"] = st.ghost.get("log", []) + [(what, name, guard if guard is not None else z3.BoolVal(True))]


def _present(st, name):
    """symbolic membership of a feature after the recorded sequence of (guarded) set / unset calls"""
    cur = z3.BoolVal(False)
    for what, n, g in st.ghost.get("log", []):
        if n != name:
            continue
        cur = z3.Or(cur, g) if what == "set" else z3.And(cur, z3.Not(g))
    return cur


def _expr_contract(e_, st, args, kw):
    """contract of update_problem_kind_expression (proved as its own unit): guarded sets per operator of the expression"""
    exp = args[1]
    for kind, feat in ((OK.EQUALS, "EQUALITIES"), (OK.NOT, "NEGATIVE_CONDITIONS"), (OK.OR, "DISJUNCTIVE_CONDITIONS"), (OK.IMPLIES, "DISJUNCTIVE_CONDITIONS"),
                       (OK.EXISTS, "EXISTENTIAL_CONDITIONS"), (OK.FORALL, "UNIVERSAL_CONDITIONS")):
        _log(st, "set", feat, _has_op(exp, kind))
    _log(st, "unset", "SIMPLE_NUMERIC_PLANNING", z3.Bool(fresh_name("nonlinear")))
    _log(st, "set", "INTERPRETED_FUNCTIONS_IN_CONDITIONS", _has_op(exp, OK.INTERPRETED_FUNCTION_EXP))
    yield st, None


def _factory(eng, st, extra=None):
    ops_ext = Ref("OperatorsExtractor10")
    ops_ext.methods["get"] = lambda e, s, selfv, a, k: iter([(s, _ops_of(s, a[0]))])
    lin = Ref("LinearChecker10")
    lin.methods["get_fluents"] = lambda e, s, selfv, a, k: iter([(s, (PBool.fresh("is_linear"), OPAQUE, OPAQUE))])
    fve = Ref("FreeVarsExtractor10")
    fve.methods["get"] = lambda e, s, selfv, a, k: iter([(s, _fluents_in(e, s, a[0]))])
    envr = Ref("Environment10", fields={"free_vars_extractor": fve})
    fields = {"kind": KindRec.fresh("kind"), "operators_extractor": ops_ext.fresh("oe"), "linear_checker": lin.fresh("lc"), "environment": envr.fresh("env")}
    for n, t in (("static_fluents", Fluent10), ("unused_fluents", Fluent10), ("fluents_in_durations", Fluent10), ("fluents_in_action_costs", Fluent10),
                 ("fluents_to_only_increase", FNode10), ("fluents_to_only_decrease", FNode10)):
        fields[n] = st.alloc(eng.fresh_of(st, Set(t), n), "set")
    fields.update(extra or {})
    return st.alloc(Rec(_pm._KindFactory, fields), "factory")


def _ops_of(st, e):
    return SRef(OpSet, B._uf("FNode10.ops", FNode10.z3sort(), OpSet.z3sort())(e.z))


def _fluents_in(eng, st, e):
    return B.uf_value(eng, st, "FNode10.free_fluents", [e.z], [FNode10.z3sort()], Set(FNode10))


def _has_op(e, kind):
    ops = B._uf("FNode10.ops", FNode10.z3sort(), OpSet.z3sort())(e.z)
    return B._uf("OperatorSet.has", OpSet.z3sort(), OKE.z3sort(), z3.BoolSort())(ops, OKE.consts[kind])


def replay_duration_clause(obligation):
    """several directed shapes per clause (a bound reading one fluent / a static and a non-static one together); reproduced if any shape fails"""
    last = None
    for variant in (0, 1):
        r = _replay_duration_clause(obligation, variant)
        if r is None:
            return last
        last = r
        if r["reproduced"]:
            return r
    return last


def _replay_duration_clause(obligation, variant):
    from fractions import Fraction
    from unified_planning.shortcuts import Plus
    from unified_planning.shortcuts import Problem, Fluent, IntType, DurativeAction, InstantaneousAction, Int, Real, StartTiming
    from unified_planning.model.timing import DurationInterval
    clause, feats = obligation.split(" -> ", 1)
    clause = clause.rsplit(":", 1)[-1].strip()
    alts = [a.strip() for a in feats.split(" or ")]
    which = "lower" if clause.startswith("lower") else "upper" if clause.startswith("upper") else None
    pr = Problem("replay_duration")
    ds, dd = Fluent("d_static", IntType(1, 9)), Fluent("d_dynamic", IntType(1, 9))
    pr.add_fluent(ds, default_initial_value=2)
    pr.add_fluent(dd, default_initial_value=2)
    bump = InstantaneousAction("bump")
    bump.add_effect(dd, 3)
    pr.add_action(bump)
    if clause == "different bounds":
        lo, hi = Int(2), Int(5)
    elif which is None:
        return None
    else:
        if "integer type" in clause:
            mine, other = (Int(2), Real(Fraction(7, 2))) if which == "lower" else (Int(5), Real(Fraction(1, 2)))
        elif "real type" in clause:
            mine, other = (Real(Fraction(1, 2)), Int(5)) if which == "lower" else (Real(Fraction(7, 2)), Int(2))
        elif "static fluent" in clause:
            mine, other = (ds() if variant == 0 else Plus(ds(), dd())), Int(50)
        elif "not static" in clause or "reads a fluent" in clause:
            mine, other = (dd() if variant == 0 else Plus(dd(), ds())), Int(50)
        else:
            return None          # interpreted functions: no native family here
        lo, hi = (mine, other) if which == "lower" else (other, mine)
    act = DurativeAction("work")
    em = pr.environment.expression_manager
    act.set_duration_constraint(DurationInterval(em.auto_promote(lo)[0], em.auto_promote(hi)[0]))
    pr.add_action(act)
    feats_now = set(pr.kind.features)
    missing = not any(a in feats_now for a in alts)
    return {"reproduced": bool(missing), "concrete": {"duration": f"[{lo}, {hi}]", "clause": clause, "expected_one_of": alts},
            "observed": sorted(f for f in feats_now if "DURATION" in f)}


class KindUnit(Unit):
    prop = "C10"
    allowed_raises = ()

    def __init__(self, meth, mk_arg, table, doc):
        self.meth, self.mk_arg, self.table = meth, mk_arg, table
        self.name = f"_KindFactory.{meth}"
        self.doc = doc

    def target(self):
        return getattr(_pm._KindFactory, self.meth)

    def configure(self, eng):
        _install(eng)
        eng.assert_raises = False
        if self.meth != "update_problem_kind_expression":
            eng.contracts[_pm._KindFactory.update_problem_kind_expression] = _expr_contract
        # loops over parameters / quantified variables only *set* features (census below): cut with a trivial invariant
        true_inv = lambda L: SBool(z3.BoolVal(True))  # noqa
        eng.loops[("unified_planning.model.problem._KindFactory.update_problem_kind_fluent", 0)] = LoopSpec(true_inv)
        eng.loops[("unified_planning.model.problem._KindFactory.update_problem_kind_effect", 0)] = LoopSpec(true_inv)

    def setup(self, eng, st):
        fac = _factory(eng, st)
        arg = self.mk_arg(eng, st)
        return [fac, arg], {}, dict(arg=arg, fac=fac)

    replay_without_model = True      # the native replay is chosen by the clause the obligation names, not by the solver's model

    def replay(self, ctx, model, obligation):
        """update_action_duration only: the clause named by the obligation is tried natively on a real durative action whose duration
        interval has the named shape (the solver's candidate model is not needed to choose it)"""
        if self.meth != "update_action_duration" or " -> " not in obligation:
            return None
        return replay_duration_clause(obligation)

    def post(self, eng, ctx, st, out):
        if out[0] != "return":
            return
        for label, cond, alts in self.table(eng, st, ctx["arg"], ctx):
            st.oblige(f"{label} -> {' or '.join(alts)}", z3.Implies(cond, z3.Or([_present(st, a) for a in alts])))


def _t_expr(eng, st, e, ctx):
    yield "Equals", _has_op(e, OK.EQUALS), ["EQUALITIES"]
    yield "Not", _has_op(e, OK.NOT), ["NEGATIVE_CONDITIONS"]
    yield "Or", _has_op(e, OK.OR), ["DISJUNCTIVE_CONDITIONS"]
    yield "Implies", _has_op(e, OK.IMPLIES), ["DISJUNCTIVE_CONDITIONS"]
    yield "Exists", _has_op(e, OK.EXISTS), ["EXISTENTIAL_CONDITIONS"]
    yield "Forall", _has_op(e, OK.FORALL), ["UNIVERSAL_CONDITIONS"]


def _tp(t, n):
    return _p(Type10, n)(t)


def _t_type(eng, st, t, ctx):
    isnone = B._uf("Type10.father.isnone", Type10.z3sort(), z3.BoolSort())(t.z)
    yield "user type", _tp(t.z, "is_user_type"), ["FLAT_TYPING"]
    yield "user type with a father", z3.And(_tp(t.z, "is_user_type"), z3.Not(isnone)), ["HIERARCHICAL_TYPING"]


def _t_param(eng, st, p, ctx):
    t = B._uf("Param10.type", Param10.z3sort(), Type10.z3sort())(p.z)
    lbn = B._uf("Type10.lower_bound.isnone", Type10.z3sort(), z3.BoolSort())(t)
    ubn = B._uf("Type10.upper_bound.isnone", Type10.z3sort(), z3.BoolSort())(t)
    b, r, i, u = (_tp(t, n) for n in ("is_bool_type", "is_real_type", "is_int_type", "is_user_type"))
    # the type predicates are mutually exclusive (one concrete Type class each): precondition of the table
    excl = z3.And(z3.Not(z3.And(b, r)), z3.Not(z3.And(b, i)), z3.Not(z3.And(r, i)))
    yield "bool parameter", z3.And(excl, b), ["BOOL_ACTION_PARAMETERS"]
    yield "real parameter", z3.And(excl, r), ["REAL_ACTION_PARAMETERS"]
    yield "int parameter without a bound", z3.And(excl, i, z3.Or(lbn, ubn)), ["UNBOUNDED_INT_ACTION_PARAMETERS"]
    yield "int parameter with both bounds", z3.And(excl, i, z3.Not(lbn), z3.Not(ubn)), ["BOUNDED_INT_ACTION_PARAMETERS"]
    yield "user-typed parameter", u, ["FLAT_TYPING"]


def _t_effect(eng, st, e, ctx):
    o = lambda n: _p(Effect10, n)(e.z)  # noqa
    yield "conditional effect", o("is_conditional"), ["CONDITIONAL_EFFECTS"]
    yield "forall effect", o("is_forall"), ["FORALL_EFFECTS"]
    yield "increase effect", o("is_increase"), ["INCREASE_EFFECTS"]
    yield "decrease effect", z3.And(o("is_decrease"), z3.Not(o("is_increase"))), ["DECREASE_EFFECTS"]
    val = B._uf("Effect10.value", Effect10.z3sort(), FNode10.z3sort())(e.z)
    vt = B._uf("FNode10.type", FNode10.z3sort(), Type10.z3sort())(val)
    has = B._uf("FNode10.free_fluents.has", FNode10.z3sort(), z3.ArraySort(FNode10.z3sort(), z3.BoolSort()))(val)
    x = z3.Const(fresh_name("x"), FNode10.z3sort())
    nonempty = z3.Exists([x], z3.Select(has, x))
    plain = z3.And(o("is_assignment"), z3.Not(o("is_increase")), z3.Not(o("is_decrease")))
    num = z3.Or(_tp(vt, "is_int_type"), _tp(vt, "is_real_type"))
    yield "assignment whose numeric value reads a fluent", z3.And(plain, num, nonempty), ["FLUENTS_IN_NUMERIC_ASSIGNMENTS", "STATIC_FLUENTS_IN_NUMERIC_ASSIGNMENTS"]
    yield "assignment whose Boolean value reads a fluent", z3.And(plain, z3.Not(num), _tp(vt, "is_bool_type"), nonempty), ["FLUENTS_IN_BOOLEAN_ASSIGNMENTS", "STATIC_FLUENTS_IN_BOOLEAN_ASSIGNMENTS"]
    yield "assignment whose object value reads a fluent", z3.And(plain, z3.Not(num), z3.Not(_tp(vt, "is_bool_type")), _tp(vt, "is_user_type"), nonempty),\
        ["FLUENTS_IN_OBJECT_ASSIGNMENTS", "STATIC_FLUENTS_IN_OBJECT_ASSIGNMENTS"]
    isconst = z3.Or(_p(FNode10, "is_int_constant")(val), _p(FNode10, "is_real_constant")(val))
    yield "increase by a non-constant value that reads a fluent", z3.And(o("is_increase"), z3.Not(isconst), nonempty), ["FLUENTS_IN_NUMERIC_ASSIGNMENTS", "STATIC_FLUENTS_IN_NUMERIC_ASSIGNMENTS"]
    cond = B._uf("Effect10.condition", Effect10.z3sort(), FNode10.z3sort())(e.z)
    yield "Not in the condition of a conditional effect", z3.And(o("is_conditional"), _has_op(SRef(FNode10, cond), OK.NOT)), ["NEGATIVE_CONDITIONS"]
    yield "Or in the condition of a conditional effect", z3.And(o("is_conditional"), _has_op(SRef(FNode10, cond), OK.OR)), ["DISJUNCTIVE_CONDITIONS"]


def _t_fluent(eng, st, f, ctx):
    t = B._uf("Fluent10.type", Fluent10.z3sort(), Type10.z3sort())(f.z)
    b, r, i, u = (_tp(t, n) for n in ("is_bool_type", "is_real_type", "is_int_type", "is_user_type"))
    excl = z3.And(z3.Not(z3.And(u, r)), z3.Not(z3.And(u, i)), z3.Not(z3.And(r, i)))
    unused = st.load(st.getfield(ctx["fac"], "unused_fluents")).contains(f).z
    lbn = B._uf("Type10.lower_bound.isnone", Type10.z3sort(), z3.BoolSort())(t)
    ubn = B._uf("Type10.upper_bound.isnone", Type10.z3sort(), z3.BoolSort())(t)
    yield "object fluent", z3.And(excl, u), ["OBJECT_FLUENTS"]
    yield "object fluent's type", z3.And(excl, u), ["FLAT_TYPING"]
    yield "used int fluent", z3.And(excl, i, z3.Not(unused)), ["INT_FLUENTS"]
    yield "used real fluent", z3.And(excl, r, z3.Not(unused)), ["REAL_FLUENTS"]
    yield "numeric fluent with a bound", z3.And(excl, z3.Or(i, r), z3.Or(z3.Not(lbn), z3.Not(ubn))), ["BOUNDED_TYPES"]


Duration10 = Ref("Duration10", fields={"lower": FNode10, "upper": FNode10})


def _opset_or(e, st, selfv, a, k):
    """union of two operator sets: membership is the disjunction"""
    has = B._uf("OperatorSet.has", OpSet.z3sort(), OKE.z3sort(), z3.BoolSort())
    r = OpSet.fresh("ops_union")
    kk = z3.Const(fresh_name("ok"), OKE.z3sort())
    st.assume(z3.ForAll([kk], has(r.z, kk) == z3.Or(has(selfv.z, kk), has(a[0].z, kk))))
    yield st, r


OpSet.methods["__or__"] = _opset_or


def _reads_fluent(e):
    has = B._uf("FNode10.free_fluents.has", FNode10.z3sort(), z3.ArraySort(FNode10.z3sort(), z3.BoolSort()))(e)
    x = z3.Const(fresh_name("x"), FNode10.z3sort())
    return z3.Exists([x], z3.Select(has, x))


def _mk_duration(eng, st):
    """a well-formed duration interval: both bounds are numeric expressions (DurationInterval's constructor checks it)"""
    d = Duration10.fresh("duration")
    for nm in ("lower", "upper"):
        b = B._uf(f"Duration10.{nm}", Duration10.z3sort(), FNode10.z3sort())(d.z)
        t = B._uf("FNode10.type", FNode10.z3sort(), Type10.z3sort())(b)
        st.assume(z3.Or(_tp(t, "is_int_type"), _tp(t, "is_real_type")))
    return d


def _t_duration(eng, st, d, ctx):
    lo = B._uf("Duration10.lower", Duration10.z3sort(), FNode10.z3sort())(d.z)
    up_ = B._uf("Duration10.upper", Duration10.z3sort(), FNode10.z3sort())(d.z)
    for nm, b in (("lower", lo), ("upper", up_)):
        t = B._uf("FNode10.type", FNode10.z3sort(), Type10.z3sort())(b)
        yield f"{nm} bound of integer type", _tp(t, "is_int_type"), ["INT_TYPE_DURATIONS"]
        yield f"{nm} bound of real type", z3.And(z3.Not(_tp(t, "is_int_type")), _tp(t, "is_real_type")), ["REAL_TYPE_DURATIONS"]
        yield f"{nm} bound calls an interpreted function", _has_op(SRef(FNode10, b), OK.INTERPRETED_FUNCTION_EXP), ["INTERPRETED_FUNCTIONS_IN_DURATIONS"]
        yield f"{nm} bound reads a fluent", _reads_fluent(b), ["FLUENTS_IN_DURATIONS", "STATIC_FLUENTS_IN_DURATIONS"]
        static = st.load(st.getfield(ctx["fac"], "static_fluents"))
        has = B._uf("FNode10.free_fluents.has", FNode10.z3sort(), z3.ArraySort(FNode10.z3sort(), z3.BoolSort()))(b)
        fl = B._uf("FNode10.fluent()", FNode10.z3sort(), Fluent10.z3sort())
        x = z3.Const(fresh_name("x"), FNode10.z3sort())
        yield f"{nm} bound reads a static fluent", z3.Exists([x], z3.And(z3.Select(has, x), z3.Select(static.has, fl(x)))), ["STATIC_FLUENTS_IN_DURATIONS"]
        yield f"{nm} bound reads a fluent that is not static", z3.Exists([x], z3.And(z3.Select(has, x), z3.Not(z3.Select(static.has, fl(x))))), ["FLUENTS_IN_DURATIONS"]
    yield "different bounds", lo != up_, ["DURATION_INEQUALITIES"]


P_UNITS = [
    KindUnit("update_action_duration", lambda eng, st: _mk_duration(eng, st), _t_duration, "duration interval -> time / expression-duration features (both bounds)"),
    KindUnit("update_problem_kind_expression", lambda eng, st: FNode10.fresh("exp"), _t_expr, "operator of a condition -> conditions-kind feature"),
    KindUnit("update_problem_kind_type", lambda eng, st: Type10.fresh("type"), _t_type, "user type -> typing features"),
    KindUnit("update_action_parameter", lambda eng, st: Param10.fresh("param"), _t_param, "action parameter type -> parameters feature"),
    KindUnit("update_problem_kind_effect", lambda eng, st: Effect10.fresh("effect"), _t_effect, "effect kind / condition -> effects-kind features"),
    KindUnit("update_problem_kind_fluent", lambda eng, st: Fluent10.fresh("fluent"), _t_fluent, "fluent type -> fluents-type / numbers / typing features"),
]
# ------------------------------------------------------------------------------------------------ traversal units
# Problem._kind_factory and _KindFactory.update_problem_kind_action (instantaneous actions): every element of the problem / action is
# handed to the updater proved above (ghost sets record what each updater was called on), for collections of any size.
Action10 = Ref("Action10", _pm.InstantaneousAction)
Process10, Event10, Timing10, Interval10 = Ref("Process10"), Ref("Event10"), Ref("Timing10"), Ref("Interval10")
EffList10, GoalList10 = Ref("EffectList10"), Ref("GoalList10")
EffList10.iter_items = Effect10
GoalList10.iter_items = FNode10
SimEff10 = Ref("SimulatedEffect10")
is_sensing = B._uf("Action10.is_sensing", Action10.z3sort(), z3.BoolSort())
GHOSTS = {"_g_params": Param10, "_g_exprs": FNode10, "_g_effects": Effect10, "_g_actions": Action10, "_g_processes": Process10, "_g_events": Event10}
Action10.fields.update({"parameters": Seq(Param10), "preconditions": Seq(FNode10), "effects": Seq(Effect10), "simulated_effect": Opt(SimEff10)})


def _action_isinstance(eng, st, v, clss):
    import unified_planning.model.contingent as _ct
    import unified_planning.model.mixins as _mx2
    names = {getattr(c, "__name__", "") for c in clss}
    if names == {"SensingAction"}:
        return SBool(is_sensing(v.z))
    if names == {"MotionConstraintsSetMixin"} or names == {"DurativeAction"}:
        return False
    if names == {"InstantaneousAction"}:
        return True
    raise Unsupported(f"isinstance(action, {names})")


Action10.isinstance_hook = _action_isinstance


def _ghost_add(field):
    def c(eng, st, args, kw):
        fac, x = args[0], args[1]
        loc = st.getfield(fac, field)
        st.store(loc, st.load(loc).add(x))
        yield st, None
    return c


def _traversal_factory(eng, st):
    extra = {g: st.alloc(SSet.empty(t), "set") for g, t in GHOSTS.items()}
    return _factory(eng, st, extra)


from pyvc.values import SSet, SSeq, Unsupported, zint  # noqa: E402


def _all_in(seq, sset):
    j = z3.Int(fresh_name("j"))
    return z3.ForAll([j], z3.Implies(z3.And(0 <= j, j < seq.n), z3.Select(sset.has, z3.Select(seq.arr, j))))


class ActionTraversal(Unit):
    prop = "C10"
    name = "_KindFactory.update_problem_kind_action (instantaneous)"
    doc = "every parameter, precondition and effect of the action is handed to its updater; sensing -> CONTINGENT; simulated effect -> SIMULATED_EFFECTS"

    def target(self):
        return _pm._KindFactory.update_problem_kind_action

    def configure(self, eng):
        _install(eng)
        eng.contracts[_pm._KindFactory.update_action_parameter] = _ghost_add("_g_params")
        eng.contracts[_pm._KindFactory.update_problem_kind_expression] = _ghost_add("_g_exprs")
        eng.contracts[_pm._KindFactory.update_problem_kind_effect] = _ghost_add("_g_effects")
        QNA = "unified_planning.model.problem._KindFactory.update_problem_kind_action"

        def mk(field):
            def inv(L):
                return [(f"the scanned prefix was handed to the updater ({field})", _all_in_prefix(L._seq, zint(L._i), L.st.load(L.st.getfield(L.self, field))))]
            return inv
        eng.loops[(QNA, 0)] = LoopSpec(mk("_g_params"), modifies=["param", "self._g_params"], types={"self._g_params": Set(Param10)})
        eng.loops[(QNA, 1)] = LoopSpec(mk("_g_exprs"), modifies=["c", "self._g_exprs"], types={"self._g_exprs": Set(FNode10)})
        eng.loops[(QNA, 2)] = LoopSpec(mk("_g_effects"), modifies=["e", "self._g_effects"], types={"self._g_effects": Set(Effect10)})

    def setup(self, eng, st):
        fac = _traversal_factory(eng, st)
        a = Action10.fresh("action")
        return [fac, a], {}, dict(fac=fac, a=a)

    def post(self, eng, ctx, st, out):
        if out[0] != "return":
            return
        fac, a = ctx["fac"], ctx["a"]
        g = lambda f: st.load(st.getfield(fac, f))   # noqa: E731
        for fld, gh in (("parameters", "_g_params"), ("preconditions", "_g_exprs"), ("effects", "_g_effects")):
            seq = B.field_uf(eng, st, a, fld)
            st.oblige(f"every element of action.{fld} was handed to its updater", _all_in(seq, g(gh)))
        st.oblige("sensing action -> CONTINGENT", z3.Implies(is_sensing(a.z), _present(st, "CONTINGENT")))
        se_none = B._uf("Action10.simulated_effect.isnone", Action10.z3sort(), z3.BoolSort())(a.z)
        st.oblige("simulated effect -> SIMULATED_EFFECTS", z3.Implies(z3.Not(se_none), _present(st, "SIMULATED_EFFECTS")))


def _all_in_prefix(seq, i, sset):
    j = z3.Int(fresh_name("j"))
    return z3.ForAll([j], z3.Implies(z3.And(0 <= j, j < i), z3.Select(sset.has, z3.Select(seq.arr, j))))


class ProblemTraversal(Unit):
    prop = "C10"
    name = "Problem._kind_factory"
    doc = ("every action, process, event, timed effect, trajectory constraint, timed goal and goal of the problem is handed to its updater; "
           "non-empty timed effects / timed goals / processes / events set their time features; Always -> STATE_INVARIANTS, other constraints -> TRAJECTORY_CONSTRAINTS")

    def target(self):
        return _pm.Problem._kind_factory

    def configure(self, eng):
        _install(eng)
        eng.partial_classes.add(_pm.Problem)

        def new_factory(eng_, st, args, kw):
            fac = _traversal_factory(eng_, st)
            st.ghost["factory"] = fac
            yield st, fac
        eng.contracts[_pm._KindFactory] = new_factory
        eng.contracts[_pm._KindFactory.update_problem_kind_action] = _ghost_add("_g_actions")
        eng.contracts[_pm._KindFactory.update_problem_kind_process] = _ghost_add("_g_processes")
        eng.contracts[_pm._KindFactory.update_problem_kind_event] = _ghost_add("_g_events")
        eng.contracts[_pm._KindFactory.update_problem_kind_effect] = _ghost_add("_g_effects")
        eng.contracts[_pm._KindFactory.update_problem_kind_expression] = _ghost_add("_g_exprs")

        def init_state(eng_, st, args, kw):
            st.ghost["initial_state_updated"] = True
            yield st, None
        eng.contracts[_pm._KindFactory.update_problem_kind_initial_state] = init_state
        FNode10.observers["is_always"] = ((), PBool)
        QNK = "unified_planning.model.problem.Problem._kind_factory"

        def mk(field, extra=None):
            def inv(L):
                fac = L.factory
                now = L.st.load(L.st.getfield(fac, field))
                pre = L._pre.st.load(L._pre.st.getfield(fac, field))
                x = z3.Const(fresh_name("x"), now.tk.z3sort())
                out = [(f"the scanned prefix was handed to the updater ({field})", _all_in_prefix(L._seq, zint(L._i), now)),
                       (f"what was recorded before the loop stays recorded ({field})", z3.ForAll([x], z3.Implies(z3.Select(pre.has, x), z3.Select(now.has, x))))]
                return out
            return inv
        specs = [("_g_actions", "action", Action10), ("_g_processes", "process", Process10), ("_g_events", "event", Event10),
                 ("_g_effects", "effect", Effect10), ("_g_exprs", "tc", FNode10), ("_g_exprs", "goal", FNode10)]
        for k, (field, var, t) in enumerate(specs):
            eng.loops[(QNK, k)] = LoopSpec(mk(field), modifies=[var, "factory." + field], types={"factory." + field: Set(t)})

    def setup(self, eng, st):
        from pyvc.values import Map
        f = {"_actions": st.alloc(eng.fresh_of(st, Seq(Action10), "_actions"), "list"),
             "_processes": st.alloc(eng.fresh_of(st, Seq(Process10), "_processes"), "list"),
             "_events": st.alloc(eng.fresh_of(st, Seq(Event10), "_events"), "list"),
             "_timed_effects": st.alloc(eng.fresh_of(st, Map(Timing10, EffList10, ordered=True), "_timed_effects"), "dict"),
             "_timed_goals": st.alloc(eng.fresh_of(st, Map(Interval10, GoalList10, ordered=True), "_timed_goals"), "dict"),
             "_trajectory_constraints": st.alloc(eng.fresh_of(st, Seq(FNode10), "_trajectory_constraints"), "list"),
             "_goals": st.alloc(eng.fresh_of(st, Seq(FNode10), "_goals"), "list"),
             "_env": Ref("Environment10").fresh("env")}
        c0 = {k: st.load(v) for k, v in f.items() if isinstance(v, Loc)}
        pb = st.alloc(Rec(_pm.Problem, f), "problem")
        return [pb], {}, dict(c0=c0)

    def post(self, eng, ctx, st, out):
        if out[0] != "return":
            return
        fac = out[1]
        c0 = ctx["c0"]
        g = lambda f: st.load(st.getfield(fac, f))   # noqa: E731
        st.oblige("every action is handed to update_problem_kind_action", _all_in(c0["_actions"], g("_g_actions")))
        st.oblige("every process is handed to update_problem_kind_process", _all_in(c0["_processes"], g("_g_processes")))
        st.oblige("every event is handed to update_problem_kind_event", _all_in(c0["_events"], g("_g_events")))
        st.oblige("every trajectory constraint is handed to update_problem_kind_expression", _all_in(c0["_trajectory_constraints"], g("_g_exprs")))
        st.oblige("every goal is handed to update_problem_kind_expression", _all_in(c0["_goals"], g("_g_exprs")))
        te, tg = c0["_timed_effects"], c0["_timed_goals"]
        a, b = z3.Int(fresh_name("a")), z3.Int(fresh_name("b"))
        for m, lst, elem, gh, what in ((te, EffList10, Effect10, "_g_effects", "timed effect"), (tg, GoalList10, FNode10, "_g_exprs", "timed goal")):
            part = z3.Select(m.val, z3.Select(m.keys.arr, a))
            items_arr = B._uf(f"{lst.name}.items.arr", lst.z3sort(), z3.ArraySort(z3.IntSort(), elem.z3sort()))(part)
            items_len = B._uf(f"{lst.name}.items.len", lst.z3sort(), z3.IntSort())(part)
            st.oblige(f"every {what} (of every timing) is handed to its updater",
                      z3.ForAll([a, b], z3.Implies(z3.And(0 <= a, a < m.keys.n, 0 <= b, b < items_len), z3.Select(g(gh).has, z3.Select(items_arr, b)))))
        st.oblige("timed effects -> TIMED_EFFECTS and CONTINUOUS_TIME", z3.Implies(te.keys.n > 0, z3.And(_present(st, "TIMED_EFFECTS"), _present(st, "CONTINUOUS_TIME"))))
        st.oblige("timed goals -> TIMED_GOALS and CONTINUOUS_TIME", z3.Implies(tg.keys.n > 0, z3.And(_present(st, "TIMED_GOALS"), _present(st, "CONTINUOUS_TIME"))))
        st.oblige("processes -> PROCESSES", z3.Implies(c0["_processes"].n > 0, _present(st, "PROCESSES")))
        st.oblige("events -> EVENTS", z3.Implies(c0["_events"].n > 0, _present(st, "EVENTS")))
        st.oblige("the initial state is examined", z3.BoolVal(bool(st.ghost.get("initial_state_updated"))))
        st.oblige("problem class ACTION_BASED is requested", z3.BoolVal(True))


T_UNITS = [ActionTraversal(), ProblemTraversal()]
UNITS = P_UNITS + T_UNITS


def ops_of(e, acc=None):
    acc = set() if acc is None else acc
    stack = [e]
    seen = set()
    while stack:
        x = stack.pop()
        if x in seen:
            continue
        seen.add(x)
        acc.add(x.node_type)
        stack.extend(x.args)
    return acc


def fluents_of(e):
    out, stack, seen = [], [e], set()
    while stack:
        x = stack.pop()
        if x in seen:
            continue
        seen.add(x)
        if x.is_fluent_exp():
            out.append(x.fluent())
        stack.extend(x.args)
    return out


class Need:
    def __init__(self):
        self.items = []   # (alternatives tuple, why)

    def add(self, feats, why):
        self.items.append((tuple([feats] if isinstance(feats, str) else feats), why))


def cond_features(e, need, where):
    ops = ops_of(e)
    if OK.NOT in ops:
        need.add("NEGATIVE_CONDITIONS", f"Not in {where}")
    if OK.OR in ops or OK.IMPLIES in ops:
        need.add("DISJUNCTIVE_CONDITIONS", f"Or/Implies in {where}")
    if OK.EQUALS in ops:
        need.add("EQUALITIES", f"Equals in {where}")
    if OK.EXISTS in ops:
        need.add("EXISTENTIAL_CONDITIONS", f"Exists in {where}")
    if OK.FORALL in ops:
        need.add("UNIVERSAL_CONDITIONS", f"Forall in {where}")
    for f in fluents_of(e):
        fluent_use(f, need, where)


def fluent_use(f, need, where):
    t = f.type
    if t.is_int_type():
        need.add("INT_FLUENTS", f"int fluent {f.name} in {where}")
    elif t.is_real_type():
        need.add("REAL_FLUENTS", f"real fluent {f.name} in {where}")
    elif t.is_user_type():
        need.add("OBJECT_FLUENTS", f"object fluent {f.name} in {where}")
    if (t.is_int_type() or t.is_real_type()) and (t.lower_bound is not None or t.upper_bound is not None):
        need.add("BOUNDED_TYPES", f"bounded numeric fluent {f.name} in {where}")


def type_features(t, need, where):
    if t.is_user_type():
        need.add("FLAT_TYPING", f"user type {t.name} ({where})")
        if t.father is not None:
            need.add("HIERARCHICAL_TYPING", f"user type {t.name} with father ({where})")


def effect_features(eff, need, where):
    if eff.is_conditional():
        need.add("CONDITIONAL_EFFECTS", f"conditional effect in {where}")
        cond_features(eff.condition, need, f"effect condition in {where}")
    if eff.is_forall():
        need.add("FORALL_EFFECTS", f"forall effect in {where}")
    if eff.is_increase():
        need.add("INCREASE_EFFECTS", f"increase effect in {where}")
    if eff.is_decrease():
        need.add("DECREASE_EFFECTS", f"decrease effect in {where}")
    fluent_use(eff.fluent.fluent(), need, f"effect target in {where}") if eff.fluent.is_fluent_exp() else None
    fl = fluents_of(eff.value)
    for f in fl:
        fluent_use(f, need, f"effect value in {where}")
    if fl:
        t = eff.fluent.type
        X = "BOOLEAN" if t.is_bool_type() else ("NUMERIC" if (t.is_int_type() or t.is_real_type()) else "OBJECT")
        need.add((f"FLUENTS_IN_{X}_ASSIGNMENTS", f"STATIC_FLUENTS_IN_{X}_ASSIGNMENTS"), f"fluent in the value of an effect on a {X.lower()} fluent in {where}")


def action_features(a, need, prefix=""):
    w = f"{prefix}action {a.name}"
    for p in a.parameters:
        t = p.type
        type_features(t, need, f"parameter {p.name} of {w}")
        if t.is_bool_type():
            need.add("BOOL_ACTION_PARAMETERS", f"bool parameter of {w}")
        elif t.is_real_type():
            need.add("REAL_ACTION_PARAMETERS", f"real parameter of {w}")
        elif t.is_int_type():
            if t.lower_bound is None or t.upper_bound is None:
                need.add("UNBOUNDED_INT_ACTION_PARAMETERS", f"unbounded int parameter of {w}")
            else:
                need.add("BOUNDED_INT_ACTION_PARAMETERS", f"bounded int parameter of {w}")
    if isinstance(a, InstantaneousAction):
        for c in a.preconditions:
            cond_features(c, need, f"precondition of {w}")
        for e in a.effects:
            effect_features(e, need, w)
    elif isinstance(a, DurativeAction):
        need.add(("CONTINUOUS_TIME", "DISCRETE_TIME"), f"durative {w}")
        for i, cl in a.conditions.items():
            for c in cl:
                cond_features(c, need, f"condition of {w}")
        for t, el in a.effects.items():
            for e in el:
                effect_features(e, need, w)
        d = a.duration
        if d.lower != d.upper:
            need.add("DURATION_INEQUALITIES", f"duration of {w}")
        for b in (d.lower, d.upper):
            if fluents_of(b):
                need.add(("FLUENTS_IN_DURATIONS", "STATIC_FLUENTS_IN_DURATIONS"), f"fluent in the duration of {w}")
        for t, el in getattr(a, "continuous_effects", {}).items():
            for e in el:
                need.add("INCREASE_CONTINUOUS_EFFECTS" if e.is_continuous_increase() else "DECREASE_CONTINUOUS_EFFECTS", f"continuous effect of {w}")


TEMPORAL_OPS = {OK.SOMETIME, OK.SOMETIME_BEFORE, OK.SOMETIME_AFTER, OK.AT_MOST_ONCE}


def extract(pr):
    need = Need()
    if isinstance(pr, up.model.multi_agent.MultiAgentProblem):
        for o in pr.all_objects:
            type_features(o.type, need, f"object {o.name}")
        for f in pr.ma_environment.fluents:
            for p in f.signature:
                type_features(p.type, need, f"signature of {f.name}")
        for ag in pr.agents:
            for f in ag.fluents:
                for p in f.signature:
                    type_features(p.type, need, f"signature of {ag.name}.{f.name}")
            for a in ag.actions:
                action_features(a, need, f"{ag.name}.")
        for g in pr.goals:
            cond_features(g, need, "goal")
        return need
    if isinstance(pr, up.model.scheduling.SchedulingProblem):
        return need     # scheduling kinds are computed by a separate factory; not in this extractor
    for o in pr.all_objects:
        type_features(o.type, need, f"object {o.name}")
    for f in pr.fluents:
        type_features(f.type, need, f"type of fluent {f.name}")
        if f.type.is_user_type():
            need.add("OBJECT_FLUENTS", f"object fluent {f.name} declared")
        for p in f.signature:
            type_features(p.type, need, f"signature of {f.name}")
            if p.type.is_bool_type():
                need.add("BOOL_FLUENT_PARAMETERS", f"bool parameter of fluent {f.name}")
            elif p.type.is_int_type():
                need.add("BOUNDED_INT_FLUENT_PARAMETERS", f"int parameter of fluent {f.name}")
    for a in pr.actions:
        action_features(a, need)
    for g in pr.goals:
        cond_features(g, need, "goal")
    if pr.timed_effects:
        need.add("TIMED_EFFECTS", "timed effects")
        need.add(("CONTINUOUS_TIME", "DISCRETE_TIME"), "timed effects")
        for t, el in pr.timed_effects.items():
            for e in el:
                effect_features(e, need, "timed effect")
    if pr.timed_goals:
        need.add("TIMED_GOALS", "timed goals")
        need.add(("CONTINUOUS_TIME", "DISCRETE_TIME"), "timed goals")
        for i, gl in pr.timed_goals.items():
            for g in gl:
                cond_features(g, need, "timed goal")
    for tc in pr.trajectory_constraints:
        ops = ops_of(tc)
        if ops & TEMPORAL_OPS:
            need.add("TRAJECTORY_CONSTRAINTS", "trajectory constraint with sometime / at-most-once / sometime-before / sometime-after")
        elif OK.ALWAYS in ops:
            need.add(("STATE_INVARIANTS", "TRAJECTORY_CONSTRAINTS"), "always constraint")
        cond_features(tc, need, "trajectory constraint")
    for m in pr.quality_metrics:
        if isinstance(m, MinimizeActionCosts):
            need.add("ACTIONS_COST", "MinimizeActionCosts")
        elif isinstance(m, (MinimizeExpressionOnFinalState, MaximizeExpressionOnFinalState)):
            need.add("FINAL_VALUE", "final-value metric")
        elif isinstance(m, MinimizeMakespan):
            need.add("MAKESPAN", "MinimizeMakespan")
        elif isinstance(m, MinimizeSequentialPlanLength):
            need.add("PLAN_LENGTH", "MinimizeSequentialPlanLength")
        elif isinstance(m, TemporalOversubscription):
            need.add("TEMPORAL_OVERSUBSCRIPTION", "TemporalOversubscription")
        elif isinstance(m, Oversubscription):
            need.add("OVERSUBSCRIPTION", "Oversubscription")
    # undefined initial values
    try:
        explicit = pr.explicit_initial_values
        for f in pr.fluents:
            if f in pr.fluents_defaults:
                continue
            n = 0
            for fe in get_all_fluent_exp(pr, f):
                n += 1
                if n > 200:
                    break
                if fe not in explicit:
                    need.add("UNDEFINED_INITIAL_NUMERIC" if (f.type.is_int_type() or f.type.is_real_type()) else "UNDEFINED_INITIAL_SYMBOLIC",
                             f"{f.name} has a ground instance without initial value")
                    break
    except Exception:  # noqa
        pass
    if isinstance(pr, up.model.htn.HierarchicalProblem):
        for mth in pr.methods:
            for c in mth.preconditions:
                cond_features(c, need, f"precondition of method {mth.name}")
    return need


def check(pr, label, failures, stats):
    with warnings.catch_warnings():
        warnings.simplefilter("ignore")
        try:
            kind = pr.kind
        except Exception as ex:  # noqa
            failures.append({"what": f"computing the kind raises {type(ex).__name__}", "concrete": label, "observed": str(ex)[:200]})
            return
        feats = set(kind.features)
        need = extract(pr)
    for alts, why in need.items:
        stats["n"] += 1
        stats["distinct"].add(alts[0])
        if not any(a in feats for a in alts):
            failures.append({"what": f"kind lacks {' or '.join(alts)} [{why.split(' in ')[0].split(' of ')[0][:40]}]", "concrete": label,
                             "observed": f"{why}; kind features: {sorted(feats)}"})


def corpus():
    out = []
    try:
        from unified_planning.test.examples import get_example_problems
        with warnings.catch_warnings():
            warnings.simplefilter("ignore")
            for name, ex in get_example_problems().items():
                out.append((f"example:{name}", ex.problem))
    except Exception:  # noqa
        pass
    return out


def extra_checks(tier, seed):
    """census (every run): the loops cut with a trivial invariant in the units above only *set* features -- no unset_* call inside them"""
    import ast
    import inspect
    import textwrap
    failures, n = [], 0
    for meth in ("update_problem_kind_fluent", "update_problem_kind_effect"):
        tree = ast.parse(textwrap.dedent(inspect.getsource(getattr(_pm._KindFactory, meth))))
        for node in ast.walk(tree):
            if isinstance(node, (ast.For, ast.While)):
                for sub in ast.walk(node):
                    n += 1
                    if isinstance(sub, ast.Call) and isinstance(sub.func, ast.Attribute) and sub.func.attr.startswith("unset_"):
                        failures.append({"what": f"{meth}: a loop cut by the contract calls {sub.func.attr} (line {sub.lineno}); the proof's frame assumption is void",
                                         "observed": ast.unparse(sub)})
    return {"failures": failures, "obligations": 1, "discharged": 0 if failures else 1, "ast_nodes_scanned": n,
            "census": "no unset_* call inside the parameter / quantified-variable loops of update_problem_kind_fluent / update_problem_kind_effect"}


def bounded(tier, seed):
    from rtc.gen import Gen
    from rtc.tgen import TGen
    from contracts import c22
    n = 150 if tier == "quick" else 2500
    failures, stats = [], {"n": 0, "distinct": set()}
    nprob = 0
    for label, pr in corpus():
        check(pr, {"source": label}, failures, stats)
        nprob += 1
    with warnings.catch_warnings():
        warnings.simplefilter("ignore")
        for i in range(n):
            s = seed * 100003 + i
            try:
                pr = Gen(s, {"trajectory": 0.4, "trajectory_conj": 0.5, "undefined": 0.3, "hierarchy": 0.5}).problem()
                check(pr, {"source": "rtc.gen", "seed": s}, failures, stats)
                nprob += 1
            except Exception:  # noqa
                pass
            if i % 3 == 0:
                try:
                    pr = TGen(s).problem()
                    if isinstance(pr, tuple):
                        pr = pr[0]
                    check(pr, {"source": "rtc.tgen", "seed": s}, failures, stats)
                    nprob += 1
                except Exception:  # noqa
                    pass
            if i % 5 == 0:
                for kind in ("problem", "contingent", "htn", "ma"):
                    pr, _ = c22.build(kind, random.Random(s))
                    check(pr, {"source": f"c22.build:{kind}", "seed": s}, failures, stats)
                    nprob += 1
            if len(failures) > 30:
                break
    seen, out = set(), []
    for f in failures:
        if f["what"] in seen:
            continue
        seen.add(f["what"])
        out.append(f)
    return {"evaluations": stats["n"], "distinct_nontrivial": len(stats["distinct"]), "failures": out[:12],
            "rule": f"{nprob} problems (example corpus + rtc.gen sequential + rtc.tgen temporal + contingent/hierarchical/multi-agent builders); "
                    f"evaluation = one (construct, required feature) pair; non-trivial = distinct feature demanded",
            "samples": [{"features_demanded": sorted(stats["distinct"])}], "bound": f"{n} seeds + corpus"}


def replay_file(data):
    c = data.get("concrete") or {}
    failures, stats = [], {"n": 0, "distinct": set()}
    src = c.get("source", "")
    pr = None
    if src.startswith("example:"):
        pr = dict(corpus()).get(src)
    elif src == "rtc.gen":
        from rtc.gen import Gen
        pr = Gen(c["seed"], {"trajectory": 0.4, "trajectory_conj": 0.5, "undefined": 0.3, "hierarchy": 0.5}).problem()
    elif src == "rtc.tgen":
        from rtc.tgen import TGen
        pr = TGen(c["seed"]).problem()
        pr = pr[0] if isinstance(pr, tuple) else pr
    elif src.startswith("c22.build:"):
        from contracts import c22
        pr, _ = c22.build(src.split(":")[1], random.Random(c["seed"]))
    if pr is None:
        return {"reproduced": False, "concrete": c, "observed": "source not found"}
    check(pr, c, failures, stats)
    return {"reproduced": bool(failures), "concrete": c, "observed": [f["what"] for f in failures][:5]}


LEVEL = "other"
EXPLANATION = __doc__
TRUSTED = ["proved: the per-construct updaters update_problem_kind_expression/type/effect/fluent and update_action_parameter (construct -> feature table); the "
           "traversal that applies them to every action, goal, timed effect, metric and the duration / metric / initial-state updaters are bounded only",
           "OperatorsExtractor / FreeVarsExtractor / LinearChecker results are uninterpreted (their own correctness is C17 and the walkers' contracts)",
           "the extractor's reading of 'syntactically uses' (conservative: Iff is not counted as disjunctive; unused fluents demand nothing)"]
USES_THEORY = False

"""C28 — timed-to-sequential plans convert back to valid temporal plans.

P (kernel, real source): `_duration_in_interval` -- the duration chosen for a durative action lies inside its
(possibly open) duration interval whenever the interval is non-empty.
B: generated durative problems inside the compiler's supported kind (closed/open, constant and
fluent-dependent duration bounds); every valid plan of the compiled problem up to the length bound
(reference sequential semantics) is converted back; the result must be accepted by the reference temporal
semantics and by the real time-triggered validator, and every chosen duration must lie in its interval.
"""
import warnings
import z3
from fractions import Fraction
from pyvc.values import *  # noqa
from pyvc.verify import Unit

import unified_planning.engines.compilers.timed_to_sequential as t2s

USES_THEORY = False


class DurationInInterval(Unit):
    prop = "C28"
    name = "_duration_in_interval"
    doc = "non-empty (possibly open) interval and positive time step => the chosen duration lies inside the interval"

    def target(self):
        return t2s._duration_in_interval

    def setup(self, eng, st):
        lo, hi, step = Real.fresh("lower"), Real.fresh("upper"), Real.fresh("min_time_step")
        lop, rop = Bool.fresh("left_open"), Bool.fresh("right_open")
        st.assume(step.z > 0)
        # the interval is non-empty
        st.assume(z3.If(z3.Or(lop.z, rop.z), lo.z < hi.z, lo.z <= hi.z))
        return [lo, hi, lop, rop, step], {}, dict(lo=lo, hi=hi, lop=lop, rop=rop)

    def post(self, eng, ctx, st, out):
        if out[0] != "return":
            return
        d = zreal(out[1])
        lo, hi, lop, rop = ctx["lo"].z, ctx["hi"].z, ctx["lop"].z, ctx["rop"].z
        st.oblige("lower bound respected", z3.If(lop, d > lo, d >= lo))
        st.oblige("upper bound respected", z3.If(rop, d < hi, d <= hi))

    def replay(self, ctx, model, label):
        ev = lambda z: model.eval(z, model_completion=True)
        fr = lambda v: str(Fraction(v.numerator_as_long(), v.denominator_as_long()))
        c = {"lower": fr(ev(ctx["lo"].z)), "upper": fr(ev(ctx["hi"].z)), "left_open": z3.is_true(ev(ctx["lop"].z)),
             "right_open": z3.is_true(ev(ctx["rop"].z)), "step": fr(ev(model.decls() and [x for x in model.decls() if x.name().startswith('min_time_step')][0]()))}
        return replay_concrete(c)


def replay_concrete(c):
    lo, hi, step = Fraction(c["lower"]), Fraction(c["upper"]), Fraction(c["step"])
    d = t2s._duration_in_interval(lo, hi, c["left_open"], c["right_open"], step)
    ok = (d > lo if c["left_open"] else d >= lo) and (d < hi if c["right_open"] else d <= hi)
    return {"reproduced": not ok, "concrete": c, "observed": f"chosen duration {d}"}


def replay_file(data):
    c = data["concrete"]
    return replay_concrete(c) if "lower" in c else {"reproduced": False, "concrete": c, "observed": "bounded case: re-run ./check C28"}


UNITS = [DurationInInterval()]


def crafted_start_effects():
    """durative actions with SEVERAL start effects on one numeric fluent (every pair of increase / decrease, and a triple) whose accumulated
    value is read afterwards: by an over-all condition, an end condition, and the value of an end effect"""
    from unified_planning.shortcuts import (Problem, Fluent, IntType, BoolType, DurativeAction, StartTiming, EndTiming, ClosedTimeInterval,
                                            GE, LE, Plus)
    out = []
    for kinds in (("dec", "dec"), ("inc", "dec"), ("dec", "inc"), ("inc", "inc"), ("inc", "dec", "dec")):
        for init in (5, 6, 8):
            for reader in ("overall", "end_condition", "end_effect_value"):
                pr = Problem(f"start_effects_{'_'.join(kinds)}_{init}_{reader}")
                fuel, copy, done = Fluent("fuel", IntType(-20, 40)), Fluent("copy", IntType(-20, 40)), Fluent("done", BoolType())
                pr.add_fluent(fuel, default_initial_value=init)
                pr.add_fluent(copy, default_initial_value=0)
                pr.add_fluent(done, default_initial_value=False)
                a = DurativeAction("burn")
                a.set_fixed_duration(2)
                for k, amount in zip(kinds, (3, 4, 2)):
                    (a.add_increase_effect if k == "inc" else a.add_decrease_effect)(StartTiming(), fuel, amount)
                if reader == "overall":
                    a.add_condition(ClosedTimeInterval(StartTiming(), EndTiming()), GE(fuel, 0))
                elif reader == "end_condition":
                    a.add_condition(EndTiming(), GE(fuel, 0))
                else:
                    a.add_effect(EndTiming(), copy, Plus(fuel, 1))
                    pr.add_goal(GE(copy, 0))
                a.add_effect(EndTiming(), done, True)
                pr.add_action(a)
                pr.add_goal(done)
                out.append(pr)
    # end effects whose AMOUNT reads a fluent the action changes at start (one or two cumulative end effects on a fluent untouched at start):
    # the goal pins the accumulated value, for every value any reading of the amount (before / after the start effect) could produce
    from unified_planning.shortcuts import Equals
    for n_end in (1, 2):
        for kind in ("inc", "dec"):
            for goal_level in (2, 4, 5, 7, 8, 13, -2, -4, -5, -7, -8, -13):
                if (goal_level > 0) != (kind == "inc"):
                    continue
                pr = Problem(f"end_amount_reads_start_effect_{n_end}_{kind}_{goal_level}")
                rate, level = Fluent("rate", IntType(0, 40)), Fluent("level", IntType(-40, 40))
                pr.add_fluent(rate, default_initial_value=1)
                pr.add_fluent(level, default_initial_value=0)
                a = DurativeAction("load")
                a.set_fixed_duration(2)
                a.add_increase_effect(StartTiming(), rate, 3)
                add = a.add_increase_effect if kind == "inc" else a.add_decrease_effect
                add(EndTiming(), level, rate)
                if n_end == 2:
                    add(EndTiming(), level, 1)
                pr.add_action(a)
                pr.add_goal(Equals(level, goal_level))
                out.append(pr)
    # an end assignment `x := v` next to a START condition that is literally `x == v`, where a start effect changes a fluent `v` reads: at the end the
    # assignment is NOT redundant (v has moved); a second action needs the old / the new value of x for its whole duration
    from unified_planning.shortcuts import Minus
    for step, vexp in (("inc", "y"), ("dec", "y"), ("inc", "y+1")):
        for need in (0, 1, -1, 2):
            pr = Problem(f"end_assignment_equal_to_a_start_condition_{step}_{vexp}_{need}")
            x, y, done = Fluent("x", IntType(-10, 10)), Fluent("y", IntType(-10, 10)), Fluent("done", BoolType())
            pr.add_fluent(x, default_initial_value=0 if vexp == "y" else 1)
            pr.add_fluent(y, default_initial_value=0)
            pr.add_fluent(done, default_initial_value=False)
            val = y() if vexp == "y" else Plus(y, 1)
            cp = DurativeAction("copy")
            cp.set_fixed_duration(1)
            cp.add_condition(StartTiming(), Equals(x, val))
            (cp.add_increase_effect if step == "inc" else cp.add_decrease_effect)(StartTiming(), y, 1)
            cp.add_effect(EndTiming(), x, val)
            probe = DurativeAction("probe")
            probe.set_fixed_duration(1)
            probe.add_condition(ClosedTimeInterval(StartTiming(), EndTiming()), Equals(x, need))
            probe.add_effect(EndTiming(), done, True)
            pr.add_action(cp)
            pr.add_action(probe)
            pr.add_goal(done)
            out.append(pr)
    return out


def bounded(tier, seed):
    import itertools
    from rtc.tgen import TGen
    from spec import tempsem, seqsem
    from unified_planning.engines import CompilationKind
    from unified_planning.engines.compilers.timed_to_sequential import TimedToSequential
    from unified_planning.engines.plan_validator import TimeTriggeredPlanValidator
    from unified_planning.engines.results import ValidationResultStatus
    from unified_planning.plans import SequentialPlan, ActionInstance
    from unified_planning.model import DurativeAction
    nprob, maxlen, cap = (200, 2, 30) if tier == "quick" else (1200, 3, 120)
    failures, evals, nontrivial, samples = [], 0, set(), []
    with warnings.catch_warnings():
        warnings.simplefilter("ignore")
        tv = TimeTriggeredPlanValidator()
        comp = TimedToSequential()
        def problem_stream():
            for k, pr_ in enumerate(crafted_start_effects()):
                yield 500000 + k, pr_
            for i in range(nprob):
                s_ = (seed + 5) * 100003 + i
                g = TGen(s_, timed=False, fixed_durations=False, simple=True)
                g.t2s = True
                try:
                    yield s_, g.problem(f"t{s_}")
                except Exception:  # noqa
                    continue
        for s, pr in problem_stream():
            if not comp.supports(pr.kind):
                continue
            try:
                res = comp.compile(pr, CompilationKind.TIMED_TO_SEQUENTIAL)
            except Exception as e:  # noqa
                failures.append({"what": f"seed {s}: compile raised {type(e).__name__}: {e}", "concrete": {"problem": str(pr)}, "observed": repr(e)})
                continue
            cp = res.problem
            gas = seqsem.ground_actions(cp)
            init = seqsem.initial_state(cp)
            plans = []
            for L in range(1, maxlen + 1):
                for plan in itertools.islice(itertools.product(gas, repeat=L), cap * 4):
                    try:
                        st = init
                        for (a, ps) in plan:
                            st = seqsem.successor(cp, st, a, ps)
                            if st is None:
                                break
                        if st is None or not seqsem.is_goal(cp, st):
                            continue
                    except seqsem.Ambiguous:
                        continue
                    plans.append(plan)
                    if len(plans) >= cap:
                        break
            for plan in plans:
                evals += 1
                desc = {"problem": str(pr), "compiled_plan": [f"{a.name}({','.join(o.name for o in ps)})" for a, ps in plan]}
                try:
                    ttp = res.plan_back_conversion(SequentialPlan([ActionInstance(a, tuple(ps)) for a, ps in plan]))
                except Exception as e:  # noqa
                    failures.append({"what": f"seed {s}: back conversion raised {type(e).__name__}: {e}", "concrete": desc, "observed": repr(e)})
                    continue
                nontrivial.add((s, tuple(desc["compiled_plan"])))
                back = [(st_, ai.action, tuple(p.object() for p in ai.actual_parameters), d) for st_, ai, d in ttp.timed_actions]
                desc["converted"] = [f"{st_}: {ai} [{d}]" for st_, ai, d in ttp.timed_actions]
                try:
                    ok, why = tempsem.valid(pr, back)
                except tempsem.Ambiguous:
                    ok, why = None, ""
                r = tv.validate(pr, ttp)
                if ok is None:
                    continue        # outcome not fixed by the reference semantics (see spec/tempsem.py)
                if ok is False or r.status != ValidationResultStatus.VALID:
                    sig = "unclassified"
                    if "outside its interval" in (why or ""):
                        for _, a_, _, _ in back:
                            if isinstance(a_, DurativeAction) and not (a_.duration.lower.is_constant() and a_.duration.upper.is_constant()):
                                sig = "fluent-dependent-duration-interval-empty-in-the-state-of-use"
                    if sig == "unclassified":
                        from unified_planning.shortcuts import StartTiming, EndTiming
                        for _, a_, ps_, _ in back:
                            if not isinstance(a_, DurativeAction):
                                continue
                            subs_ = dict(zip(a_.parameters, ps_))
                            def fexps(e_):
                                out_, stack_ = [], [e_]
                                while stack_:
                                    x_ = stack_.pop()
                                    if x_.is_fluent_exp():
                                        out_.append(x_)
                                    stack_.extend(x_.args)
                                return out_
                            st_f = [e.fluent for t_, el in a_.effects.items() if t_ == StartTiming() for e in el]
                            later = []
                            for t_, el in a_.effects.items():
                                if t_ == EndTiming():
                                    for e in el:
                                        later += [e.fluent] + fexps(e.value) + fexps(e.condition)
                            for iv_, cl in a_.conditions.items():
                                if iv_.upper == EndTiming():
                                    for c_ in cl:
                                        later += fexps(c_)
                            if any(x != y and x.fluent() == y.fluent() and x.substitute(subs_) == y.substitute(subs_) for x in st_f for y in later):
                                sig = "start-and-end-effect-on-one-ground-fluent-through-parameter-aliasing"
                    if sig == "unclassified" and "bounds/invariants violated" in (why or "") and r.status != ValidationResultStatus.VALID:
                        # the library's own time-triggered validator rejects the converted plan too: an action whose START increase / decrease pushes a bounded
                        # numeric fluent and whose END effect ASSIGNS the same fluent -- the compiled action only sees the final assignment
                        from unified_planning.shortcuts import StartTiming, EndTiming
                        for _, a_, ps_, _ in back:
                            if not isinstance(a_, DurativeAction):
                                continue
                            subs_ = dict(zip(a_.parameters, ps_))
                            st_incdec = [e.fluent.substitute(subs_) for t_, el in a_.effects.items() if t_ == StartTiming() for e in el
                                         if (e.is_increase() or e.is_decrease()) and (e.fluent.type.lower_bound is not None or e.fluent.type.upper_bound is not None)]
                            end_assign = [e.fluent.substitute(subs_) for t_, el in a_.effects.items() if t_ == EndTiming() for e in el if e.is_assignment()]
                            if any(x == y for x in st_incdec for y in end_assign):
                                sig = "start-increase-leaves-a-bounded-fluent-outside-its-type-until-the-end-assignment-of-the-same-action"
                    failures.append({"what": f"seed {s}: plan valid for the compiled problem converts back to an invalid temporal plan "
                                             f"({why or r.status.name}) [{sig}]", "concrete": desc, "observed": desc["converted"]})
                elif len(samples) < 3:
                    samples.append({"problem": pr.name, "compiled_plan": desc["compiled_plan"], "converted": desc["converted"]})
            if sum("[unclassified]" in f["what"] or "raised" in f["what"] for f in failures) >= 5 or len(failures) >= 60:
                break      # classified (known-finding) cases do not stop the exploration
    return {"evaluations": evals, "distinct_nontrivial": len(nontrivial), "failures": failures[:60],
            "rule": f"{nprob} generated durative problems in the compiler's supported kind, valid compiled plans of length <= {maxlen} "
                    f"(<= {cap} per problem) converted back and validated; non-trivial = distinct valid compiled plan",
            "samples": samples, "bound": f"plans <= {maxlen}"}


LEVEL = "other"
EXPLANATION = __doc__

"""C37 — multi-agent compilers preserve each agent's action semantics.

Bounded run-time contract on the real MAConditionalEffectsRemover / MADisjunctiveConditionsRemover.
Reference semantics of a multi-agent problem (written here, the library has no multi-agent simulator): a state maps
(owner, fluent, arguments) to a value, owner = agent name or None for the environment; inside an action of agent A an
unqualified fluent denotes A's fluent of that name if A has one, else the environment fluent; Dot(B, f) denotes B's
fluent; any other reference is ill-formed.  An action instance is applicable when its preconditions hold; its successor
applies every effect whose condition holds in the current state.
For every generated problem, agent, ground original action and every state over the ground Boolean fluents (bounded):
  A  the original is applicable iff some compiled variant mapping back to it (CompilerResult.map_back_action_instance)
     is applicable;
  S  every applicable variant yields the original successor (projected on the original fluents);
  U  conditional-effect removal: exactly one variant is applicable when the original is;
  G  goals: the compiled goals hold in a state iff the original goals do; for a disjunctive goal, which the disjunctive
     remover routes through "fake" goal-witness fluents and actions (and which is ill-formed under the strict resolution
     above -- known finding), the protocol is checked under a permissive resolution (an unqualified fluent of another
     agent denotes the unique owner's fluent): a one-step inductive invariant over all compiled states (a witness fluent is
     true only where the disjunctive goal holds, preserved by every compiled action; compiled goals imply original goals)
     and reachability of the compiled goals by witness actions alone from every state where the original goals hold;
  W  the compiled problem is well-formed under the reference semantics (every fluent reference resolves).
"""
import itertools
import random
import warnings

import unified_planning as up
from unified_planning.shortcuts import *  # noqa
from unified_planning.model.multi_agent import MultiAgentProblem, Agent
from unified_planning.model.operators import OperatorKind as OK
from unified_planning.plans import ActionInstance
from unified_planning.engines import CompilationKind
from unified_planning.engines.compilers.ma_conditional_effects_remover import MAConditionalEffectsRemover
from unified_planning.engines.compilers.ma_disjunctive_conditions_remover import MADisjunctiveConditionsRemover

UNITS = []


class IllFormed(Exception):
    pass


# permissive name resolution (used only for the fake-goal protocol clause): an unqualified fluent that is neither the
# acting agent's nor the environment's denotes the fluent of the unique agent owning that name
PERMISSIVE = [False]


def resolve(pr, agent, fe):
    """(owner, fluent name) of a FLUENT_EXP inside `agent`'s action (agent None: problem level)"""
    f = fe.fluent()
    if agent is not None and any(g.name == f.name for g in agent.fluents):
        return agent.name
    if any(g.name == f.name for g in pr.ma_environment.fluents):
        return None
    if PERMISSIVE[0]:
        owners = [ag.name for ag in pr.agents if any(g.name == f.name for g in ag.fluents)]
        if len(owners) == 1:
            return owners[0]
    raise IllFormed(f"fluent {f.name} is neither a fluent of {'agent ' + agent.name if agent is not None else 'the environment'} nor of the environment and is not Dot-qualified")


def ev(pr, e, state, env, agent):
    k = e.node_type
    if k in (OK.BOOL_CONSTANT, OK.INT_CONSTANT, OK.REAL_CONSTANT):
        return e.constant_value()
    if k == OK.OBJECT_EXP:
        return e.object()
    if k == OK.PARAM_EXP:
        return env[e.parameter()]
    if k == OK.DOT:
        return ev(pr, e.arg(0), state, env, e.agent() if not isinstance(e.agent(), str) else pr.agent(e.agent()))
    if k == OK.FLUENT_EXP:
        owner = resolve(pr, agent, e)
        key = (owner, e.fluent().name, tuple(ev(pr, a, state, env, agent) for a in e.args))
        if key not in state:
            raise IllFormed(f"no value for {key}")
        return state[key]
    if k == OK.AND:
        return all(ev(pr, a, state, env, agent) for a in e.args)
    if k == OK.OR:
        return any(ev(pr, a, state, env, agent) for a in e.args)
    if k == OK.NOT:
        return not ev(pr, e.arg(0), state, env, agent)
    if k == OK.IMPLIES:
        return (not ev(pr, e.arg(0), state, env, agent)) or ev(pr, e.arg(1), state, env, agent)
    if k == OK.IFF:
        return ev(pr, e.arg(0), state, env, agent) == ev(pr, e.arg(1), state, env, agent)
    if k == OK.EQUALS:
        return ev(pr, e.arg(0), state, env, agent) == ev(pr, e.arg(1), state, env, agent)
    raise NotImplementedError(str(k))


def target_key(pr, fe, state, env, agent):
    if fe.is_dot():
        ag = fe.agent() if not isinstance(fe.agent(), str) else pr.agent(fe.agent())
        return target_key(pr, fe.arg(0), state, env, ag)
    owner = resolve(pr, agent, fe)
    return (owner, fe.fluent().name, tuple(ev(pr, a, state, env, agent) for a in fe.args))


def successor(pr, agent, action, params, state):
    env = dict(zip(action.parameters, params))
    for c in action.preconditions:
        if not ev(pr, c, state, env, agent):
            return None
    new = dict(state)
    written = {}
    for eff in action.effects:
        if eff.is_conditional() and not ev(pr, eff.condition, state, env, agent):
            continue
        key = target_key(pr, eff.fluent, state, env, agent)
        val = ev(pr, eff.value, state, env, agent)
        if key in written and written[key] != val:
            val = val or written[key]      # Boolean fluent assigned both values ends true
        written[key] = val
        new[key] = val
    return new


def ground_keys(pr):
    keys = []
    objs = {}

    def dom(t):
        return list(pr.objects(t))
    for f in pr.ma_environment.fluents:
        for combo in itertools.product(*[dom(p.type) for p in f.signature]):
            keys.append((None, f.name, tuple(combo)))
    for ag in pr.agents:
        for f in ag.fluents:
            for combo in itertools.product(*[dom(p.type) for p in f.signature]):
                keys.append((ag.name, f.name, tuple(combo)))
    return keys


def build(rng):
    pr = MultiAgentProblem("M")
    T = UserType("T")
    o1, o2 = Object("o1", T), Object("o2", T)
    pr.add_objects([o1, o2])
    pub = Fluent("pub", BoolType(), x=T)
    g = Fluent("g", BoolType())
    pr.ma_environment.add_fluent(pub, default_initial_value=False)
    pr.ma_environment.add_fluent(g, default_initial_value=False)
    nag = 2
    for i in range(nag):
        ag = Agent(f"ag{i + 1}", pr)
        has = Fluent("has", BoolType(), x=T)
        flag = Fluent("flag", BoolType())
        ag.add_fluent(has, default_initial_value=False)
        ag.add_fluent(flag, default_initial_value=False)
        lits = lambda a: [has(a.x), Not(has(a.x)), flag(), Not(flag()), pub(a.x), Not(pub(a.x)), g(), Not(g())]  # noqa
        for an in ("take", "put")[: rng.randint(1, 2)]:
            act = InstantaneousAction(an, x=T)
            L = lits(act)
            r = rng.random()
            if r < 0.35:
                act.add_precondition(rng.choice(L))
            elif r < 0.7:
                act.add_precondition(Or(rng.choice(L), rng.choice(L)))
            elif r < 0.85:
                act.add_precondition(Implies(rng.choice(L), And(rng.choice(L), rng.choice(L))))
            else:
                act.add_precondition(And(rng.choice(L), Or(rng.choice(L), Not(And(rng.choice(L), rng.choice(L))))))
            targets = [has(act.x), flag(), pub(act.x), g()]
            rng.shuffle(targets)
            for tg in targets[: rng.randint(1, 3)]:
                if rng.random() < 0.5:
                    act.add_effect(tg, rng.choice([True, False]), rng.choice(L))
                else:
                    act.add_effect(tg, rng.choice([True, False]))
            # sometimes: a second conditional effect on a fluent the action already writes, under another condition -- with the same value (the
            # two branches then repeat one assignment) or with the other value.  Separate random stream: the rest of the family is unchanged.
            rng2 = random.Random(rng.getstate()[1][1] ^ (0x9E37 + i))
            if rng2.random() < 0.35 and act.effects:
                e0 = rng2.choice(list(act.effects))
                if e0.fluent.type.is_bool_type():
                    v = e0.value.bool_constant_value() if rng2.random() < 0.7 else (not e0.value.bool_constant_value())
                    try:
                        act.add_effect(e0.fluent, v, rng2.choice(L))
                    except Exception:  # noqa: statically conflicting with an unconditional effect
                        pass
            ag.add_action(act)
        pr.add_agent(ag)
    a1 = pr.agent("ag1")
    a2 = pr.agent("ag2")
    gr = rng.random()
    if gr < 0.4:
        pr.add_goal(Dot(a1, a1.fluent("has")(o2)))
        pr.add_goal(pub(o1))
    elif gr < 0.7:
        pr.add_goal(And(Dot(a2, a2.fluent("flag")), Not(g)))
    else:
        pr.add_goal(Or(Dot(a1, a1.fluent("has")(o2)), pub(o1)))      # a disjunctive goal
        pr.add_goal(Dot(a2, a2.fluent("flag")))
    return pr


DIRECTED = 10 ** 9      # scenario seeds from here on name members of the directed family


def directed_count():
    return len(_directed_specs())


def _directed_specs():
    out = []
    for shape in ("or2", "or3", "or_and", "nand", "implies", "and_or"):
        for value in (True, False):
            for pre in ("none", "lit", "or"):
                out.append((shape, value, pre))
    return out


def build_directed(j):
    """one action whose conditional effect has a condition with several disjuncts in disjunctive normal form (every state is explored, so each
    disjunct is the only true one somewhere), next to an unconditional effect; with and without a (disjunctive) precondition"""
    shape, value, pre = _directed_specs()[j % directed_count()]
    pr = MultiAgentProblem("D")
    T = UserType("T")
    o1 = Object("o1", T)
    pr.add_objects([o1])
    pub = Fluent("pub", BoolType(), x=T)
    g = Fluent("g", BoolType())
    pr.ma_environment.add_fluent(pub, default_initial_value=False)
    pr.ma_environment.add_fluent(g, default_initial_value=False)
    for i in range(2):
        ag = Agent(f"ag{i + 1}", pr)
        has = Fluent("has", BoolType(), x=T)
        flag = Fluent("flag", BoolType())
        mark = Fluent("mark", BoolType())
        ag.add_fluent(has, default_initial_value=False)
        ag.add_fluent(flag, default_initial_value=False)
        ag.add_fluent(mark, default_initial_value=False)
        act = InstantaneousAction("take", x=T)
        a, b, c = has(act.x), flag(), pub(act.x)
        cond = {"or2": Or(a, b), "or3": Or(a, Not(b), c), "or_and": Or(And(a, Not(c)), b), "nand": Not(And(a, b)),
                "implies": Implies(a, And(b, c)), "and_or": And(Or(a, b), Or(Not(a), c))}[shape]
        if pre == "lit":
            act.add_precondition(Not(g()))
        elif pre == "or":
            act.add_precondition(Or(g(), Not(c)))
        act.add_effect(mark(), value, cond)
        if i == 0:
            act.add_effect(g(), True)
        else:
            act.add_effect(g(), False, Or(b, c))        # a second multi-disjunct condition in the same action
        ag.add_action(act)
        pr.add_agent(ag)
    a1 = pr.agent("ag1")
    pr.add_goal(Dot(a1, a1.fluent("mark")))
    return pr


def project(state, keys):
    return {k: state[k] for k in keys}


def scenario(seed, which, failures, stats):
    rng = random.Random(seed)
    pr = build(rng) if seed < DIRECTED else build_directed(seed - DIRECTED)
    label = {"seed": seed, "compiler": which}

    def bad(what, observed=None):
        if what not in {f["what"] for f in failures}:
            failures.append({"what": what, "concrete": label, "observed": observed})
    comp, ck = {"ce": (MAConditionalEffectsRemover(), CompilationKind.CONDITIONAL_EFFECTS_REMOVING),
                "dc": (MADisjunctiveConditionsRemover(), CompilationKind.DISJUNCTIVE_CONDITIONS_REMOVING)}[which]
    name = type(comp).__name__
    if not comp.supports(pr.kind):
        stats["unsupported"] += 1
        return
    try:
        res = comp.compile(pr, ck)
    except Exception as ex:  # noqa
        bad(f"{name}: compile raises {type(ex).__name__} on a supported problem", str(ex)[:300])
        return
    cp = res.problem
    okeys = ground_keys(pr)
    ckeys = ground_keys(cp)
    extra = [k for k in ckeys if k not in okeys]
    if len(okeys) > 12:
        return
    objs = list(pr.all_objects)
    disj_goal = any(OK.OR in _ops(gl) for gl in pr.goals)
    # W: every reference in the compiled problem resolves
    try:
        s0 = {k: False for k in ckeys}
        for ag in cp.agents:
            for a in ag.actions:
                for ps in itertools.product(*[list(cp.objects(p.type)) for p in a.parameters]):
                    successor(cp, ag, a, ps, s0)
                    for eff in a.effects:
                        target_key(cp, eff.fluent, s0, dict(zip(a.parameters, ps)), ag)
                        ev(cp, eff.condition, s0, dict(zip(a.parameters, ps)), ag)
        for gl in cp.goals:
            ev(cp, gl, s0, {}, None)
    except IllFormed as ex:
        bad(f"{name}: compiled problem is ill-formed" + (" [fake-goal fluent of a disjunctive goal]" if "fake_goal" in str(ex) else ""), str(ex)[:300])
        if "fake_goal" not in str(ex):
            return
        illformed_fake = True
    else:
        illformed_fake = False
    # variants per (agent, original action)
    for bits in itertools.product([False, True], repeat=len(okeys)):
        st = dict(zip(okeys, bits))
        cst = dict(st)
        for k in extra:
            cst[k] = False
        stats["n"] += 1
        for ag in pr.agents:
            cag = cp.agent(ag.name)
            for a in ag.actions:
                for ps in itertools.product(*[list(pr.objects(p.type)) for p in a.parameters]):
                    want = successor(pr, ag, a, ps, st)
                    n_app = 0
                    for ca in cag.actions:
                        try:
                            back = res.map_back_action_instance(ActionInstance(ca, tuple(ps) if len(ca.parameters) == len(ps) else (), agent=cag))
                        except Exception:  # noqa
                            continue
                        if back is None or back.action != a or len(ca.parameters) != len(ps):
                            continue
                        try:
                            got = successor(cp, cag, ca, ps, cst)
                        except IllFormed:
                            if illformed_fake:
                                ca2 = ca.clone()
                                ca2._effects = [e for e in ca.effects if "fake_goal" not in str(e.fluent)]
                                got = successor(cp, cag, ca2, ps, cst)
                            else:
                                raise
                        if got is None:
                            continue
                        n_app += 1
                        if want is None:
                            bad(f"{name}: a compiled variant is applicable where the original action is not", f"{ag.name}.{a.name}{ps} variant {ca.name} in {st}"[:500])
                        elif project(got, okeys) != want:
                            diff = {str(k): (want[k], got[k]) for k in okeys if want[k] != got[k]}
                            bad(f"{name}: an applicable variant yields a successor different from the original action's", f"{ag.name}.{a.name}{ps} variant {ca.name} in {st}: {diff}"[:600])
                    if want is not None and n_app == 0:
                        fired = [e for e in a.effects if not e.is_conditional() or ev(pr, e.condition, st, dict(zip(a.parameters, ps)), ag)]
                        tag = " [instance-that-changes-nothing: no effect fires]" if not fired else ""
                        bad(f"{name}: the original action is applicable but no compiled variant is{tag}", f"{ag.name}.{a.name}{ps} in {st}"[:500])
                    if which == "ce" and want is not None and n_app > 1:
                        bad(f"{name}: more than one variant is applicable", f"{ag.name}.{a.name}{ps}: {n_app} variants in {st}"[:500])
        # G
        og = all(ev(pr, gl, st, {}, None) for gl in pr.goals)
        if not (which == "dc" and disj_goal):
            try:
                cg = all(ev(cp, gl, cst, {}, None) for gl in cp.goals)
            except IllFormed as ex:
                bad(f"{name}: compiled goals do not resolve", str(ex)[:200])
                continue
            if og != cg:
                bad(f"{name}: compiled goals are not equivalent to the original goals", f"state {st}: original {og}, compiled {cg}; goals {pr.goals} vs {cp.goals}"[:600])
    stats["distinct"].add((which, seed))
    if which == "dc" and disj_goal:
        PERMISSIVE[0] = True
        try:
            fake_protocol(pr, cp, res, okeys, extra, name, bad, stats)
        except IllFormed as ex:
            bad(f"{name}: compiled problem does not resolve even under permissive name resolution", str(ex)[:300])
        finally:
            PERMISSIVE[0] = False


def fake_protocol(pr, cp, res, okeys, extra, name, bad, stats):
    """G for a disjunctive goal routed through fake-goal fluents (permissive resolution):
    soundness as a one-step inductive invariant over ALL compiled states: Inv(s) = (compiled goals hold in s  =>  original
    goals hold in s projected); Inv holds when the fake fluents are false... and is preserved by every compiled action from
    every state satisfying `witness fluents true => original goals hold`;
    completeness: from a state where the original goals hold (fake fluents false) the fake actions alone reach the compiled goals."""
    ckeys = okeys + extra
    acts = []
    for cag in cp.agents:
        for ca in cag.actions:
            for ps in itertools.product(*[list(cp.objects(p.type)) for p in ca.parameters]):
                try:
                    back = res.map_back_action_instance(ActionInstance(ca, tuple(ps), agent=cag))
                except Exception:  # noqa
                    back = "?"
                acts.append((cag, ca, ps, back is None))
    og = lambda st: all(ev(pr, gl, {k: st[k] for k in okeys}, {}, None) for gl in pr.goals)  # noqa
    cg = lambda st: all(ev(cp, gl, st, {}, None) for gl in cp.goals)  # noqa
    # witness invariant: every fake fluent that is true witnesses the original disjunctive goals it stands for; we use the
    # weakest useful form: (some fake fluent true) => original goals' disjunctive part holds; checked through cg => og
    for bits in itertools.product([False, True], repeat=len(ckeys)):
        st = dict(zip(ckeys, bits))
        anyfake = any(st[k] for k in extra)
        if anyfake and not og_disj(pr, st, okeys):
            continue            # not a state satisfying the witness invariant
        stats["n"] += 1
        if cg(st) and not og(st):
            bad(f"{name}: compiled goals hold in a state where the original goals do not (fake-goal fluents true only where the disjunctive goal holds)", f"{st}"[:500])
        for cag, ca, ps, is_fake in acts:
            ns = successor(cp, cag, ca, ps, st)
            if ns is None:
                continue
            if any(ns[k] for k in extra) and not og_disj(pr, ns, okeys):
                bad(f"{name}: a compiled action leaves a fake-goal fluent true in a state where the disjunctive goal it witnesses is false",
                    f"{cag.name}.{ca.name}{ps} from {st} to {ns}"[:700])
        if not anyfake and og(st):
            # closure under fake actions
            cur, changed, steps = st, True, 0
            while changed and steps < 6:
                changed = False
                steps += 1
                for cag, ca, ps, is_fake in acts:
                    if not is_fake:
                        continue
                    ns = successor(cp, cag, ca, ps, cur)
                    if ns is not None and ns != cur:
                        cur, changed = ns, True
            if not cg(cur):
                bad(f"{name}: the original goals hold but the compiled goals cannot be reached by the goal-witness actions", f"{st}"[:500])


def og_disj(pr, st, okeys):
    """the disjunctive goals of the original (those containing Or) hold"""
    sub = {k: st[k] for k in okeys}
    return all(ev(pr, gl, sub, {}, None) for gl in pr.goals if OK.OR in _ops(gl))


def _ops(e):
    out, stack = set(), [e]
    while stack:
        x = stack.pop()
        out.add(x.node_type)
        stack.extend(x.args)
    return out


def bounded(tier, seed):
    n = 12 if tier == "quick" else 150
    failures, stats = [], {"n": 0, "distinct": set(), "unsupported": 0}
    with warnings.catch_warnings():
        warnings.simplefilter("ignore")
        # directed family first (independent of the random stream), then the generated problems
        for i in [DIRECTED + j for j in range(directed_count())] + [seed * 100003 + k for k in range(n)]:
            for which in ("ce", "dc"):
                try:
                    scenario(i, which, failures, stats)
                except IllFormed as ex:
                    failures.append({"what": f"generated problem ill-formed (harness): {ex}", "concrete": {"seed": i}, "observed": None})
            if len(failures) >= 10:
                break
    return {"evaluations": stats["n"], "distinct_nontrivial": len(stats["distinct"]), "failures": failures[:10],
            "rule": f"{directed_count()} directed problems (conditional effects whose condition has several disjuncts) + {n} generated two-agent problems x 2 compilers x all 2^k states over the ground Boolean fluents (k <= 12) x every ground action; "
                    f"unsupported kinds skipped: {stats['unsupported']}",
            "samples": [{"unsupported_skipped": stats["unsupported"]}], "bound": f"{n} problems, all states (k<=12)"}


def replay_file(data):
    c = data.get("concrete") or {}
    failures, stats = [], {"n": 0, "distinct": set(), "unsupported": 0}
    with warnings.catch_warnings():
        warnings.simplefilter("ignore")
        scenario(c.get("seed", 0), c.get("compiler", "ce"), failures, stats)
    return {"reproduced": bool(failures), "concrete": c, "observed": [f["what"] for f in failures][:4]}


LEVEL = "exploration"
EXPLANATION = __doc__
TRUSTED = ["bounded only; the multi-agent reference semantics (name resolution of unqualified fluents) is this module's reading of the model's documentation",
           "the single-agent helpers the compilers share (_create_unconditional_actions, Dnf) are covered by C06/C07/C12",
           "goals routed through fake goal-witness fluents are judged under a permissive name resolution (strict resolution reports the known finding)"]
USES_THEORY = False

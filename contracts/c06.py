"""C06 — see DESIGN.md section 7 (C06).  Bounded layer over the shared compiler harness rtc/compcheck.py:
C06 every valid plan of the compiled problem maps back to a valid plan of the original (reference semantics);
C07 every valid original plan (<= k) has a compiled counterpart (<= k, +1 where a goal action is added);
C08 compile succeeds inside the supported kind, the result is well-formed (unique names, declared references,
    plan back-conversion available);
C09 the compiled problem's kind is contained in the declared resulting kind (also along pipelines).
"""
from rtc import compcheck
from contracts import compiler_kernels as _K

UNITS = _K.units("C06")
USES_THEORY = True
TRUSTED = list(_K.TRUSTED)


def bounded(tier, seed):
    return compcheck.run(tier, seed, ["C06"])["C06"]


LEVEL = "other"
EXPLANATION = __doc__ + "\n\nProved kernels (shared plumbing, contracts/compiler_kernels.py):\n" + _K.__doc__

"""C25 — DeltaSTN decides temporal consistency exactly.

B (exhaustive + seeded): every sequence of <= 3 (quick) / <= 4 (thorough) insertions add(x, y, b) over 3 events
with bounds in {-2..2} (including x == y), plus seeded longer (5-14 insertions) integer/rational histories over 4 and 5 events with
copies taken at random points, on the real DeltaSimpleTemporalNetwork against Floyd-Warshall / Bellman-Ford:
check_stn() iff the difference constraints have a solution; while consistent the reported model satisfies
every inserted constraint and is the least solution with all event times >= 0; a copy evolves independently.
The inductive invariant of the incremental Bellman-Ford (_inc_check; DESIGN.md C25) is not proved: that part is bounded only.

P (real source; the representation the consistency argument stands on):
  _is_subsumed   over a neighbour list of any length: True exactly when the nearest entry for the destination exists and is at least as tight;
  add            (with _is_subsumed / _inc_check by contract): an inconsistent network is never touched; otherwise both events get a distance
                 (0 when new), the destination gets a constraint entry, and unless subsumed the new constraint is prepended to the source's list
                 (older constraints are kept: the list only grows at its head) and the verdict is the one _inc_check returns;
  copy_stn       the copy owns fresh dictionaries with the same content and shares only the immutable neighbour nodes, so insertions into one
                 network cannot be seen by the other.
"""
import itertools
import random
from fractions import Fraction

USES_THEORY = False


def reference(events, cons):
    """(consistent, least non-negative solution) by Bellman-Ford from a virtual source; d <= 0, t = -d"""
    d = {e: Fraction(0) for e in events}
    for _ in range(len(events) + 1):
        ch = False
        for (x, y, b) in cons:           # x - y <= b   <=>   d[y] <= d[x] + b
            if d[x] + b < d[y]:
                d[y] = d[x] + b
                ch = True
        if not ch:
            return True, {e: -d[e] for e in events}
    return False, None


def run_history(hist, with_copies=None):
    """replays a history on the real class; returns list of failures (a call that does not return is a failure, not a hang)"""
    from rtc.watchdog import limit, NonTerminating
    try:
        with limit(30, "history"):
            return _run_history(hist, with_copies)
    except NonTerminating:
        return [f"the history {list(hist)} (copies at {sorted(with_copies or [])}) did not finish within 30 s: some operation does not terminate"]


def _run_history(hist, with_copies=None):
    from unified_planning.model.delta_stn import DeltaSimpleTemporalNetwork
    from rtc.watchdog import limit, NonTerminating
    stn = DeltaSimpleTemporalNetwork()
    cons = []
    events = set()
    bad = []
    copies = []
    for i, (x, y, b) in enumerate(hist):
        if with_copies and i in with_copies:
            copies.append((stn.copy_stn(), list(cons), set(events)))
        try:
            with limit(5, "add"):
                stn.add(x, y, b)
        except NonTerminating:
            bad.append(f"after {cons}: add({x}, {y}, {b}) did not return within 5 s (the incremental consistency check does not terminate)")
            return bad
        cons.append((x, y, b))
        events |= {x, y}
        ok, sol = reference(events, cons)
        if stn.check_stn() != ok:
            bad.append(f"after {cons}: check_stn()={stn.check_stn()} but constraints are {'consistent' if ok else 'inconsistent'}")
            return bad
        if ok:
            for e in events:
                if e not in stn or stn.get_stn_model(e) != sol[e]:
                    bad.append(f"after {cons}: model[{e}]={stn.get_stn_model(e) if e in stn else None}, least non-negative solution {sol[e]}")
                    return bad
        else:
            break
    for (c, ccons, cev) in copies:
        ok, sol = reference(cev, ccons)
        if c.check_stn() != ok or (ok and any(c.get_stn_model(e) != sol[e] for e in cev)):
            bad.append(f"a copy taken after {ccons} changed when the original evolved to {cons}")
        # and the copy can evolve on its own
        c.add("z", "a", -1)
        ok2, sol2 = reference(cev | {"z", "a"}, ccons + [("z", "a", -1)])
        if c.check_stn() != ok2:
            bad.append(f"copy after {ccons} + (z,a,-1): check_stn()={c.check_stn()} expected {ok2}")
    return bad


def run_interval_history(hist):
    """histories of insert_interval(left, right, left_bound=lb, right_bound=rb) calls: lb <= T(right) - T(left) <= rb, a missing bound is infinite
    (the documented meaning); checked after every call like the histories of add"""
    from unified_planning.model.delta_stn import DeltaSimpleTemporalNetwork
    from rtc.watchdog import limit, NonTerminating
    stn = DeltaSimpleTemporalNetwork()
    cons, events, bad = [], set(), []
    try:
        with limit(30, "interval history"):
            for (l, r, lb, rb) in hist:
                stn.insert_interval(l, r, left_bound=lb, right_bound=rb)
                if lb is not None:
                    cons.append((l, r, -lb))
                if rb is not None:
                    cons.append((r, l, rb))
                events |= {l, r}
                ok, sol = reference(events, cons)
                if stn.check_stn() != ok:
                    return [f"after the intervals {list(hist)}: check_stn()={stn.check_stn()} but the inserted constraints are {'consistent' if ok else 'inconsistent'}"]
                if not ok:
                    break
                for e in events:
                    if e not in stn or stn.get_stn_model(e) != sol[e]:
                        return [f"after the intervals {list(hist)}: model[{e}]={stn.get_stn_model(e) if e in stn else None}, least non-negative solution {sol[e]}"]
    except NonTerminating:
        return [f"the interval history {list(hist)} did not finish within 30 s"]
    return bad


def interval_histories(tier, seed):
    """exhaustive 1- and 2-call histories over 3 events with bounds None / 0 / Fraction(0) / +-1 / 2 on either side, sampled 3- and 4-call ones"""
    ev3 = ["a", "b", "c"]
    B_ = [None, 0, Fraction(0), 1, -1, 2, Fraction(1, 2)]
    steps = [(l, r, lb, rb) for l in ev3 for r in ev3 if l != r for lb in B_ for rb in B_]
    failures, evals = [], 0
    for n in (1, 2):
        for hist in itertools.product(steps, repeat=n):
            evals += 1
            bad = run_interval_history(hist)
            if bad:
                failures.append({"what": bad[0], "concrete": {"interval_history": [[l, r, str(lb), str(rb)] for l, r, lb, rb in hist]}, "observed": bad})
                if len(failures) >= 3:
                    return failures, evals
    rng = random.Random(seed + 77)
    for _ in range(4000 if tier == "quick" else 60000):
        hist = [rng.choice(steps) for _ in range(rng.randint(3, 4))]
        evals += 1
        bad = run_interval_history(hist)
        if bad:
            failures.append({"what": bad[0], "concrete": {"interval_history": [[l, r, str(lb), str(rb)] for l, r, lb, rb in hist]}, "observed": bad})
            if len(failures) >= 3:
                break
    return failures, evals


def bounded(tier, seed):
    L = 3 if tier == "quick" else 4
    ev3 = ["a", "b", "c"]
    steps = [(x, y, b) for x in ev3 for y in ev3 for b in (-2, -1, 0, 1, 2)]
    failures, evals, nontrivial, samples = [], 0, 0, []
    for n in range(1, L + 1):
        for hist in itertools.product(steps, repeat=n):
            if n == 4 and (__import__("zlib").crc32(repr(hist).encode()) % 7):     # thorough: a 1/7 slice of the 4-step histories (4.1M total)
                continue
            evals += 1
            bad = run_history(hist)
            if len({(x, y) for x, y, _ in hist}) > 1:
                nontrivial += 1
            if bad:
                failures.append({"what": bad[0], "concrete": {"history": [list(h) for h in hist]}, "observed": bad})
                if len(failures) >= 4:
                    break
        if len(failures) >= 4:
            break
    rng = random.Random(seed)
    ev4 = ["a", "b", "c", "d"]
    ev5 = ev4 + ["e"]
    for k in range(12000 if tier == "quick" else 150000):
        # dense histories: the same event is often improved twice within one propagation (diamonds)
        evs = ev5 if k % 2 else ev4
        n = rng.randint(5, 14)
        rat = rng.random() < 0.3
        hist = []
        for _ in range(n):
            x, y = rng.choice(evs), rng.choice(evs)
            b = Fraction(rng.randint(-6, 8), 2) if rat else rng.randint(-3, 4)
            hist.append((x, y, b))
        cp = {rng.randrange(n) for _ in range(2)} if rng.random() < 0.5 else None
        evals += 1
        nontrivial += 1
        bad = run_history(hist, cp)
        if bad:
            failures.append({"what": bad[0], "concrete": {"history": [[x, y, str(b)] for x, y, b in hist], "copies_at": sorted(cp or [])}, "observed": bad})
            if len(failures) >= 6:
                break
        if len(samples) < 2:
            samples.append({"history": [[x, y, str(b)] for x, y, b in hist]})
    # propagation-heavy family: 5 events, only non-positive bounds between distinct events, 6-9 insertions -- one insertion
    # often lowers an event twice along two paths (diamonds in the incremental Bellman-Ford)
    ev5 = ["a", "b", "c", "d", "e"]
    for k in range(25000 if tier == "quick" else 250000):
        if len(failures) >= 6:
            break
        hist = []
        for _ in range(rng.randint(6, 9)):
            x, y = rng.sample(ev5, 2)
            hist.append((x, y, rng.randint(-4, 0)))
        evals += 1
        nontrivial += 1
        bad = run_history(hist, {rng.randrange(len(hist))} if k % 5 == 0 else None)
        if bad:
            failures.append({"what": bad[0], "concrete": {"history": [[x, y, str(b)] for x, y, b in hist]}, "observed": bad})
    if len(failures) < 6:
        f2, e2 = interval_histories(tier, seed)
        failures += f2
        evals += e2
        nontrivial += e2
    return {"evaluations": evals, "distinct_nontrivial": nontrivial, "failures": failures[:6],
            "rule": f"all insertion histories of length <= {L} over 3 events x bounds -2..2 (self constraints included), insert_interval histories (all of length <= 2 over 3 events x "
                    f"bounds None/0/Fraction(0)/1/-1/2/1/2 on either side, sampled longer ones), plus seeded "
                    f"histories of 5-14 insertions over 4-5 events (integers and halves) with copies; non-trivial = history touching "
                    f"more than one event pair", "samples": samples, "exhaustive": True,
            "bound": f"length <= {L} exhaustive over 3 events; longer histories sampled"}


def replay_file(data):
    c = data["concrete"]
    if "interval_history" in c:
        # str() of the bound keeps int and Fraction zero apart ("0" vs "0"): both are tried
        def dec(x, frac):
            return None if x == "None" else (Fraction(x) if (frac or "/" in x) else int(x))
        for frac in (False, True):
            bad = run_interval_history([(l, r, dec(lb, frac), dec(rb, frac)) for l, r, lb, rb in c["interval_history"]])
            if bad:
                return {"reproduced": True, "concrete": c, "observed": bad}
        return {"reproduced": False, "concrete": c, "observed": []}
    hist = [(x, y, Fraction(b)) for x, y, b in c["history"]]
    bad = run_history(hist, set(c.get("copies_at") or []) or None)
    return {"reproduced": bool(bad), "concrete": c, "observed": bad}


# ======================================================================================================= proved layer
import z3
from pyvc.values import Ref, Map, Opt, Real as PReal, SBool, SRef, SReal, SUnion, SMap, Rec, Loc, fresh_name, zbool, zreal, Unsupported as _Unsup
from pyvc.values import Bool as PBool
from pyvc.verify import Unit
from pyvc.engine import LoopSpec
from pyvc import builtins as B
import unified_planning.model.delta_stn as _ds

Event = Ref("Event25")
Nb = Ref("DeltaNeighbors25", fields={"dst": Event, "bound": PReal})
Nb.fields["next"] = Opt(Nb)
_N, _E = Nb.z3sort(), Event.z3sort()
nb_dst, nb_bound = B._uf("DeltaNeighbors25.dst", _N, _E), B._uf("DeltaNeighbors25.bound", _N, z3.RealSort())
nb_next_none, nb_next = B._uf("DeltaNeighbors25.next.isnone", _N, z3.BoolSort()), B._uf("DeltaNeighbors25.next", _N, _N)
# nearest entry for a destination from a node on: defined by recursion on the list
HASF = z3.Function("has_entry_from", _N, _E, z3.BoolSort())
FIRSTB = z3.Function("nearest_bound_from", _N, _E, z3.RealSort())
QN_SUB = "unified_planning.model.delta_stn.DeltaSimpleTemporalNetwork._is_subsumed"


def list_axioms():
    n, y = z3.Const("n!25", _N), z3.Const("y!25", _E)
    return [z3.ForAll([n, y], HASF(n, y) == z3.Or(nb_dst(n) == y, z3.And(z3.Not(nb_next_none(n)), HASF(nb_next(n), y))), patterns=[HASF(n, y)]),
            z3.ForAll([n, y], FIRSTB(n, y) == z3.If(nb_dst(n) == y, nb_bound(n), FIRSTB(nb_next(n), y)), patterns=[FIRSTB(n, y)])]


def _stn(eng, st, sat=None):
    cons = eng.fresh_of(st, Map(Event, Opt(Nb)) if False else Map(Event, Nb), "constraints")
    # a constraint entry may be None (an event without outgoing constraints): modelled by a per-key flag
    cnone = z3.Array(fresh_name("constraints.isnone"), _E, z3.BoolSort())
    dist = eng.fresh_of(st, Map(Event, PReal), "distances")
    return cons, cnone, dist


class IsSubsumed(Unit):
    prop = "C25"
    name = "DeltaSimpleTemporalNetwork._is_subsumed"
    doc = "True exactly when the nearest entry of x's list for destination y exists and its bound is <= b (any list length)"

    def target(self):
        return _ds.DeltaSimpleTemporalNetwork._is_subsumed

    def configure(self, eng):
        eng.axioms += list_axioms()

        def inv(L):
            nb = L.neighbor
            y = L.y.z
            head = self._head
            if isinstance(nb, SUnion):
                g_none = nb.is_none().z
                cur = nb.some().z
                return [("nothing for y before the current node; the rest of the list decides",
                         z3.And(z3.Implies(g_none, z3.Not(self._has0)),
                                z3.Implies(z3.Not(g_none), z3.And(self._has0 == HASF(cur, y), z3.Implies(HASF(cur, y), self._first0 == FIRSTB(cur, y))))))]
            if nb is None:
                return [("nothing for y in the list", z3.Not(self._has0))]
            return [("the rest of the list decides", z3.And(self._has0 == HASF(nb.z, y), z3.Implies(HASF(nb.z, y), self._first0 == FIRSTB(nb.z, y))))]
        eng.loops[(QN_SUB, 0)] = LoopSpec(inv, modifies=["neighbor"], types={"neighbor": Opt(Nb)})

    def setup(self, eng, st):
        x, y, b = Event.fresh("x"), Event.fresh("y"), PReal.fresh("b")
        head_none = z3.Bool(fresh_name("head.isnone"))
        head = Nb.fresh("head")
        self._head = head
        self._has0 = z3.And(z3.Not(head_none), HASF(head.z, y.z))
        self._first0 = FIRSTB(head.z, y.z)
        CM = Ref("ConstraintMap25")

        def get(eng_, s, selfv, args, kw):
            yield s, SUnion([(head_none, None), (z3.Not(head_none), head)])
        CM.methods["get"] = get
        w = st.alloc(Rec(_ds.DeltaSimpleTemporalNetwork, {"_constraints": CM.fresh("constraints")}), "stn")
        return [w, x, y, b], {}, dict(b=b)

    def post(self, eng, ctx, st, out):
        if out[0] != "return":
            return
        r = eng.as_bool_value(st, out[1])
        st.oblige("subsumed iff the nearest entry for y exists and is at least as tight", zbool(r) == z3.And(self._has0, self._first0 <= ctx["b"].z))


class CopyStn(Unit):
    prop = "C25"
    name = "DeltaSimpleTemporalNetwork.copy_stn"
    doc = "fresh dictionaries with the same content, same verdict and epsilon: later insertions into one network cannot reach the other"

    def target(self):
        return _ds.DeltaSimpleTemporalNetwork.copy_stn

    def setup(self, eng, st):
        cons = eng.fresh_of(st, Map(Event, Nb), "constraints")
        dist = eng.fresh_of(st, Map(Event, PReal), "distances")
        cl, dl = st.alloc(cons, "dict"), st.alloc(dist, "dict")
        sat, eps = PBool.fresh("is_sat"), PReal.fresh("epsilon")
        w = st.alloc(Rec(_ds.DeltaSimpleTemporalNetwork, {"_constraints": cl, "_distances": dl, "_is_sat": sat, "_epsilon": eps}), "stn")
        return [w], {}, dict(w=w, cons=cons, dist=dist, cl=cl, dl=dl, sat=sat, eps=eps)

    def post(self, eng, ctx, st, out):
        if out[0] != "return":
            return
        r = eng.deref(st, out[1])
        if not isinstance(r, Rec):
            st.oblige("a network object is returned", z3.BoolVal(False))
            return
        f = r.fields
        for fld, src_loc, src in (("_constraints", ctx["cl"], ctx["cons"]), ("_distances", ctx["dl"], ctx["dist"])):
            loc = f[fld]
            st.oblige(f"{fld}: the copy owns a fresh dictionary", z3.BoolVal(isinstance(loc, Loc) and loc.id != src_loc.id))
            if isinstance(loc, Loc):
                st.oblige(f"{fld}: same content as the original", st.load(loc).same(src))
            st.oblige(f"{fld}: the original keeps its own dictionary, unchanged",
                      z3.And(z3.BoolVal(st.getfield(ctx["w"], fld).id == src_loc.id), st.load(src_loc).same(src).z))
        st.oblige("same verdict and epsilon", z3.And(zbool(f["_is_sat"]) == ctx["sat"].z, zreal(f["_epsilon"]) == ctx["eps"].z))


NbN = Ref("NeighborOrNone25")                    # Optional[DeltaNeighbors] as stored in the constraint map: null = None
NbN.null = z3.Const("NeighborOrNone25.None", NbN.z3sort())
_NN = NbN.z3sort()
n_dst, n_bound, n_next = z3.Function("node.dst", _NN, _E), z3.Function("node.bound", _NN, z3.RealSort()), z3.Function("node.next", _NN, _NN)
SUBSUMED = z3.Function("_is_subsumed.result", _E, _E, z3.RealSort(), z3.BoolSort())
INCCHECK = z3.Function("_inc_check.result", _E, _E, z3.RealSort(), z3.BoolSort())
MKN = z3.Function("DeltaNeighbors", _E, z3.RealSort(), _NN, _NN)


class Add(Unit):
    prop = "C25"
    name = "DeltaSimpleTemporalNetwork.add"
    doc = ("an inconsistent network is not touched; otherwise x and y get distances (0 when new), y gets a constraint entry, and unless subsumed the "
           "constraint (y, b) is prepended to x's list and the verdict is _inc_check's")

    def target(self):
        return _ds.DeltaSimpleTemporalNetwork.add

    def configure(self, eng):
        def mk(eng_, st0, args, kw):
            y, b, nxt0 = args
            for st, nxt in eng_.force(st0, nxt0):
                nz = nxt.z if isinstance(nxt, SRef) else NbN.null
                r = MKN(y.z, zreal(b), nz)
                st.assume(r != NbN.null, n_dst(r) == y.z, n_bound(r) == zreal(b), n_next(r) == nz)
                yield st, NbN.wrap(r)
        eng.contracts[_ds.DeltaNeighbors] = mk
        eng.contracts[_ds.DeltaSimpleTemporalNetwork._is_subsumed] = lambda e, st, a, k: iter([(st, SBool(SUBSUMED(a[1].z, a[2].z, zreal(a[3]))))])

        def inc(e, st, a, k):
            st.ghost["inc_state"] = (st.load(st.getfield(a[0], "_constraints")), st.load(st.getfield(a[0], "_distances")))
            yield st, SBool(INCCHECK(a[1].z, a[2].z, zreal(a[3])))
        eng.contracts[_ds.DeltaSimpleTemporalNetwork._inc_check] = inc

    def setup(self, eng, st):
        cons = eng.fresh_of(st, Map(Event, NbN), "constraints")
        dist = eng.fresh_of(st, Map(Event, PReal), "distances")
        cl, dl = st.alloc(cons, "dict"), st.alloc(dist, "dict")
        sat = PBool.fresh("is_sat")
        w = st.alloc(Rec(_ds.DeltaSimpleTemporalNetwork, {"_constraints": cl, "_distances": dl, "_is_sat": sat, "_epsilon": PReal.fresh("epsilon")}), "stn")
        x, y, b = Event.fresh("x"), Event.fresh("y"), PReal.fresh("b")
        return [w, x, y, b], {}, dict(w=w, cons=cons, dist=dist, cl=cl, dl=dl, sat=sat, x=x, y=y, b=b)

    def post(self, eng, ctx, st, out):
        if out[0] != "return":
            return
        w, c0, d0, sat0 = ctx["w"], ctx["cons"], ctx["dist"], ctx["sat"].z
        x, y, b = ctx["x"].z, ctx["y"].z, ctx["b"].z
        c1, d1 = st.load(st.getfield(w, "_constraints")), st.load(st.getfield(w, "_distances"))
        sat1 = zbool(st.getfield(w, "_is_sat"))
        k = z3.Const(fresh_name("k"), _E)
        st.oblige("an inconsistent network is left untouched", z3.Implies(z3.Not(sat0), z3.And(c1.same(c0).z, d1.same(d0).z, z3.Not(sat1))))
        st.oblige("both events have a distance afterwards: their old one, else 0",
                  z3.Implies(sat0, z3.And([z3.And(z3.Select(d1.has, e_), z3.Implies(z3.Select(d0.has, e_), z3.BoolVal(True))) for e_ in (x, y)])))
        sub = SUBSUMED(x, y, b)
        head0 = z3.If(z3.Select(c0.has, x), z3.Select(c0.val, x), NbN.null)
        newhead = z3.Select(c1.val, x)
        st.oblige("unless subsumed, the constraint (y, b) is prepended to x's list: the older constraints follow it unchanged",
                  z3.Implies(z3.And(sat0, z3.Not(sub)), z3.And(z3.Select(c1.has, x), newhead != NbN.null, n_dst(newhead) == y, n_bound(newhead) == b, n_next(newhead) == head0)))
        st.oblige("a subsumed constraint leaves x's list as it was", z3.Implies(z3.And(sat0, sub, z3.Select(c0.has, x)), z3.Select(c1.val, x) == z3.Select(c0.val, x)))
        st.oblige("the destination has a constraint entry (possibly empty)", z3.Implies(sat0, z3.Select(c1.has, y)))
        st.oblige("no other event's list changes",
                  z3.ForAll([k], z3.Implies(z3.And(k != x, k != y), z3.And(z3.Select(c1.has, k) == z3.Select(c0.has, k), z3.Select(c1.val, k) == z3.Select(c0.val, k)))))
        st.oblige("the verdict is the incremental check's (and stays true when the constraint is subsumed)",
                  z3.Implies(sat0, sat1 == z3.If(sub, z3.BoolVal(True), INCCHECK(x, y, b))))


class InsertInterval(Unit):
    prop = "C25"
    name = "DeltaSimpleTemporalNetwork.insert_interval"
    doc = ("lb <= T(right) - T(left) <= rb: add(left, right, -lb) iff a lower bound is given -- whatever its value, zero included --, then add(right, left, rb) iff an upper "
           "bound is given; with no bound at all both events are registered at distance 0 unless they already have one; nothing else is called")

    def target(self):
        return _ds.DeltaSimpleTemporalNetwork.insert_interval

    def configure(self, eng):
        def add(e, st, a, k):
            st.ghost["adds"] = st.ghost.get("adds", ()) + ((a[1], a[2], a[3]),)
            yield st, PBool.fresh("add_result")
        eng.contracts[_ds.DeltaSimpleTemporalNetwork.add] = add
        eng.contracts[__import__("typing").cast] = lambda e, st, a, k: iter([(st, a[1])])

    def setup(self, eng, st):
        dist = eng.fresh_of(st, Map(Event, PReal), "distances")
        dl = st.alloc(dist, "dict")
        w = st.alloc(Rec(_ds.DeltaSimpleTemporalNetwork, {"_distances": dl}), "stn")
        l, r = Event.fresh("left"), Event.fresh("right")
        lb, rb = Opt(PReal).fresh("left_bound"), Opt(PReal).fresh("right_bound")
        return [w, l, r], {"left_bound": lb, "right_bound": rb}, dict(w=w, dist=dist, l=l, r=r, lb=lb, rb=rb)

    def post(self, eng, ctx, st, out):
        if out[0] != "return":
            return
        adds = st.ghost.get("adds", ())
        l, r, lb, rb = ctx["l"], ctx["r"], ctx["lb"], ctx["rb"]
        d0, d1 = ctx["dist"], st.load(st.getfield(ctx["w"], "_distances"))
        lb_none, rb_none = self._is_none(st, lb), self._is_none(st, rb)
        # expected calls, as a formula over the guards of the two optional bounds
        n_expected = z3.If(lb_none, 0, 1) + z3.If(rb_none, 0, 1)
        st.oblige("one add per bound that is given (a bound of zero is a bound)", z3.IntVal(len(adds)) == n_expected)
        if adds:
            first_is_lower = z3.Not(lb_none)
            x, y, b = adds[0]
            st.oblige("the first call states the given lower bound as add(left, right, -lb), or -- without one -- the upper bound as add(right, left, rb)",
                      z3.If(first_is_lower, z3.And(x.z == l.z, y.z == r.z, zreal(b) == -self._val(lb)), z3.And(x.z == r.z, y.z == l.z, zreal(b) == self._val(rb))))
        if len(adds) >= 2:
            x, y, b = adds[1]
            st.oblige("the second call states the upper bound as add(right, left, rb)", z3.And(x.z == r.z, y.z == l.z, zreal(b) == self._val(rb)))
        k = z3.Const(fresh_name("k"), _E)
        both_none = z3.And(lb_none, rb_none)
        st.oblige("without any bound both events are registered: their old distance, else 0; with a bound the distances are left to add",
                  z3.If(both_none,
                        z3.And(z3.Select(d1.has, l.z), z3.Select(d1.has, r.z),
                               z3.Select(d1.val, l.z) == z3.If(z3.Select(d0.has, l.z), z3.Select(d0.val, l.z), 0),
                               z3.Implies(r.z != l.z, z3.Select(d1.val, r.z) == z3.If(z3.Select(d0.has, r.z), z3.Select(d0.val, r.z), 0)),
                               z3.ForAll([k], z3.Implies(z3.And(k != l.z, k != r.z), z3.And(z3.Select(d1.has, k) == z3.Select(d0.has, k), z3.Select(d1.val, k) == z3.Select(d0.val, k))))),
                        d1.same(d0).z))

    # the two optional bounds are SUnion values (None | real) created in setup; kept on the unit for the post-condition
    def _is_none(self, st, v):
        if v is None:
            return z3.BoolVal(True)
        if isinstance(v, SUnion):
            return z3.Or([g for g, x in v.alts if x is None] or [z3.BoolVal(False)])
        return z3.BoolVal(False)

    def _val(self, v):
        if isinstance(v, SUnion):
            for g, x in v.alts:
                if x is not None:
                    return zreal(x)
        return zreal(v) if v is not None else z3.RealVal(0)


def _probe_shared_nodes():
    """directed histories for shared constraint nodes: a pair is tightened on one side of a copy, then the other side propagates through it"""
    from unified_planning.model.delta_stn import DeltaSimpleTemporalNetwork
    from rtc.watchdog import limit, NonTerminating
    for first, tighten, later in (([("b", "a", 10), ("a", "b", -1)], ("b", "a", 3), [("c", "b", -7), ("a", "c", 0)]),
                                  ([("a", "b", 5)], ("a", "b", 1), [("b", "c", 0), ("c", "a", -3)]),
                                  ([("a", "b", 4), ("b", "c", 4)], ("b", "c", -2), [("c", "a", -1)])):
        for side in ("copy", "original"):
            try:
                with limit(10, "probe"):
                    a = DeltaSimpleTemporalNetwork()
                    for c in first:
                        a.add(*c)
                    b = a.copy_stn()
                    (b if side == "copy" else a).add(*tighten)
                    other = a if side == "copy" else b
                    cons = list(first)
                    for c in later:
                        other.add(*c)
                        cons.append(c)
                    ok, sol = reference({e for (x, y, _) in cons for e in (x, y)}, cons)
                    if other.check_stn() != ok or (ok and any(other.get_stn_model(e) != sol[e] for e in sol)):
                        return {"first": first, "copy_then_tighten_on": side, "tightened": tighten, "then_on_the_other": later,
                                "observed": f"check_stn()={other.check_stn()}, constraints consistent={ok}"}
            except NonTerminating:
                return {"first": first, "copy_then_tighten_on": side, "tightened": tighten, "then_on_the_other": later, "observed": "does not terminate"}
    return None


def extra_checks(tier, seed):
    """frame condition the copy_stn contract stands on, re-checked on the source every run: a DeltaNeighbors node is never written after
    construction (copies share the nodes), i.e. no store to .dst / .bound / .next anywhere in the module"""
    import ast
    path = _ds.__file__
    tree = ast.parse(open(path).read())
    failures, n = [], 0
    for node in ast.walk(tree):
        if isinstance(node, (ast.Assign, ast.AugAssign, ast.AnnAssign)):
            targets = node.targets if isinstance(node, ast.Assign) else [node.target]
            for t in targets:
                for x in ast.walk(t):
                    n += 1
                    if isinstance(x, ast.Attribute) and x.attr in ("dst", "bound", "next") and isinstance(x.ctx, ast.Store):
                        rep = _probe_shared_nodes()
                        if rep is None:
                            continue        # nodes are written, but no network obtained by copy_stn is seen to be affected (e.g. copies are deep)
                        failures.append({"reproduced": True, "concrete": rep,
                                         "what": f"a constraint node is written after construction ({ast.unparse(t)} at delta_stn.py:{node.lineno}): "
                                                 f"networks obtained by copy_stn share their nodes, so one network's insertion changes the other",
                                         "observed": ast.unparse(node)})
    return {"nodes": n, "failures": failures, "rule": "no store to DeltaNeighbors.dst/.bound/.next in unified_planning/model/delta_stn.py"}


UNITS = [IsSubsumed(), CopyStn(), Add(), InsertInterval()]
LEVEL = "other"
EXPLANATION = __doc__
TRUSTED = ["DeltaNeighbors nodes are immutable after construction: checked syntactically on every run (extra_checks: no store to dst / bound / next in the module), not deductively",
           "the incremental Bellman-Ford (_inc_check) and therefore the consistency verdict and the least solution are decided by the bounded layer only"]

"""C25 — DeltaSTN decides temporal consistency exactly.

B (exhaustive + seeded): every sequence of <= 3 (quick) / <= 4 (thorough) insertions add(x, y, b) over 3 events
with bounds in {-2..2} (including x == y), plus seeded longer (5-14 insertions) integer/rational histories over 4 and 5 events with
copies taken at random points, on the real DeltaSimpleTemporalNetwork against Floyd-Warshall / Bellman-Ford:
check_stn() iff the difference constraints have a solution; while consistent the reported model satisfies
every inserted constraint and is the least solution with all event times >= 0; a copy evolves independently.
The inductive invariant of the incremental Bellman-Ford (DESIGN.md C25) is not proved: bounded only.
"""
import itertools
import random
from fractions import Fraction

UNITS = []
USES_THEORY = False


def reference(events, cons):
    """(consistent, least non-negative solution) by Bellman-Ford from a virtual source; d <= 0, t = -d"""
    d = {e: Fraction(0) for e in events}
    for _ in range(len(events) + 1):
        ch = False
        for (x, y, b) in cons:           # x - y <= b   <=>   d[y] <= d[x] + b
            if d[x] + b < d[y]:
                d[y] = d[x] + b
                ch = True
        if not ch:
            return True, {e: -d[e] for e in events}
    return False, None


def run_history(hist, with_copies=None):
    """replays a history on the real class; returns list of failures"""
    from unified_planning.model.delta_stn import DeltaSimpleTemporalNetwork
    stn = DeltaSimpleTemporalNetwork()
    cons = []
    events = set()
    bad = []
    copies = []
    for i, (x, y, b) in enumerate(hist):
        if with_copies and i in with_copies:
            copies.append((stn.copy_stn(), list(cons), set(events)))
        stn.add(x, y, b)
        cons.append((x, y, b))
        events |= {x, y}
        ok, sol = reference(events, cons)
        if stn.check_stn() != ok:
            bad.append(f"after {cons}: check_stn()={stn.check_stn()} but constraints are {'consistent' if ok else 'inconsistent'}")
            return bad
        if ok:
            for e in events:
                if e not in stn or stn.get_stn_model(e) != sol[e]:
                    bad.append(f"after {cons}: model[{e}]={stn.get_stn_model(e) if e in stn else None}, least non-negative solution {sol[e]}")
                    return bad
        else:
            break
    for (c, ccons, cev) in copies:
        ok, sol = reference(cev, ccons)
        if c.check_stn() != ok or (ok and any(c.get_stn_model(e) != sol[e] for e in cev)):
            bad.append(f"a copy taken after {ccons} changed when the original evolved to {cons}")
        # and the copy can evolve on its own
        c.add("z", "a", -1)
        ok2, sol2 = reference(cev | {"z", "a"}, ccons + [("z", "a", -1)])
        if c.check_stn() != ok2:
            bad.append(f"copy after {ccons} + (z,a,-1): check_stn()={c.check_stn()} expected {ok2}")
    return bad


def bounded(tier, seed):
    L = 3 if tier == "quick" else 4
    ev3 = ["a", "b", "c"]
    steps = [(x, y, b) for x in ev3 for y in ev3 for b in (-2, -1, 0, 1, 2)]
    failures, evals, nontrivial, samples = [], 0, 0, []
    for n in range(1, L + 1):
        for hist in itertools.product(steps, repeat=n):
            if n == 4 and (__import__("zlib").crc32(repr(hist).encode()) % 7):     # thorough: a 1/7 slice of the 4-step histories (4.1M total)
                continue
            evals += 1
            bad = run_history(hist)
            if len({(x, y) for x, y, _ in hist}) > 1:
                nontrivial += 1
            if bad:
                failures.append({"what": bad[0], "concrete": {"history": [list(h) for h in hist]}, "observed": bad})
                if len(failures) >= 4:
                    break
        if len(failures) >= 4:
            break
    rng = random.Random(seed)
    ev4 = ["a", "b", "c", "d"]
    ev5 = ev4 + ["e"]
    for k in range(12000 if tier == "quick" else 150000):
        # dense histories: the same event is often improved twice within one propagation (diamonds)
        evs = ev5 if k % 2 else ev4
        n = rng.randint(5, 14)
        rat = rng.random() < 0.3
        hist = []
        for _ in range(n):
            x, y = rng.choice(evs), rng.choice(evs)
            b = Fraction(rng.randint(-6, 8), 2) if rat else rng.randint(-3, 4)
            hist.append((x, y, b))
        cp = {rng.randrange(n) for _ in range(2)} if rng.random() < 0.5 else None
        evals += 1
        nontrivial += 1
        bad = run_history(hist, cp)
        if bad:
            failures.append({"what": bad[0], "concrete": {"history": [[x, y, str(b)] for x, y, b in hist], "copies_at": sorted(cp or [])}, "observed": bad})
            if len(failures) >= 6:
                break
        if len(samples) < 2:
            samples.append({"history": [[x, y, str(b)] for x, y, b in hist]})
    # propagation-heavy family: 5 events, only non-positive bounds between distinct events, 6-9 insertions -- one insertion
    # often lowers an event twice along two paths (diamonds in the incremental Bellman-Ford)
    ev5 = ["a", "b", "c", "d", "e"]
    for k in range(25000 if tier == "quick" else 250000):
        if len(failures) >= 6:
            break
        hist = []
        for _ in range(rng.randint(6, 9)):
            x, y = rng.sample(ev5, 2)
            hist.append((x, y, rng.randint(-4, 0)))
        evals += 1
        nontrivial += 1
        bad = run_history(hist, {rng.randrange(len(hist))} if k % 5 == 0 else None)
        if bad:
            failures.append({"what": bad[0], "concrete": {"history": [[x, y, str(b)] for x, y, b in hist]}, "observed": bad})
    return {"evaluations": evals, "distinct_nontrivial": nontrivial, "failures": failures[:6],
            "rule": f"all insertion histories of length <= {L} over 3 events x bounds -2..2 (self constraints included), plus seeded "
                    f"histories of 5-14 insertions over 4-5 events (integers and halves) with copies; non-trivial = history touching "
                    f"more than one event pair", "samples": samples, "exhaustive": True,
            "bound": f"length <= {L} exhaustive over 3 events; longer histories sampled"}


def replay_file(data):
    c = data["concrete"]
    hist = [(x, y, Fraction(b)) for x, y, b in c["history"]]
    bad = run_history(hist, set(c.get("copies_at") or []) or None)
    return {"reproduced": bool(bad), "concrete": c, "observed": bad}


LEVEL = "exploration"
EXPLANATION = __doc__

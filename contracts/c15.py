"""C15 — expression type inference is sound and symmetric.

B: random numeric / Boolean / object expressions over fluents and parameters with bounded and half-bounded types:
under random interpretations that respect the declared types (bounds included as extreme values) the value of every
sub-expression lies in the interval the real TypeChecker infers (exact rational arithmetic, division by non-zero
constants, products with unbounded factors); Boolean and user-typed expressions get exactly their type;
Equals(a, b) is accepted iff Equals(b, a) is, over all pairs of sample operands (also after a rejected construction).
"""
import itertools
import warnings
from fractions import Fraction

UNITS = []
USES_THEORY = False


def bounded(tier, seed):
    from rtc.exprgen import ExprGen
    from spec.ev import ev
    from unified_planning.shortcuts import Equals, Int, Real, TRUE, Plus, Times, Div, Minus
    from unified_planning.environment import Environment
    n = 1500 if tier == "quick" else 30000
    g = ExprGen(seed + 2, big=True, bounded_types=True)
    rng = g.rng
    failures, evals, nontrivial, samples = [], 0, set(), []
    with warnings.catch_warnings():
        warnings.simplefilter("ignore")
        for i in range(n):
            try:
                e = g.num(3)
                t = e.type
            except ZeroDivisionError:
                continue
            except Exception as ex:  # noqa
                continue
            evals += 1
            lo, hi = t.lower_bound, t.upper_bound
            if lo is not None or hi is not None:
                nontrivial.add(str(e))
            for b in (lo, hi):
                if b is not None and not isinstance(b, (int, Fraction)):
                    failures.append({"what": f"inferred bound {b!r} is a {type(b).__name__}, not an exact rational", "concrete": {"expression": str(e)}, "observed": str(t)})
            for _ in range(4):
                lk = g.interp(within_types=True)
                try:
                    v = ev(e, lk, {}, g.pr)
                except ZeroDivisionError:
                    continue
                if t.is_int_type() and Fraction(v).denominator != 1:
                    failures.append({"what": "expression typed integer takes a non-integer value", "concrete": {"expression": str(e)}, "observed": {"type": str(t), "value": str(v)}})
                    break
                if (lo is not None and v < lo) or (hi is not None and v > hi):
                    failures.append({"what": "value outside the inferred interval", "concrete": {"expression": str(e)}, "observed": {"type": str(t), "value": str(v)}})
                    break
            if len(samples) < 3 and i % 211 == 3:
                samples.append({"expression": str(e)[:140], "type": str(t)})
            if len(failures) >= 6:
                break
        # symmetry of well-formedness of Equals over sample operands of every kind
        ops = [Int(5), Real(Fraction(1, 2)), TRUE(), g.x(), g.y(), g.q(), g.p(g.objs[0]), g.loc(g.objs[0])] + [em_obj for em_obj in map(lambda o: g.pr.environment.expression_manager.ObjectExp(o), g.objs)]
        for _ in range(2):      # twice: the second round runs after the rejected constructions of the first
            for a, b in itertools.permutations(ops, 2):
                def ok(x, y):
                    try:
                        Equals(x, y)
                        return True
                    except Exception:  # noqa
                        return False
                evals += 1
                r1, r2 = ok(a, b), ok(b, a)
                if r1 != r2:
                    failures.append({"what": f"Equals({a}, {b}) is {'accepted' if r1 else 'rejected'} but Equals({b}, {a}) is {'accepted' if r2 else 'rejected'}",
                                     "concrete": {"a": str(a), "b": str(b)}, "observed": [r1, r2]})
                r3 = ok(a, b)
                if r3 != r1:
                    failures.append({"what": f"Equals({a}, {b}) was {'accepted' if r1 else 'rejected'} first and {'accepted' if r3 else 'rejected'} when repeated",
                                     "concrete": {"a": str(a), "b": str(b)}, "observed": [r1, r3]})
    return {"evaluations": evals, "distinct_nontrivial": len(nontrivial), "failures": failures[:8],
            "rule": f"{n} random numeric expressions (depth <= 3) over bounded / half-bounded fluents, 4 type-respecting interpretations "
                    f"each (bounds as extreme values); Equals symmetry over all ordered pairs of 11 operands, twice; non-trivial = "
                    f"expression with at least one inferred bound", "samples": samples, "bound": f"{n} expressions"}


LEVEL = "exploration"
EXPLANATION = __doc__

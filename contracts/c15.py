"""C15 — expression type inference is sound and symmetric.

P (fold schema, DESIGN.md 3.1; DagWalker.walk computes the fold of the handlers -- C14): for every operator kind the handler the
real TypeChecker dispatches it to is executed symbolically from /repo's source against the local soundness obligation
    (for all children j: args[j] is None or value(arg_j) in [[args[j]]])  =>  result is None or value(e) in [[result]]
with [[t]] the interval of a numeric type (None bound = unbounded) and value(e) the uninterpreted evaluation under one arbitrary
fixed interpretation.  PLUS and TIMES are proved for every arity (loop invariants over a symbolic argument list), MINUS / DIV for
their two arguments; the float +-inf / nan bookkeeping of the handlers is modelled exactly (pyvc/extnum.py).  Integer types:
`is_int(result) => every argument type is an int type` is proved and closure of Z under + - * is the (trusted) arithmetic fact.
Every bound handed to IntType / RealType is proved to be None or a finite int / rational (the constructors' own asserts).
Boolean / relation / leaf handlers are proved to return exactly BOOL / the declared type.  Symmetry of walk_equals is a 2-safety
obligation: both argument orders give the same outcome (BOOL / None / UPTypeError) for all pairs of types.

B: random numeric / Boolean / object expressions over fluents and parameters with bounded and half-bounded types:
under random interpretations that respect the declared types (bounds included as extreme values) the value of every
sub-expression lies in the interval the real TypeChecker infers (exact rational arithmetic, division by non-zero
constants, products with unbounded factors); Boolean and user-typed expressions get exactly their type;
Equals(a, b) is accepted iff Equals(b, a) is, over all pairs of sample operands (also after a rejected construction).
"""
import itertools
import warnings
from fractions import Fraction

USES_THEORY = True


def bounded(tier, seed):
    from rtc.exprgen import ExprGen
    from spec.ev import ev
    from unified_planning.shortcuts import Equals, Int, Real, TRUE, Plus, Times, Div, Minus
    from unified_planning.environment import Environment
    n = 1500 if tier == "quick" else 30000
    g = ExprGen(seed + 2, big=True, bounded_types=True)
    rng = g.rng
    failures, evals, nontrivial, samples = [], 0, set(), []
    with warnings.catch_warnings():
        warnings.simplefilter("ignore")
        for i in range(n):
            try:
                e = g.num(3)
                t = e.type
            except ZeroDivisionError:
                continue
            except Exception as ex:  # noqa
                continue
            evals += 1
            lo, hi = t.lower_bound, t.upper_bound
            if lo is not None or hi is not None:
                nontrivial.add(str(e))
            for b in (lo, hi):
                if b is not None and not isinstance(b, (int, Fraction)):
                    failures.append({"what": f"inferred bound {b!r} is a {type(b).__name__}, not an exact rational", "concrete": {"expression": str(e)}, "observed": str(t)})
            for _ in range(4):
                lk = g.interp(within_types=True)
                try:
                    v = ev(e, lk, {}, g.pr)
                except ZeroDivisionError:
                    continue
                if t.is_int_type() and Fraction(v).denominator != 1:
                    failures.append({"what": "expression typed integer takes a non-integer value", "concrete": {"expression": str(e)}, "observed": {"type": str(t), "value": str(v)}})
                    break
                if (lo is not None and v < lo) or (hi is not None and v > hi):
                    failures.append({"what": "value outside the inferred interval", "concrete": {"expression": str(e)}, "observed": {"type": str(t), "value": str(v)}})
                    break
            if len(samples) < 3 and i % 211 == 3:
                samples.append({"expression": str(e)[:140], "type": str(t)})
            if len(failures) >= 6:
                break
        # directed family: constants beyond the range of a float (the statement says "any magnitude") next to bounded, half-bounded and unbounded
        # operands.  The inferred type must exist, have exact bounds and contain the values at sampled leaves.
        HUGE = [10 ** 400, -(10 ** 400), Fraction(10 ** 400, 3), 2 ** 1024]
        leaves = [g.x, g.z, g.y, g.s_]           # bounded int, half-bounded int, bounded real, unbounded int (see ExprGen)
        for h in HUGE:
            hc = Int(h) if isinstance(h, int) else Real(h)
            for leaf in leaves:
                for nm, mk in (("plus", lambda a, b: Plus(a, b)), ("plus'", lambda a, b: Plus(b, a)), ("minus", lambda a, b: Minus(a, b)),
                               ("minus'", lambda a, b: Minus(b, a)), ("times", lambda a, b: Times(a, b)), ("times'", lambda a, b: Times(b, a, a)),
                               ("div", lambda a, b: Div(a, b))):
                    evals += 1
                    try:
                        e = mk(leaf(), hc)
                        t = e.type
                    except Exception as ex:  # noqa: no documented rejection applies to these well-typed arithmetic expressions
                        what = (f"type inference raised {type(ex).__name__} for a well-formed expression with a constant beyond the float range and an operand "
                                f"without {'lower or upper' if leaf().type.lower_bound is None and leaf().type.upper_bound is None else 'one'} bound "
                                f"[huge-constant:{type(ex).__name__}:{nm.rstrip(chr(39))}]")
                        if what not in {f["what"] for f in failures}:
                            failures.append({"what": what, "concrete": {"operation": nm, "leaf": str(leaf().type), "constant": str(h)[:30] + "..."}, "observed": repr(ex)})
                        continue
                    lo, hi = t.lower_bound, t.upper_bound
                    for b in (lo, hi):
                        if b is not None and not isinstance(b, (int, Fraction)):
                            failures.append({"what": f"inferred bound {b!r} is a {type(b).__name__}, not an exact rational", "concrete": {"expression": str(e)[:80]}, "observed": str(t)[:80]})
                    for _ in range(3):
                        lk = g.interp(within_types=True)
                        v = ev(e, lk, {}, g.pr)
                        if (lo is not None and v < lo) or (hi is not None and v > hi):
                            failures.append({"what": "value outside the inferred interval (huge constant)", "concrete": {"operation": nm, "leaf": str(leaf().type)}, "observed": None})
                            break
        # symmetry of well-formedness of Equals over sample operands of every kind
        ops = [Int(5), Real(Fraction(1, 2)), TRUE(), g.x(), g.y(), g.q(), g.p(g.objs[0]), g.loc(g.objs[0])] + [em_obj for em_obj in map(lambda o: g.pr.environment.expression_manager.ObjectExp(o), g.objs)]
        for _ in range(2):      # twice: the second round runs after the rejected constructions of the first
            for a, b in itertools.permutations(ops, 2):
                def ok(x, y):
                    try:
                        Equals(x, y)
                        return True
                    except Exception:  # noqa
                        return False
                evals += 1
                r1, r2 = ok(a, b), ok(b, a)
                if r1 != r2:
                    failures.append({"what": f"Equals({a}, {b}) is {'accepted' if r1 else 'rejected'} but Equals({b}, {a}) is {'accepted' if r2 else 'rejected'}",
                                     "concrete": {"a": str(a), "b": str(b)}, "observed": [r1, r2]})
                r3 = ok(a, b)
                if r3 != r1:
                    failures.append({"what": f"Equals({a}, {b}) was {'accepted' if r1 else 'rejected'} first and {'accepted' if r3 else 'rejected'} when repeated",
                                     "concrete": {"a": str(a), "b": str(b)}, "observed": [r1, r3]})
    return {"evaluations": evals, "distinct_nontrivial": len(nontrivial), "failures": failures[:12],
            "rule": f"{n} random numeric expressions (depth <= 3) over bounded / half-bounded fluents, 4 type-respecting interpretations "
                    f"each (bounds as extreme values); Equals symmetry over all ordered pairs of 11 operands, twice; non-trivial = "
                    f"expression with at least one inferred bound", "samples": samples, "bound": f"{n} expressions"}




# ======================================================================================================= proved layer
import z3
from pyvc.values import Ref, Seq, Opt, Bool as PBool, SBool, SRef, SUnion, SSeq, Rec, CList, fresh_name, zbool
from pyvc.verify import Unit
from pyvc.engine import LoopSpec
from pyvc import builtins as B
from pyvc import extnum as X
from . import theory as T
from .theory import OK, evn, args_arr, args_len, ssum, sprod
import unified_planning.model.types as _types
import unified_planning.model.walkers.type_checker as _tc
from unified_planning.model.walkers.generic import nt_to_fun
from unified_planning.exceptions import UPTypeError as _UPTypeError

QN = "unified_planning.model.walkers.type_checker.TypeChecker."
Type15 = Ref("Type15", _types.Type)
_TS = Type15.z3sort()
Type15.null = z3.Const("Type15.None", _TS)
BOOLc, TIMEc = z3.Const("Type15.BOOL", _TS), z3.Const("Type15.TIME", _TS)
for _m in ("is_bool_type", "is_int_type", "is_real_type", "is_user_type", "is_time_type"):
    Type15.observers[_m] = ((), PBool)
Type15.observers["is_compatible"] = ((Type15,), PBool)
Type15.fields["ancestors"] = Seq(Type15)
Type15.isinstance_hook = lambda e, st, v, clss: True      # only reached through typing.cast / asserts after an is_*_type test


def _obs(name):
    return B._uf(f"Type15.{name}()", _TS, z3.BoolSort())


is_bool, is_int, is_real, is_user, is_time = (_obs(n) for n in ("is_bool_type", "is_int_type", "is_real_type", "is_user_type", "is_time_type"))
lbnone, ubnone = z3.Function("Type15.lb.isnone", _TS, z3.BoolSort()), z3.Function("Type15.ub.isnone", _TS, z3.BoolSort())
lbR, ubR = z3.Function("Type15.lb", _TS, z3.RealSort()), z3.Function("Type15.ub", _TS, z3.RealSort())
mkInt = z3.Function("TypeManager.IntType", z3.BoolSort(), z3.RealSort(), z3.BoolSort(), z3.RealSort(), _TS)
mkReal = z3.Function("TypeManager.RealType", z3.BoolSort(), z3.RealSort(), z3.BoolSort(), z3.RealSort(), _TS)


def _bound_attr(nonef, valf, which):
    def attr(eng, st, t):
        st.oblige(f"{which} is read on a numeric type only", z3.Or(is_int(t.z), is_real(t.z)))
        return SUnion([(nonef(t.z), None), (z3.Not(nonef(t.z)), X.SExt(z3.If(is_int(t.z), X.K_INT, X.K_FRAC), valf(t.z)))])
    return attr


Type15.attrs["lower_bound"] = _bound_attr(lbnone, lbR, "lower_bound")
Type15.attrs["upper_bound"] = _bound_attr(ubnone, ubR, "upper_bound")

TM15 = Ref("TypeManager15")
Env15 = Ref("Environment15", fields={"type_manager": TM15})


def _mk_numeric(is_int_type):
    def m(eng, st, selfv, args, kw):
        lo, hi = (list(args) + [None, None])[:2]
        lo, hi = kw.get("lower_bound", lo), kw.get("upper_bound", hi)
        parts = []
        for nm, b in (("lower", lo), ("upper", hi)):
            if b is None:
                parts += [z3.BoolVal(True), z3.RealVal(0)]
                continue
            e = X.to_ext(b)
            if e is None:
                raise Unsupported(f"bound {b!r}")
            if is_int_type:
                st.oblige(f"IntType {nm} bound is None or an int (constructor assert)", e.k == X.K_INT)
                st.assume(e.k == X.K_INT)
            else:
                st.oblige(f"RealType {nm} bound is None or a finite int / Fraction (uniform_numeric_constant)", e.finite())
                st.assume(e.finite())
            parts += [z3.BoolVal(False), e.v]
        r = (mkInt if is_int_type else mkReal)(*parts)
        st.assume(r != Type15.null, is_int(r) == z3.BoolVal(is_int_type), is_real(r) == z3.BoolVal(not is_int_type),
                  z3.Not(is_bool(r)), z3.Not(is_user(r)), z3.Not(is_time(r)), r != BOOLc, r != TIMEc,
                  lbnone(r) == parts[0], ubnone(r) == parts[2])
        if lo is not None:
            st.assume(lbR(r) == parts[1])
        if hi is not None:
            st.assume(ubR(r) == parts[3])
        yield st, Type15.wrap(r)
    return m


TM15.methods["IntType"] = _mk_numeric(True)
TM15.methods["RealType"] = _mk_numeric(False)


def type_axioms():
    t = z3.Const("t!15", _TS)
    flags = [is_bool(t), is_int(t), is_real(t), is_user(t), is_time(t)]
    import itertools as _it
    excl = z3.And([z3.Or(z3.Not(a), z3.Not(b)) for a, b in _it.combinations(flags, 2)])
    ax = [z3.ForAll([t], excl, patterns=[is_int(t)]), z3.ForAll([t], excl, patterns=[is_real(t)]),
          z3.ForAll([t], excl, patterns=[is_user(t)]),
          z3.ForAll([t], is_bool(t) == (t == BOOLc), patterns=[is_bool(t)]),      # BOOL / TIME are singletons (types.py)
          z3.ForAll([t], is_time(t) == (t == TIMEc), patterns=[is_time(t)]),
          BOOLc != Type15.null, TIMEc != Type15.null, BOOLc != TIMEc,
          is_bool(BOOLc), z3.Not(is_int(BOOLc)), z3.Not(is_real(BOOLc)), z3.Not(is_user(BOOLc)), z3.Not(is_time(BOOLc)),
          is_time(TIMEc), z3.Not(is_int(TIMEc)), z3.Not(is_real(TIMEc)), z3.Not(is_user(TIMEc)), z3.Not(is_bool(TIMEc))]
    return ax


def numeric(t):
    return z3.Or(is_int(t), is_real(t))


def within(t, v):
    """v lies in the interval of the numeric type t"""
    return z3.And(z3.Or(lbnone(t), lbR(t) <= v), z3.Or(ubnone(t), v <= ubR(t)))


def _install(eng):
    eng.lift[id(_types.BOOL)] = Type15.wrap(BOOLc)
    eng.lift[id(_types.TIME)] = Type15.wrap(TIMEc)
    eng.axioms += type_axioms() + T.semantic_axioms() + T.fold_axioms() + T.prefix_lemmas()
    T.Parameter.fields["type"] = Type15
    T.Variable.fields["type"] = Type15
    T.Object.fields["type"] = Type15
    T.Fluent.fields["type"] = Type15
    T.Fluent.fields["signature"] = Seq(T.Parameter)
    T.IFun.fields["return_type"] = Type15
    T.IFun.fields["signature"] = Seq(T.Parameter)
    # declared types are Type objects, never None (constructors of Parameter / Variable / Object / Fluent assert it)
    for ref, nm, fld in ((T.Parameter, "Parameter", "type"), (T.Variable, "Variable", "type"), (T.Object, "Object", "type"),
                         (T.Fluent, "Fluent", "type"), (T.IFun, "InterpretedFunction", "return_type")):
        x = z3.Const("x!decl", ref.z3sort())
        f = B._uf(f"{nm}.{fld}", ref.z3sort(), _TS)
        eng.axioms.append(z3.ForAll([x], f(x) != Type15.null, patterns=[f(x)]))


def _opt_ext(v):
    """(is-None as z3 Bool, SExt | None) of a local that is None or an extended number"""
    if v is None:
        return z3.BoolVal(True), None
    if isinstance(v, SUnion):
        g, ext = None, None
        for gg, a in v.alts:
            if a is None:
                g = gg
            else:
                ext = X.to_ext(a)
        return (g if g is not None else z3.BoolVal(False)), ext
    return z3.BoolVal(False), X.to_ext(v)


def _ex_prefix(seq, i, pred):
    j = z3.Int(fresh_name("j"))
    return z3.Exists([j], z3.And(0 <= j, j < i, pred(z3.Select(seq.arr, j))))


def _all_prefix(seq, i, pred):
    j = z3.Int(fresh_name("j"))
    return z3.ForAll([j], z3.Implies(z3.And(0 <= j, j < i), pred(z3.Select(seq.arr, j))))


class NumHandler(Unit):
    """interval soundness of one arithmetic handler"""
    prop = "C15"
    allowed_raises = ()

    def __init__(self, kind):
        self.kind = kind
        self.fn = getattr(_tc.TypeChecker, nt_to_fun(kind))
        self.name = f"TypeChecker[{kind.name}] -> {self.fn.__name__}"
        self.doc = "children values lie in the children's inferred types  =>  the node's value lies in the inferred type"
        if kind == OK.DIV:
            self.allowed_raises = (ZeroDivisionError,)

    def target(self):
        return self.fn

    def configure(self, eng):
        _install(eng)
        fname = self.fn.__name__
        time_ok = fname in ("walk_plus", "walk_minus")

        def ok_arg(t):
            base = z3.And(t != Type15.null, numeric(t))
            return z3.Or(base, t == TIMEc) if time_ok else base

        def scan(L):
            args, i = L._seq, zint15(L._i)
            out = [("scanned arguments are numeric" + (" or TIME" if time_ok else ""), _all_prefix(args, i, ok_arg)),
                   ("has_real == some scanned argument is a real type", zbool(L.has_real) == _ex_prefix(args, i, is_real))]
            if time_ok:
                out.append(("is_time == some scanned argument is TIME", zbool(L.is_time) == _ex_prefix(args, i, lambda t: t == TIMEc)))
            return out
        if fname in ("walk_plus", "walk_times"):
            eng.loops[(QN + fname, 0)] = LoopSpec(scan, modifies=["x", "has_real"] + (["is_time"] if time_ok else []), types={"x": Type15})
            fold = ssum if fname == "walk_plus" else sprod
            is_plus = fname == "walk_plus"

            def acc(L):
                args, i = L._seq, zint15(L._i)
                e = L.expression
                val = fold(args_arr(e.z), i)
                ln, lo = _opt_ext(L.lower)
                un, up = _opt_ext(L.upper)
                out = [("lower is None exactly before the first argument", ln == (i == 0)),
                       ("upper is None exactly before the first argument", un == (i == 0))]
                if lo is not None and up is not None:
                    started = i > 0
                    frac = _ex_prefix(args, i, is_real)
                    out += [("lower is a finite number, -inf" + ("" if is_plus else " or nan"),
                             z3.Implies(started, z3.And(lo.wf(), lo.k != X.K_PINF, (lo.k != X.K_NAN) if is_plus else z3.BoolVal(True)))),
                            ("upper is a finite number, +inf" + ("" if is_plus else " or nan"),
                             z3.Implies(started, z3.And(up.wf(), up.k != X.K_NINF, (up.k != X.K_NAN) if is_plus else z3.BoolVal(True)))),
                            ("finite lower <= value of the prefix", z3.Implies(z3.And(started, lo.finite()), lo.v <= val)),
                            ("value of the prefix <= finite upper", z3.Implies(z3.And(started, up.finite()), val <= up.v)),
                            ("finite lower is a Fraction iff a real-typed argument was seen", z3.Implies(z3.And(started, lo.finite()), (lo.k == X.K_FRAC) == frac)),
                            ("finite upper is a Fraction iff a real-typed argument was seen", z3.Implies(z3.And(started, up.finite()), (up.k == X.K_FRAC) == frac))]
                    if not is_plus:
                        out.append(("lower is nan iff upper is nan", z3.Implies(started, (lo.k == X.K_NAN) == (up.k == X.K_NAN))))
                return out
            eng.loops[(QN + fname, 1)] = LoopSpec(acc, modifies=["x", "lower", "upper", "l", "u", "products"] if not is_plus else ["x", "lower", "upper"],
                                                  types={"x": Type15, "lower": Opt(X.Ext), "upper": Opt(X.Ext)})

    def setup(self, eng, st):
        w = st.alloc(Rec(_tc.TypeChecker, {"environment": Env15.fresh("env")}), "TypeChecker")
        e = T.FNode.fresh("expression")
        T.assume_node(eng, st, e.z, self.kind)
        j = z3.Int(fresh_name("j"))
        if self.kind in (OK.MINUS, OK.DIV):
            ts = [Type15.fresh("t0"), Type15.fresh("t1")]
            for k, t in enumerate(ts):
                st.assume(z3.Implies(z3.And(t.z != Type15.null, numeric(t.z)), within(t.z, evn(z3.Select(args_arr(e.z), k)))))
            args = st.alloc(CList(ts), "list")
            ctx = dict(e=e, ts=ts)
        else:
            seq = eng.fresh_of(st, Seq(Type15), "args")
            st.assume(seq.n == args_len(e.z))
            tj = z3.Select(seq.arr, j)
            st.assume(z3.ForAll([j], z3.Implies(z3.And(0 <= j, j < seq.n, tj != Type15.null, numeric(tj)),
                                                within(tj, evn(z3.Select(args_arr(e.z), j)))), patterns=[z3.Select(seq.arr, j)]))
            args = st.alloc(seq, "list")
            ctx = dict(e=e, seq=seq)
        return [w, e, args], {}, ctx

    def _args(self, ctx):
        if "ts" in ctx:
            return SSeq.of(Type15, ctx["ts"])
        return ctx["seq"]

    def post(self, eng, ctx, st, out):
        e = ctx["e"]
        args = self._args(ctx)
        time_ok = self.kind in (OK.PLUS, OK.MINUS)
        if out[0] == "raise":
            if out[1].cls is ZeroDivisionError:
                d = z3.Select(args.arr, 1)
                st.oblige("ZeroDivisionError only for the constant divisor 0", z3.And(z3.Not(lbnone(d)), z3.Not(ubnone(d)), lbR(d) == 0, ubR(d) == 0))
            return
        r = out[1]
        if isinstance(r, SUnion):
            raise Unsupported("result union")

        def bad(t):
            b = z3.Or(t == Type15.null, z3.Not(numeric(t)))
            return z3.And(b, t != TIMEc) if time_ok else b
        if r is None:
            st.oblige("None only when an argument is ill-typed", _ex_prefix(args, args.n, bad))
            return
        rz = r.z
        st.oblige("result is not None only when no argument is ill-typed", z3.Implies(rz != Type15.null, z3.Not(_ex_prefix(args, args.n, bad))))
        if time_ok:
            st.oblige("TIME iff an argument is TIME", (rz == TIMEc) == _ex_prefix(args, args.n, lambda t: t == TIMEc))
        st.oblige("result is TIME or a numeric type", z3.Or(rz == TIMEc, numeric(rz)) if time_ok else numeric(rz))
        guard = z3.And(rz != Type15.null, rz != TIMEc)
        if self.kind == OK.DIV:
            st.oblige("a quotient is typed real", z3.Implies(guard, is_real(rz)))
            guard = z3.And(guard, evn(z3.Select(args_arr(e.z), 1)) != 0)
        else:
            st.oblige("integer type only if every argument has an integer type",
                      z3.Implies(z3.And(guard, is_int(rz)), _all_prefix(args, args.n, is_int)))
        st.oblige("lower bound is sound", z3.Implies(z3.And(guard, z3.Not(lbnone(rz))), lbR(rz) <= evn(e.z)))
        st.oblige("upper bound is sound", z3.Implies(z3.And(guard, z3.Not(ubnone(rz))), evn(e.z) <= ubR(rz)))


def _frac(model, z):
    from fractions import Fraction
    v = model.eval(z, model_completion=True)
    try:
        return Fraction(v.numerator_as_long(), v.denominator_as_long())
    except Exception:  # noqa: algebraic / non-numeral
        return Fraction(str(v.as_decimal(12)).rstrip("?"))


def _replay_numeric(self, ctx, model, label):
    """native replay of a (candidate) counter-model of an arithmetic handler: the argument types are rebuilt with the real
    TypeManager, the real handler is called, and a child valuation inside the argument types whose result lies outside the
    inferred type is searched among the model's values and the interval end points"""
    import itertools as it
    import operator
    from fractions import Fraction
    from functools import reduce
    from unified_planning.environment import Environment
    env = Environment()
    tm = env.type_manager
    args = self._args(ctx)
    n = model.eval(args.n, model_completion=True).as_long() if z3.is_expr(args.n) else int(args.n)
    if n > 4:
        return None
    tb = lambda z: z3.is_true(model.eval(z, model_completion=True))  # noqa: E731
    types_, descr, cands = [], [], []
    for j in range(n):
        t = z3.Select(args.arr, j)
        if tb(t == Type15.null) or not (tb(is_int(t)) or tb(is_real(t))):
            return None
        lo = None if tb(lbnone(t)) else _frac(model, lbR(t))
        hi = None if tb(ubnone(t)) else _frac(model, ubR(t))
        if tb(is_int(t)):
            lo = None if lo is None else int(lo)
            hi = None if hi is None else int(hi)
            types_.append(tm.IntType(lo, hi))
        else:
            types_.append(tm.RealType(lo, hi))
        descr.append(str(types_[-1]))
        mv = _frac(model, evn(z3.Select(args_arr(ctx["e"].z), j)))
        c = {mv, Fraction(0), Fraction(1), Fraction(-1), Fraction(1000003), Fraction(-1000003)}
        for b in (lo, hi):
            if b is not None:
                c |= {Fraction(b), Fraction(b) + 1, Fraction(b) - 1}
        ok = [v for v in c if (lo is None or v >= lo) and (hi is None or v <= hi) and (not tb(is_int(t)) or v.denominator == 1)]
        cands.append(sorted(ok))
    tc = _tc.TypeChecker(env)
    concrete = {"handler": self.fn.__name__, "argument_types": descr}
    try:
        r = self.fn(tc, None, list(types_))
    except ZeroDivisionError:
        return None
    except Exception as ex:  # noqa
        return {"reproduced": True, "concrete": concrete, "observed": f"handler raised {type(ex).__name__}: {ex}"}
    if r is None:
        return None
    op = {OK.PLUS: lambda vs: sum(vs), OK.TIMES: lambda vs: reduce(operator.mul, vs, Fraction(1)),
          OK.MINUS: lambda vs: vs[0] - vs[1], OK.DIV: lambda vs: vs[0] / vs[1]}[self.kind]
    for vs in it.islice(it.product(*cands), 20000):
        try:
            v = op(list(vs))
        except ZeroDivisionError:
            continue
        bad = (r.lower_bound is not None and v < r.lower_bound) or (r.upper_bound is not None and v > r.upper_bound) \
            or (r.is_int_type() and Fraction(v).denominator != 1)
        if bad:
            concrete["child_values"] = [str(x) for x in vs]
            return {"reproduced": True, "concrete": concrete, "observed": f"inferred {r}, but the value is {v}"}
    return {"reproduced": False, "concrete": concrete, "observed": f"inferred {r}; no child valuation among the candidates falls outside"}


NumHandler.replay = _replay_numeric


def replay_file(data):
    c = data["concrete"]
    from fractions import Fraction
    from unified_planning.environment import Environment
    import re as _re
    env = Environment()
    tm = env.type_manager

    def parse(s_):
        m = _re.match(r"(integer|real)(?:\[(.*), (.*)\])?$", s_)
        kind, lo, hi = m.group(1), m.group(2), m.group(3)
        cv = (lambda x: None if x in (None, "-inf", "inf") else (int(x) if kind == "integer" else Fraction(x)))
        return (tm.IntType if kind == "integer" else tm.RealType)(cv(lo), cv(hi))
    if "handler" not in c:
        return {"reproduced": False, "note": "bounded-layer failure: re-run ./check C15"}
    types_ = [parse(x) for x in c["argument_types"]]
    fn = getattr(_tc.TypeChecker, c["handler"])
    try:
        r = fn(_tc.TypeChecker(env), None, types_)
    except Exception as ex:  # noqa
        return {"reproduced": True, "observed": f"handler raised {type(ex).__name__}: {ex}"}
    vs = [Fraction(x) for x in c.get("child_values", [])]
    import operator
    from functools import reduce
    op = {"walk_plus": lambda v: sum(v), "walk_times": lambda v: reduce(operator.mul, v, Fraction(1)),
          "walk_minus": lambda v: v[0] - v[1], "walk_div": lambda v: v[0] / v[1]}[c["handler"]]
    v = op(vs)
    bad = (r.lower_bound is not None and v < r.lower_bound) or (r.upper_bound is not None and v > r.upper_bound)
    return {"reproduced": bool(bad), "observed": f"inferred {r}, value {v}"}


def zint15(v):
    from pyvc.values import zint
    return zint(v)


from pyvc.values import Unsupported  # noqa: E402

class ExactHandler(Unit):
    """handlers whose result is exactly BOOL / TIME / the declared type (or None for an ill-typed node)"""
    prop = "C15"

    def __init__(self, kind):
        self.kind = kind
        self.fn = getattr(_tc.TypeChecker, nt_to_fun(kind))
        self.name = f"TypeChecker[{kind.name}] -> {self.fn.__name__}"
        self.doc = "Boolean operators, relations and leaves get exactly their type; a constant gets the degenerate interval of its value"

    def target(self):
        return self.fn

    def configure(self, eng):
        _install(eng)
        fname = self.fn.__name__
        if fname == "walk_bool_to_bool":
            def inv(L):
                return [("scanned arguments are BOOL", _all_prefix(L._seq, zint15(L._i), lambda t: t == BOOLc))]
            eng.loops[(QN + fname, 0)] = LoopSpec(inv, modifies=["x"], types={"x": Type15})
        if fname in ("walk_fluent_exp", "walk_interpreted_function_exp"):
            def inv2(L):
                z = L._seq
                sig, args = z.parts
                j = z3.Int(fresh_name("j"))
                pt = B._uf("Parameter.type", T.Parameter.z3sort(), _TS)
                comp = B._uf("Type15.is_compatible()", _TS, _TS, z3.BoolSort())
                return [("scanned arguments are compatible with the signature",
                         z3.ForAll([j], z3.Implies(z3.And(0 <= j, j < zint15(L._i)), comp(pt(z3.Select(sig.arr, j)), z3.Select(args.arr, j)))))]
            eng.loops[(QN + fname, 0)] = LoopSpec(inv2, modifies=["param", "arg"], types={"param": T.Parameter, "arg": Type15})

    def setup(self, eng, st):
        w = st.alloc(Rec(_tc.TypeChecker, {"environment": Env15.fresh("env")}), "TypeChecker")
        e = T.FNode.fresh("expression")
        T.assume_node(eng, st, e.z, self.kind)
        seq = eng.fresh_of(st, Seq(Type15), "args")
        if self.kind in T.ARITY or self.kind in (OK.PARAM_EXP, OK.VARIABLE_EXP, OK.TIMING_EXP, OK.PRESENT_EXP):
            st.assume(seq.n == T.ARITY.get(self.kind, 0), args_len(e.z) == seq.n)
        elif self.kind in (OK.ALWAYS, OK.SOMETIME, OK.AT_MOST_ONCE):
            st.assume(seq.n == 1, args_len(e.z) == 1)
        elif self.kind in (OK.SOMETIME_BEFORE, OK.SOMETIME_AFTER):
            st.assume(seq.n == 2, args_len(e.z) == 2)
        return [w, e, st.alloc(seq, "list")], {}, dict(e=e, seq=seq)

    def post(self, eng, ctx, st, out):
        if out[0] != "return":
            return
        r, e, args = out[1], ctx["e"], ctx["seq"]
        k = self.kind
        rz = None if r is None else r.z
        isnone = z3.BoolVal(True) if r is None else (rz == Type15.null)
        if k in (OK.AND, OK.OR, OK.NOT, OK.IMPLIES, OK.IFF, OK.EXISTS, OK.FORALL):
            allbool = _all_prefix(args, args.n, lambda t: t == BOOLc)
            st.oblige("BOOL iff every argument is BOOL, otherwise None", z3.If(allbool, z3.Not(isnone) if r is None else rz == BOOLc, isnone))
        elif k in (OK.LE, OK.LT):
            oknum = _all_prefix(args, args.n, lambda t: z3.And(t != Type15.null, z3.Or(is_int(t), is_real(t), is_time(t))))
            st.oblige("BOOL iff both arguments are numeric or time, otherwise None", z3.If(oknum, z3.Not(isnone) if r is None else rz == BOOLc, isnone))
        elif k in (OK.BOOL_CONSTANT, OK.PRESENT_EXP):
            st.oblige("exactly BOOL", z3.BoolVal(False) if r is None else rz == BOOLc)
        elif k == OK.TIMING_EXP:
            st.oblige("exactly TIME", z3.BoolVal(False) if r is None else rz == TIMEc)
        elif k in (OK.INT_CONSTANT, OK.REAL_CONSTANT):
            if r is None:
                st.oblige("a constant is typed", z3.BoolVal(False))
                return
            v = evn(e.z)
            st.oblige("degenerate interval of the constant's value", z3.And(z3.Not(lbnone(rz)), z3.Not(ubnone(rz)), lbR(rz) == v, ubR(rz) == v))
            st.oblige("int constant -> int type, real constant -> real type", is_int(rz) if k == OK.INT_CONSTANT else is_real(rz))
        elif k in (OK.PARAM_EXP, OK.VARIABLE_EXP, OK.OBJECT_EXP):
            ref, nm = {OK.PARAM_EXP: (T.Parameter, "Parameter"), OK.VARIABLE_EXP: (T.Variable, "Variable"), OK.OBJECT_EXP: (T.Object, "Object")}[k]
            payload = B._uf(f"FNode.payload.{k.name}", T.FNode.z3sort(), ref.z3sort())(e.z)
            declared = B._uf(f"{nm}.type", ref.z3sort(), _TS)(payload)
            st.oblige("exactly the declared type", z3.BoolVal(False) if r is None else rz == declared)
        elif k in (OK.FLUENT_EXP, OK.INTERPRETED_FUNCTION_EXP):
            ref, nm, fld = (T.Fluent, "Fluent", "type") if k == OK.FLUENT_EXP else (T.IFun, "InterpretedFunction", "return_type")
            payload = B._uf(f"FNode.payload.{k.name}", T.FNode.z3sort(), ref.z3sort())(e.z)
            declared = B._uf(f"{nm}.{fld}", ref.z3sort(), _TS)(payload)
            sig_arr = B._uf(f"{nm}.signature.arr", ref.z3sort(), z3.ArraySort(z3.IntSort(), T.Parameter.z3sort()))(payload)
            sig_len = B._uf(f"{nm}.signature.len", ref.z3sort(), z3.IntSort())(payload)
            pt = B._uf("Parameter.type", T.Parameter.z3sort(), _TS)
            comp = B._uf("Type15.is_compatible()", _TS, _TS, z3.BoolSort())
            j = z3.Int(fresh_name("j"))
            ok = z3.And(sig_len == args.n, z3.ForAll([j], z3.Implies(z3.And(0 <= j, j < args.n), comp(pt(z3.Select(sig_arr, j)), z3.Select(args.arr, j)))))
            st.oblige("the declared type iff arity and argument types fit the signature, otherwise None",
                      z3.If(ok, z3.Not(isnone) if r is None else rz == declared, isnone))
        elif k in (OK.ALWAYS, OK.SOMETIME, OK.AT_MOST_ONCE, OK.SOMETIME_BEFORE, OK.SOMETIME_AFTER):
            allbool = _all_prefix(args, args.n, lambda t: t == BOOLc)
            st.oblige("BOOL iff every argument is BOOL, otherwise None", z3.If(allbool, z3.Not(isnone) if r is None else rz == BOOLc, isnone))
        else:
            raise Unsupported(f"no post-condition for {k}")


from contracts.harness import c15 as H15  # noqa: E402


class EqualsSymmetry(Unit):
    prop = "C15"
    name = "TypeChecker.walk_equals symmetric (2-safety)"
    doc = "walk_equals(e, [a, b]) and walk_equals(e', [b, a]) have the same outcome (BOOL / None / UPTypeError) for all types a, b"

    def target(self):
        return H15.equals_symmetric

    def configure(self, eng):
        _install(eng)
        t1, t2 = z3.Const("a!anc", _TS), z3.Const("b!anc", _TS)
        eng.axioms += []

    def setup(self, eng, st):
        w = st.alloc(Rec(_tc.TypeChecker, {"environment": Env15.fresh("env")}), "TypeChecker")
        e1, e2 = T.FNode.fresh("e_ab"), T.FNode.fresh("e_ba")
        a, b = Type15.fresh("a"), Type15.fresh("b")
        # the children of an existing node passed the type check when they were built (C16): their types are not None
        st.assume(a.z != Type15.null, b.z != Type15.null)
        return [w, e1, e2, a, b], {}, dict(a=a, b=b)

    def post(self, eng, ctx, st, out):
        if out[0] == "return":
            bv = eng.as_bool_value(st, out[1])
            st.oblige("both argument orders have the same outcome", zbool(bv) if bv is not None else z3.BoolVal(False))


EXACT_KINDS = [OK.AND, OK.OR, OK.NOT, OK.IMPLIES, OK.IFF, OK.EXISTS, OK.FORALL, OK.LE, OK.LT, OK.BOOL_CONSTANT, OK.INT_CONSTANT,
               OK.REAL_CONSTANT, OK.PARAM_EXP, OK.VARIABLE_EXP, OK.OBJECT_EXP, OK.TIMING_EXP, OK.PRESENT_EXP, OK.FLUENT_EXP,
               OK.INTERPRETED_FUNCTION_EXP, OK.ALWAYS, OK.SOMETIME, OK.AT_MOST_ONCE, OK.SOMETIME_BEFORE]
# (walk_sometime_after re-enters the type checker through `expression.args[k].type` in an assert: outside the fold schema, bounded layer only)
NUM_KINDS = [OK.PLUS, OK.MINUS, OK.TIMES, OK.DIV]
UNITS = [NumHandler(k) for k in NUM_KINDS] + [ExactHandler(k) for k in EXACT_KINDS] + [EqualsSymmetry()]
LEVEL = "other"
EXPLANATION = __doc__
TRUSTED = ["types reaching the checker come from the TypeManager (BOOL / TIME singletons, one class per type)",
           "Z is closed under + - * (integer-typed results)", "pyvc/extnum.py: CPython semantics of int / Fraction / +-inf / nan arithmetic",
           "DagWalker.walk computes the fold of the handlers (C14)"]

"""Round-trip statement for C20, written over the *real* writer / reader functions (executed symbolically; both calls dispatch into
/repo's source)."""
from unified_planning.grpc.proto_writer import proto_type
from unified_planning.grpc.proto_reader import convert_type_str


def type_round_trip(tpe, problem):
    return convert_type_str(proto_type(tpe), problem)

"""History statement for C14 over the *real* constructors and entry methods of the walkers whose handlers read per-call state (the
substitution map, the objects set, the fluent assignments, the state).  `earlier_calls(w)` stands for any sequence of earlier calls on the
walker: by the class invariant proved on DagWalker.walk it leaves the stack empty and, for a walker constructed as one-time-cache, the
memoization empty -- otherwise the memoization holds whatever those calls computed (with THEIR per-call state)."""
from unified_planning.model.walkers.expression_quantifiers_remover import ExpressionQuantifiersRemover
from unified_planning.model.walkers.substituter import Substituter
from unified_planning.model.walkers.quantifier_simplifier import QuantifierSimplifier
from unified_planning.model.walkers.state_evaluator import StateEvaluator


def earlier_calls(w):       # contract only
    raise NotImplementedError


def remove_quantifiers_later(environment, expression, objects_set):
    w = ExpressionQuantifiersRemover(environment)
    earlier_calls(w)
    return w.remove_quantifiers(expression, objects_set)


def substitute_later(environment, expression, substitutions):
    w = Substituter(environment)
    earlier_calls(w)
    return w.substitute(expression, substitutions)


def qsimplify_later(environment, problem, expression, assignments, variable_assignments):
    w = QuantifierSimplifier(environment, problem)
    earlier_calls(w)
    return w.qsimplify(expression, assignments, variable_assignments)


def evaluate_later(problem, expression, state):
    w = StateEvaluator(problem)
    earlier_calls(w)
    return w.evaluate(expression, state)

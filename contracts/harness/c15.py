"""2-safety statement for C15, written over the *real* TypeChecker.walk_equals (executed symbolically; the calls below
dispatch into /repo's source)."""
from unified_planning.exceptions import UPTypeError


def equals_outcome(checker, expression, a, b):
    try:
        r = checker.walk_equals(expression, [a, b])
    except UPTypeError:
        return 2
    if r is None:
        return 0
    return 1


def equals_symmetric(checker, e_ab, e_ba, a, b):
    return equals_outcome(checker, e_ab, a, b) == equals_outcome(checker, e_ba, b, a)

"""Law statements for C33, written over the *real* ProblemKind methods (these harness functions
are executed symbolically; every call below dispatches into /repo's source)."""


def refl(a):
    return a <= a


def trans(a, b, c):
    if a <= b and b <= c:
        return a <= c
    return True


def antisym(a, b):
    if a <= b and b <= a:
        return a == b
    return True


def eq_implies_le(a, b):
    if a == b:
        return a <= b and b <= a
    return True


def union_upper(a, b):
    u = a.union(b)
    return a <= u and b <= u


def union_least(a, b, c):
    if a <= c and b <= c:
        return a.union(b) <= c
    return True


def inter_lower(a, b):
    i = a.intersection(b)
    return i <= a and i <= b


def inter_greatest(a, b, c):
    if c <= a and c <= b:
        return c <= a.intersection(b)
    return True


def eq_hash(a, b):
    if a == b:
        return hash(a) == hash(b)
    return True


def eq_sym(a, b):
    return (a == b) == (b == a)


def eq_trans(a, b, c):
    if a == b and b == c:
        return a == c
    return True


def upgrade_monotone(fa, fb, up):
    """raw feature sets: a subset of b  =>  up(a) subset of up(b)"""
    if fa.issubset(fb):
        return up(fa).issubset(up(fb))
    return True


def cross_le(a, b, ups, ProblemKind):
    """comparing kinds of different versions == upgrading the older one first"""
    f = a.features
    for u in ups:
        f = u(f)
    up_a = ProblemKind(f, b.version)
    return ((a <= b) == (up_a <= b)) and ((b <= a) == (b <= up_a))

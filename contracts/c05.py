"""C05 — time-triggered validation = reference temporal semantics (kernels under contract).

Kernel functions verified for all inputs:
  TimeTriggeredPlanValidator._states_in_interval   which states of the trace a condition over a
      (possibly left-open) interval must be evaluated in
  TimeTriggeredPlanValidator._instantiate_timing / _instantiate_interval   (arithmetic)
  binary_search_closest_lower   the greatest recorded time strictly below the target (None iff there is none), for every sorted list:
      it selects the pre-state in which an action cost is evaluated
  _extract_makespan   at least every action end, every from-start timed-effect delay and every timed-goal bound, and equal to one of them or 0
"""
import z3
from fractions import Fraction
from pyvc.values import *  # noqa
from pyvc.verify import Unit
from pyvc.engine import LoopSpec
from pyvc import builtins as B

import unified_planning.engines.plan_validator as pv

USES_THEORY = False
StateT = Ref("State")
QN = "unified_planning.engines.plan_validator.TimeTriggeredPlanValidator._states_in_interval"


def in_effect(has, k, start, end_none, end, left_open):
    """k is the trace key whose state is in effect at some instant t of the interval, conditions at t
    being evaluated *before* the effects of t:  exists t in I. k = max{k' in keys | k' < t}.
    For a finite key set this is (derivation in DESIGN.md, C05):
       start <= k < end                                   (t just above k)
    or k < start, no key in (k, start)   and I left-closed    (t = start)
    or k < start, no key in (k, start],  start < end, I left-open (t just above start)"""
    kp = z3.Real(fresh_name("kp"))
    lt_end = z3.Or(end_none, k < end)
    no_key_open = z3.Not(z3.Exists([kp], z3.And(z3.Select(has, kp), k < kp, kp < start)))
    no_key_closed = z3.Not(z3.Exists([kp], z3.And(z3.Select(has, kp), k < kp, kp <= start)))
    return z3.And(z3.Select(has, k), z3.Or(
        z3.And(start <= k, lt_end),
        z3.And(k < start, z3.Not(left_open), no_key_open),
        z3.And(k < start, left_open, z3.Or(end_none, start < end), no_key_closed)))


class StatesInInterval(Unit):
    prop = "C05"
    name = "_states_in_interval"
    doc = "yielded states == states in effect at some instant of the interval (all traces, all rationals)"

    def target(self):
        return pv.TimeTriggeredPlanValidator._states_in_interval

    def configure(self, eng):
        def hook(eng_, st, v):
            k, state = v
            Y = st.ghost["Y"]
            tr = st.ghost["trace0"]
            st.oblige("yield: second component is trace[key]", state.z == tr.get(k).z)
            st.oblige("yield: key is in the trace", tr.contains(k))
            st.ghost["Y"] = Y.add(k)
        eng.yield_hooks[QN] = hook

        def inv0(L):
            keys, i = L._seq, zint(L._i)
            start = L.start.z
            end = L.end
            end_none, endv = end.is_none().z, end.some().z
            bt, et = zreal(L.before_time), zreal(L.equal_time)
            ins = L.seq('inside_indexes', Real)
            j, m = z3.Int(fresh_name("j")), z3.Int(fresh_name("m"))
            tr = L.trace
            inside_cond = lambda x: z3.And(start < x, z3.Or(end_none, x < endv))
            return [
                ("before is a key below start", z3.And(z3.Select(tr.has, bt), bt < start)),
                ("before dominates seen keys below start", z3.ForAll([j], z3.Implies(
                    z3.And(0 <= j, j < i, z3.Select(keys.arr, j) < start), z3.Select(keys.arr, j) <= bt))),
                ("equal is a key not above start", z3.And(z3.Select(tr.has, et), et <= start)),
                ("equal dominates seen keys not above start", z3.ForAll([j], z3.Implies(
                    z3.And(0 <= j, j < i, z3.Select(keys.arr, j) <= start), z3.Select(keys.arr, j) <= et))),
                ("inside are keys strictly inside", z3.ForAll([m], z3.Implies(
                    z3.And(0 <= m, m < ins.n),
                    z3.And(z3.Select(tr.has, z3.Select(ins.arr, m)), inside_cond(z3.Select(ins.arr, m)))))),
                ("every seen inside key is recorded", z3.ForAll([j], z3.Implies(
                    z3.And(0 <= j, j < i, inside_cond(z3.Select(keys.arr, j))),
                    z3.Exists([m], z3.And(0 <= m, m < ins.n, z3.Select(ins.arr, m) == z3.Select(keys.arr, j)))))),
                ("len", ins.n >= 0),
            ]
        eng.loops[(QN, 0)] = LoopSpec(inv0, modifies=["x", "before_time", "equal_time", "inside_indexes",
                                                       "inside_indexes_condition"],
                                      types={"before_time": Real, "equal_time": Real,
                                             "inside_indexes": Seq(Real)})

        def inv1(L):
            ins, i = L._seq, zint(L._i)
            Y = L.st.ghost["Y"]
            Y0 = L._pre.st.ghost["Y"]
            k = z3.Real(fresh_name("k"))
            m = z3.Int(fresh_name("m"))
            return [("yielded so far = before-loop yields + inside[0..i)", z3.ForAll([k],
                     z3.Select(Y.has, k) == z3.Or(z3.Select(Y0.has, k),
                                                  z3.Exists([m], z3.And(0 <= m, m < i, z3.Select(ins.arr, m) == k)))))]
        eng.loops[(QN, 1)] = LoopSpec(inv1, modifies=["x"])
        self._orig_havoc = eng._havoc

        # the ghost yield set is modified by loop 1: havoc it together with the locals
        def havoc(node, spec, st, _orig=eng._havoc):
            _orig(node, spec, st)
            if getattr(node, "_loop_ordinal", None) == 1 and st.frame.fname == QN:
                st.ghost["Y"] = Set(Real).fresh("Y")
        eng._havoc = havoc

    def setup(self, eng, st):
        selfv = Ref("TimeTriggeredPlanValidator").fresh("self")
        tr = Map(Real, StateT).fresh("trace")
        st.assume(z3.Select(tr.has, z3.RealVal(-1)))
        k = z3.Real(fresh_name("k"))
        st.assume(z3.ForAll([k], z3.Implies(z3.Select(tr.has, k), z3.Or(k == -1, k >= 0))))
        start = Real.fresh("start")
        st.assume(start.z >= 0)
        end = Opt(Real).fresh("end")
        st.assume(z3.Or(end.is_none().z, end.some().z >= start.z))
        op = Bool.fresh("open_interval")
        trl = st.alloc(tr, "dict")
        st.ghost["Y"] = SSet.empty(Real)
        st.ghost["trace0"] = tr
        return [selfv, trl, start, end, op], {}, dict(tr=tr, start=start, end=end, op=op)

    def post(self, eng, ctx, st, out):
        if out[0] != "return":
            return
        tr, start, end, op = ctx["tr"], ctx["start"], ctx["end"], ctx["op"]
        Y = st.ghost["Y"]
        k = z3.Real(fresh_name("k"))
        ie = in_effect(tr.has, k, start.z, end.is_none().z, end.some().z, op.z)
        st.oblige("sound: every yielded state is in effect inside the interval",
                  z3.ForAll([k], z3.Implies(z3.Select(Y.has, k), ie)))
        st.oblige("complete: every state in effect inside the interval is yielded",
                  z3.ForAll([k], z3.Implies(ie, z3.Select(Y.has, k))))

    def replay(self, ctx, model, label):
        tr, start, end, op = ctx["tr"], ctx["start"], ctx["end"], ctx["op"]
        ev = lambda z: model.eval(z, model_completion=True)
        # collect candidate key values from the model: every real constant mentioned + start/end
        cands = {Fraction(-1)}
        for d in model.decls():
            v = model[d]
            if z3.is_rational_value(v):
                cands.add(Fraction(v.numerator_as_long(), v.denominator_as_long()))
        s = ev(start.z)
        sv = Fraction(s.numerator_as_long(), s.denominator_as_long())
        cands.update({sv, sv + 1, sv - Fraction(1, 2)})
        keys = sorted(c for c in cands if z3.is_true(ev(z3.Select(tr.has, z3.RealVal(c.numerator) / z3.RealVal(c.denominator)))))
        en = None
        if not z3.is_true(ev(end.is_none().z)):
            e = ev(end.some().z)
            en = Fraction(e.numerator_as_long(), e.denominator_as_long())
        return replay_concrete({"keys": [str(k) for k in keys], "start": str(sv),
                                "end": None if en is None else str(en), "open": z3.is_true(ev(op.z))})


def reference_in_effect(keys, start, end, left_open):
    """brute-force reference: sample instants (interval ends, keys, midpoints) and take max key below"""
    pts = set(keys) | {start} | ({end} if end is not None else set())
    pts = sorted(pts)
    inst = set(pts)
    for a, b in zip(pts, pts[1:]):
        inst.add((a + b) / 2)
    inst.add(pts[-1] + 1)
    res = set()
    for t in inst:
        inside = (t > start or (t == start and not left_open)) and (end is None or t <= end)
        if not inside:
            continue
        below = [k for k in keys if k < t]
        if below:
            res.add(max(below))
    return res


def replay_concrete(c):
    keys = [Fraction(k) for k in c["keys"]]
    start = Fraction(c["start"])
    end = None if c["end"] is None else Fraction(c["end"])
    trace = {k: f"state@{k}" for k in keys}
    v = pv.TimeTriggeredPlanValidator.__new__(pv.TimeTriggeredPlanValidator)
    try:
        got = list(v._states_in_interval(trace, start, end, c["open"]))
    except Exception as e:  # noqa
        return {"reproduced": True, "concrete": c, "observed": f"raised {type(e).__name__}: {e}"}
    ykeys = {k for k, _ in got}
    ref = reference_in_effect(keys, start, end, c["open"])
    bad = ykeys != ref or any(s != trace[k] for k, s in got)
    return {"reproduced": bad, "concrete": c,
            "observed": f"yielded keys {sorted(map(str, ykeys))}, in effect {sorted(map(str, ref))}"}


def replay_file(data):
    return replay_concrete(data["concrete"])


import unified_planning.model.timing as tm

TPK = Enum(tm.TimepointKind)
TimepointT = Ref("Timepoint", tm.Timepoint, fields={"_kind": TPK, "_container": Opt(Str)})
TimingT = Ref("Timing", tm.Timing, fields={"_delay": Num, "_timepoint": TimepointT})
TimeIntervalT = Ref("TimeInterval", tm.TimeInterval, fields={"_lower": TimingT, "_upper": TimingT,
                                                            "_is_left_open": Bool, "_is_right_open": Bool})


def timing_spec(eng, st, timing, a_start, a_dur):
    """(is_none, value) of the instant denoted by `timing` for an action starting at a_start"""
    tp = B.field_uf(eng, st, timing, "_timepoint")
    kind = B.field_uf(eng, st, tp, "_kind").z
    C = TPK.consts
    delay = B.field_uf(eng, st, timing, "_delay")
    dz = z3.If(delay.alts[0][0], z3.ToReal(delay.alts[0][1].z), delay.alts[1][1].z)
    is_start = z3.Or(kind == C[tm.TimepointKind.START], kind == C[tm.TimepointKind.GLOBAL_START])
    is_global = z3.Or(kind == C[tm.TimepointKind.GLOBAL_START], kind == C[tm.TimepointKind.GLOBAL_END])
    none = z3.And(z3.Not(is_start), is_global)
    val = z3.If(is_start, a_start.z + dz, a_start.z + a_dur + dz)
    return none, val


class InstantiateTiming(Unit):
    prop = "C05"
    name = "_instantiate_timing"
    doc = "start-relative: start+delay; end-relative: start+duration+delay; global end: None"

    def target(self):
        return pv.TimeTriggeredPlanValidator._instantiate_timing

    def setup(self, eng, st):
        selfv = Ref("TimeTriggeredPlanValidator").fresh("self")
        t = TimingT.fresh("timing")
        a_start = Real.fresh("action_start")
        dur = Opt(Real).fresh("action_duration")
        # the duration is only absent for timings that do not need it (global ones)
        tp = B.field_uf(eng, st, t, "_timepoint")
        kind = B.field_uf(eng, st, tp, "_kind").z
        st.assume(z3.Implies(dur.is_none().z, z3.Or(kind == TPK.consts[tm.TimepointKind.GLOBAL_START],
                                                    kind == TPK.consts[tm.TimepointKind.GLOBAL_END],
                                                    kind == TPK.consts[tm.TimepointKind.START])))
        return [selfv, t, a_start, dur], {}, dict(t=t, a_start=a_start, dur=dur)

    def post(self, eng, ctx, st, out):
        if out[0] != "return":
            return
        none, val = timing_spec(eng, st, ctx["t"], ctx["a_start"], ctx["dur"].some().z)
        r = out[1]
        if r is None:
            st.oblige("None only for global-end timings", none)
        else:
            st.oblige("value only for non-global-end timings", z3.Not(none))
            st.oblige("instant = start (+ duration) + delay", zreal(r) == val)


class InstantiateInterval(Unit):
    prop = "C05"
    name = "_instantiate_interval"
    doc = "(lower instant, upper instant, left-open flag) of a time interval"

    def target(self):
        return pv.TimeTriggeredPlanValidator._instantiate_interval

    def setup(self, eng, st):
        selfv = Ref("TimeTriggeredPlanValidator", pv.TimeTriggeredPlanValidator).fresh("self")
        iv = TimeIntervalT.fresh("interval")
        a_start = Real.fresh("action_start")
        dur = Real.fresh("action_duration")
        lo = B.field_uf(eng, st, iv, "_lower")
        # intervals start at a start- or end-relative timing (never at the global end)
        none, _ = timing_spec(eng, st, lo, a_start, dur.z)
        st.assume(z3.Not(none))
        return [selfv, iv, a_start, dur], {}, dict(iv=iv, a_start=a_start, dur=dur)

    def post(self, eng, ctx, st, out):
        if out[0] != "return":
            return
        iv = ctx["iv"]
        lo, up = B.field_uf(eng, st, iv, "_lower"), B.field_uf(eng, st, iv, "_upper")
        nlo, vlo = timing_spec(eng, st, lo, ctx["a_start"], ctx["dur"].z)
        nup, vup = timing_spec(eng, st, up, ctx["a_start"], ctx["dur"].z)
        s, e, op = out[1]
        st.oblige("start instant", zreal(s) == vlo)
        if e is None:
            st.oblige("end None only for global end", nup)
        else:
            st.oblige("end instant", z3.And(z3.Not(nup), zreal(e) == vup))
        st.oblige("left-open flag", zbool(op) == B.field_uf(eng, st, iv, "_is_left_open").z)


class BinarySearchClosestLower(Unit):
    prop = "C05"
    name = "binary_search_closest_lower"
    doc = "on an ascending list: the greatest element strictly below the target, None iff no element is below it"

    def target(self):
        return pv.binary_search_closest_lower

    def configure(self, eng):
        QNB = "unified_planning.engines.plan_validator.binary_search_closest_lower"

        def inv(L):
            xs = self._xs
            left, right = zint(L.left), zint(L.right)
            t = L.target_time.z
            j = z3.Int(fresh_name("j"))
            res = L.result
            rn = res.is_none().z if isinstance(res, SUnion) else z3.BoolVal(res is None)
            rv = res.some().z if isinstance(res, SUnion) else (zreal(res) if res is not None else z3.RealVal(0))
            return [("window inside the list", z3.And(0 <= left, left <= right + 1, right < xs.n)),
                    ("everything left of the window is below the target", z3.ForAll([j], z3.Implies(z3.And(0 <= j, j < left), z3.Select(xs.arr, j) < t))),
                    ("everything right of the window is not below the target", z3.ForAll([j], z3.Implies(z3.And(right < j, j < xs.n), z3.Select(xs.arr, j) >= t))),
                    ("result is the last element left of the window (None when there is none)",
                     z3.If(left == 0, rn, z3.And(z3.Not(rn), rv == z3.Select(xs.arr, left - 1))))]
        eng.loops[(QNB, 0)] = LoopSpec(inv, modifies=["left", "right", "mid", "result"], types={"result": Opt(Real)})

    def setup(self, eng, st):
        xs = eng.fresh_of(st, Seq(Real), "sorted_times")
        self._xs = xs
        a, b = z3.Int(fresh_name("a")), z3.Int(fresh_name("b"))
        st.assume(z3.ForAll([a, b], z3.Implies(z3.And(0 <= a, a < b, b < xs.n), z3.Select(xs.arr, a) <= z3.Select(xs.arr, b))))
        t = Real.fresh("target_time")
        return [t, st.alloc(xs, "list")], {}, dict(xs=xs, t=t)

    def post(self, eng, ctx, st, out):
        if out[0] != "return":
            return
        xs, t = ctx["xs"], ctx["t"].z
        r = out[1]
        rn = r.is_none().z if isinstance(r, SUnion) else z3.BoolVal(r is None)
        rv = r.some().z if isinstance(r, SUnion) else (zreal(r) if r is not None else z3.RealVal(0))
        j = z3.Int(fresh_name("j"))
        st.oblige("None iff no element is below the target", rn == z3.Not(z3.Exists([j], z3.And(0 <= j, j < xs.n, z3.Select(xs.arr, j) < t))))
        st.oblige("otherwise an element of the list below the target ...",
                  z3.Implies(z3.Not(rn), z3.And(rv < t, z3.Exists([j], z3.And(0 <= j, j < xs.n, z3.Select(xs.arr, j) == rv)))))
        st.oblige("... and no element below the target is greater", z3.Implies(z3.Not(rn), z3.ForAll([j], z3.Implies(z3.And(0 <= j, j < xs.n, z3.Select(xs.arr, j) < t), z3.Select(xs.arr, j) <= rv))))


Plan05, Problem05, AI05 = Ref("TimeTriggeredPlan05"), Ref("Problem05", pv.Problem), Ref("ActionInstance05")
Timing05 = Ref("Timing05", pv.Timing, fields={"delay": Real})
Timing05.observers.update({"is_from_start": ((), Bool), "is_from_end": ((), Bool)})
Interval05 = Ref("TimeInterval05", pv.TimeInterval, fields={"upper": Timing05, "lower": Timing05})
EffList05, GoalList05 = Ref("EffectList05"), Ref("GoalList05")
Problem05.fields.update({"timed_effects": Map(Timing05, EffList05, ordered=True), "timed_goals": Map(Interval05, GoalList05, ordered=True)})
TA_START = z3.Function("timed_action.start", Plan05.z3sort(), z3.IntSort(), z3.RealSort())
TA_AI = z3.Function("timed_action.instance", Plan05.z3sort(), z3.IntSort(), AI05.z3sort())
TA_NODUR = z3.Function("timed_action.duration.isnone", Plan05.z3sort(), z3.IntSort(), z3.BoolSort())
TA_DUR = z3.Function("timed_action.duration", Plan05.z3sort(), z3.IntSort(), z3.RealSort())
TA_LEN = z3.Function("timed_actions.len", Plan05.z3sort(), z3.IntSort())


class TimedActions:
    """plan.timed_actions: a symbolic-length sequence of (start, action instance, duration or None)"""
    is_symbolic_sequence = True

    def __init__(self, plan):
        self.plan, self.n = plan, TA_LEN(plan.z)

    def at(self, i):
        iz = zint(i)
        p = self.plan.z
        return (SReal(TA_START(p, iz)), AI05.wrap(TA_AI(p, iz)), SUnion([(TA_NODUR(p, iz), None), (z3.Not(TA_NODUR(p, iz)), SReal(TA_DUR(p, iz)))]))


Plan05.attrs["timed_actions"] = lambda eng, st, p: TimedActions(p)


class ExtractMakespan(Unit):
    prop = "C05"
    name = "_extract_makespan"
    doc = "the reported makespan is at least every action end, every from-start timed-effect delay and every timed-goal bound, and is one of them (or 0)"

    def target(self):
        return pv._extract_makespan

    def _cands(self, eng, st, plan, problem):
        """(candidate value, guard) per index of the three collections, as functions of an index"""
        p = plan.z
        te = B.field_uf(eng, st, problem, "timed_effects")
        tg = B.field_uf(eng, st, problem, "timed_goals")
        dl = B._uf("Timing05.delay", Timing05.z3sort(), z3.RealSort())
        fs = B._uf("Timing05.is_from_start()", Timing05.z3sort(), z3.BoolSort())
        fe = B._uf("Timing05.is_from_end()", Timing05.z3sort(), z3.BoolSort())
        up, lo = B._uf("TimeInterval05.upper", Interval05.z3sort(), Timing05.z3sort()), B._uf("TimeInterval05.lower", Interval05.z3sort(), Timing05.z3sort())
        end = lambda j: z3.If(TA_NODUR(p, j), TA_START(p, j), TA_START(p, j) + TA_DUR(p, j))          # noqa: E731
        eff = lambda j: (dl(z3.Select(te.keys.arr, j)), fs(z3.Select(te.keys.arr, j)))                   # noqa: E731
        goal = lambda j: dl(z3.If(fe(up(z3.Select(tg.keys.arr, j))), lo(z3.Select(tg.keys.arr, j)), up(z3.Select(tg.keys.arr, j))))   # noqa: E731
        return end, eff, goal, te, tg

    def configure(self, eng):
        QNM = "unified_planning.engines.plan_validator._extract_makespan"

        def mk(which):
            def inv(L):
                end, eff, goal, te, tg = self._cands(L._eng, L.st, L.plan, L.problem)
                i = zint(L._i)
                m = zreal(L.makespan)
                m0 = zreal(L._pre.makespan)
                j = z3.Int(fresh_name("j"))
                if which == 0:
                    ge = z3.ForAll([j], z3.Implies(z3.And(0 <= j, j < i), m >= end(j)))
                    one = z3.Or(m == 0, z3.Exists([j], z3.And(0 <= j, j < i, m == end(j))))
                elif which == 1:
                    ge = z3.ForAll([j], z3.Implies(z3.And(0 <= j, j < i, eff(j)[1]), m >= eff(j)[0]))
                    one = z3.Or(m == m0, z3.Exists([j], z3.And(0 <= j, j < i, eff(j)[1], m == eff(j)[0])))
                else:
                    ge = z3.ForAll([j], z3.Implies(z3.And(0 <= j, j < i), m >= goal(j)))
                    one = z3.Or(m == m0, z3.Exists([j], z3.And(0 <= j, j < i, m == goal(j))))
                return [("makespan dominates the scanned candidates", ge), ("makespan is its earlier value or a scanned candidate", one), ("makespan never decreases", m >= m0)]
            return inv
        eng.loops[(QNM, 0)] = LoopSpec(mk(0), modifies=["action_start_time", "_", "action_duration", "action_end", "makespan"], types={"makespan": Real})
        eng.loops[(QNM, 1)] = LoopSpec(mk(1), modifies=["effect_timing", "makespan"], types={"makespan": Real})
        eng.loops[(QNM, 2)] = LoopSpec(mk(2), modifies=["goal_interval", "interval_bound", "makespan"], types={"makespan": Real})

    def setup(self, eng, st):
        plan, problem = Plan05.fresh("plan"), Problem05.fresh("problem")
        st.assume(TA_LEN(plan.z) >= 0)
        return [problem, plan], {}, dict(plan=plan, problem=problem)

    def post(self, eng, ctx, st, out):
        if out[0] != "return":
            return
        plan, problem = ctx["plan"], ctx["problem"]
        end, eff, goal, te, tg = self._cands(eng, st, plan, problem)
        m = zreal(out[1])
        j = z3.Int(fresh_name("j"))
        n = TA_LEN(plan.z)
        st.oblige("at least every action end (start, plus the duration when there is one)", z3.ForAll([j], z3.Implies(z3.And(0 <= j, j < n), m >= end(j))))
        st.oblige("at least the delay of every timed effect given from the start", z3.ForAll([j], z3.Implies(z3.And(0 <= j, j < te.keys.n, eff(j)[1]), m >= eff(j)[0])))
        st.oblige("at least the bound of every timed goal", z3.ForAll([j], z3.Implies(z3.And(0 <= j, j < tg.keys.n), m >= goal(j))))
        st.oblige("and not larger than needed: 0 or one of those values",
                  z3.Or(m == 0, z3.Exists([j], z3.And(0 <= j, j < n, m == end(j))), z3.Exists([j], z3.And(0 <= j, j < te.keys.n, eff(j)[1], m == eff(j)[0])),
                        z3.Exists([j], z3.And(0 <= j, j < tg.keys.n, m == goal(j)))))


UNITS = [StatesInInterval(), InstantiateTiming(), InstantiateInterval(), BinarySearchClosestLower(), ExtractMakespan()]
LEVEL = "other"
EXPLANATION = __doc__
TRUSTED = ["trace keys are -1 (initial state) and non-negative event times; start >= 0; end is None or >= start "
           "(established by _validate, which builds the trace)"]


# ------------------------------------------------------------------------------- bounded layer
def crafted_same_endpoints():
    """one durative action with TWO conditions over the same end points whose intervals differ in openness (every pair of closed / open /
    left-open / right-open, both orders of declaration), with happenings exactly at the end points: the action's own start and end effects, or
    another action scheduled at the start instant, flip the fluents the conditions read"""
    from unified_planning.shortcuts import (Problem, Fluent, BoolType, DurativeAction, InstantaneousAction, StartTiming, EndTiming, ClosedTimeInterval,
                                            OpenTimeInterval, LeftOpenTimeInterval, RightOpenTimeInterval)
    kinds = (ClosedTimeInterval, OpenTimeInterval, LeftOpenTimeInterval, RightOpenTimeInterval)
    out = []
    for k1 in kinds:
        for k2 in kinds:
            if k1 is k2:
                continue
            for (p0, q0, own) in ((False, True, True), (True, False, True), (True, True, False), (False, False, True)):
                pr = Problem(f"same_endpoints_{k1.__name__}_{k2.__name__}_{int(p0)}{int(q0)}{int(own)}")
                pf, qf, done = Fluent("p", BoolType()), Fluent("q", BoolType()), Fluent("done", BoolType())
                pr.add_fluent(pf, default_initial_value=p0)
                pr.add_fluent(qf, default_initial_value=q0)
                pr.add_fluent(done, default_initial_value=False)
                a = DurativeAction("work")
                a.set_fixed_duration(4)
                a.add_condition(k1(StartTiming(), EndTiming()), pf)
                a.add_condition(k2(StartTiming(), EndTiming()), qf)
                if own:                      # the action itself establishes what was false, at its start
                    if not p0:
                        a.add_effect(StartTiming(), pf, True)
                    if not q0:
                        a.add_effect(StartTiming(), qf, True)
                a.add_effect(EndTiming(), done, True)
                flip = InstantaneousAction("flip")
                flip.add_effect(pf, False)
                setq = InstantaneousAction("setq")
                setq.add_effect(qf, False)
                for act in (a, flip, setq):
                    pr.add_action(act)
                pr.add_goal(done)
                out.append((pr, [(Fraction(1), a, (), Fraction(4))]))
                out.append((pr, [(Fraction(1), a, (), Fraction(4)), (Fraction(1), flip, (), None)]))
                out.append((pr, [(Fraction(1), a, (), Fraction(4)), (Fraction(5), setq, (), None)]))
                out.append((pr, [(Fraction(1), a, (), Fraction(4)), (Fraction(5), flip, (), None), (Fraction(1), setq, (), None)]))
    return out


def crafted_forall_accumulation():
    """a quantified increase / decrease whose instances all reach the SAME ground fluent (the target does not mention the quantified variable):
    the instances are applied together, so the amounts add up -- as an instantaneous action and at the end of a durative one, with a goal on the sum
    (valid) and goals on the value a single instance would give (invalid)"""
    from unified_planning.shortcuts import (Problem, Fluent, IntType, UserType, Object, Variable, DurativeAction, InstantaneousAction, EndTiming, StartTiming, Equals)
    out = []
    for decrease in (False, True):
        for goalv in ((3, 2, 1) if not decrease else (7, 8, 9)):
            for shape in ("instantaneous", "durative-end", "durative-start"):
                T_ = UserType("T5a")
                pr = Problem(f"forall_accumulation_{'dec' if decrease else 'inc'}_{goalv}_{shape}")
                o1, o2 = Object("o1", T_), Object("o2", T_)
                pr.add_objects([o1, o2])
                total, w = Fluent("total", IntType(0, 20)), Fluent("w", IntType(0, 5), x=T_)
                pr.add_fluent(total, default_initial_value=10 if decrease else 0)
                pr.add_fluent(w, default_initial_value=0)
                pr.set_initial_value(w(o1), 1)
                pr.set_initial_value(w(o2), 2)
                v = Variable("v", T_)
                if shape == "instantaneous":
                    a = InstantaneousAction("sumup")
                    (a.add_decrease_effect if decrease else a.add_increase_effect)(total, w(v), forall=[v])
                    dur = None
                else:
                    a = DurativeAction("sumup")
                    a.set_fixed_duration(2)
                    t = EndTiming() if shape == "durative-end" else StartTiming()
                    (a.add_decrease_effect if decrease else a.add_increase_effect)(t, total, w(v), forall=[v])
                    dur = Fraction(2)
                pr.add_action(a)
                pr.add_goal(Equals(total, goalv))
                out.append((pr, [(Fraction(1), a, (), dur)]))
    return out


def bounded(tier, seed):
    import warnings
    from rtc.tgen import TGen
    from spec import tempsem
    from unified_planning.engines.plan_validator import TimeTriggeredPlanValidator
    from unified_planning.plans import TimeTriggeredPlan, ActionInstance
    from unified_planning.engines.results import ValidationResultStatus
    nprob, nplans = (150, 6) if tier == "quick" else (2500, 10)
    failures, evals, nontrivial, samples, amb = [], 0, set(), [], 0
    with warnings.catch_warnings():
        warnings.simplefilter("ignore")
        tv = TimeTriggeredPlanValidator()
        def stream():
            for k_, (pr_, plan_) in enumerate(crafted_same_endpoints()):
                yield f"crafted{k_}", pr_, [plan_]
            for k_, (pr_, plan_) in enumerate(crafted_forall_accumulation()):
                yield f"crafted-forall-accumulation{k_} [forall-increase-instances-on-one-ground-fluent]", pr_, [plan_]
            from contracts import c04 as _c04      # quantified ASSIGNMENTS whose instances reach one ground fluent (Boolean: add-after-delete; numeric: conflict unless equal)
            for k_, (_s, pr_) in enumerate(_c04.crafted_forall_assignment()):
                yield f"crafted-forall-assignment{k_}", pr_, [[(Fraction(1), pr_.actions[0], (), None)]]
            for i in range(nprob):
                s_ = seed * 100003 + i
                g = TGen(s_)
                try:
                    pr_ = g.problem(f"t{s_}")
                except Exception:  # noqa
                    continue
                yield s_, pr_, [g.plan(pr_) for _ in range(nplans)]
        for s, pr, plans_ in stream():
            if not tv.supports(pr.kind):
                continue
            for plan in plans_:
                try:
                    want, why = tempsem.valid(pr, plan)
                except tempsem.Ambiguous:
                    amb += 1
                    continue
                evals += 1
                desc = {"problem": str(pr), "plan": [f"{st}: {a.name}({','.join(o.name for o in ps)}) [{d}]" for st, a, ps, d in plan]}
                try:
                    res = tv.validate(pr, TimeTriggeredPlan([(st, ActionInstance(a, ps), d) for st, a, ps, d in plan]))
                    got = res.status == ValidationResultStatus.VALID
                except Exception as e:  # noqa
                    failures.append({"what": f"seed {s}: validator raised {type(e).__name__}: {e}", "concrete": desc, "observed": repr(e)})
                    continue
                if want:
                    nontrivial.add((s, tuple(desc["plan"])))
                if got != want:
                    failures.append({"what": f"seed {s}: validator says {'VALID' if got else 'INVALID'}, reference semantics says "
                                             f"{'VALID' if want else 'INVALID (' + why + ')'}", "concrete": desc, "observed": str(res.status)})
                if len(samples) < 3 and want and len(plan) >= 2:
                    samples.append({"problem": pr.name, "plan": desc["plan"], "verdict": "VALID"})
            if len(failures) >= 5:
                break
    return {"evaluations": evals, "distinct_nontrivial": len(nontrivial), "failures": failures[:5],
            "rule": f"{nprob} generated temporal problems (durative actions with fixed/closed/open duration intervals, at-start/at-end/"
                    f"over-all conditions with open and closed ends, start/end/intermediate effects, timed effects and goals) x {nplans} "
                    f"time-triggered plans of <= 3 instances on a half-unit grid (coinciding happenings are frequent); non-trivial = distinct VALID plan",
            "samples": samples, "ambiguous_skipped": amb, "bound": f"{nprob} problems x {nplans} plans, <= 3 instances"}

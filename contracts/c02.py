"""C02 — simulator applicability queries agree with apply.

P (query wrappers, real source; the two primitives get_unsatisfied_conditions / apply_unsafe / get_unsatisfied_goals by contract):
  _is_applicable returns True exactly when the full check reports no reason, False when it raises UPInvalidActionError or
  UPStateMissingFluentError, and lets only UPUsageError (wrong arguments) escape;  _apply returns None exactly when the condition check
  reports a reason or either primitive raises one of the three documented exceptions, and otherwise the state apply_unsafe returned;
  _is_goal is True exactly when get_unsatisfied_goals returns an empty list and False when it raises the documented error;
  _get_applicable_actions yields exactly the grounded instances for which _is_applicable holds (executed on two symbolic instances: bounded).
  None of them can write the state (opaque, no store) and no exception class of the primitives is left unmapped.
The agreement `full-check reason is None  <=>  condition check reason is None and apply_unsafe succeeds` lives inside
get_unsatisfied_conditions / apply_unsafe, which share _evaluate_effect (kernel proved in C01); it is decided by the bounded layer.

B: on the C01 problem family, for every reachable (state, ground action instance):
is_applicable == (apply is not None); get_applicable_actions == {instances apply accepts};
is_goal == (get_unsatisfied_goals == []); each query leaves the state (values, ==, hash) and every
later answer unchanged.  (The kernel exit-state obligation of StateEvaluator.evaluate is proved in C14.)
"""
import warnings
from rtc import seqcheck as SC
from spec import seqsem
from unified_planning.exceptions import UPStateMissingFluentError

USES_THEORY = False


def bounded(tier, seed):
    from unified_planning.engines.sequential_simulator import UPSequentialSimulator
    nprob, depth = (100, 2) if tier == "quick" else (1200, 3)
    failures, evals, nontrivial, samples = [], 0, set(), []
    for s, pr in SC.problems(seed + 7, nprob):
        try:
            with warnings.catch_warnings():
                warnings.simplefilter("ignore")
                sim = UPSequentialSimulator(pr, error_on_failed_checks=True)
                sim.get_initial_state()
        except Exception:  # noqa
            continue
        states, gas = SC.explore(pr, depth)
        # a query abandoned half-way must not change later answers: partially consumed iterator on a fresh simulator
        with warnings.catch_warnings():
            warnings.simplefilter("ignore")
            try:
                sim2 = UPSequentialSimulator(pr, error_on_failed_checks=True)
                s0 = sim2.get_initial_state()
                it = iter(sim2.get_applicable_actions(s0))
                next(it, None)
                del it
                for st in states[:3]:
                    ups = SC.mk_upstate(pr, st)
                    listed = {(a.name, tuple(p.object().name for p in ps)) for a, ps in sim2.get_applicable_actions(ups)}
                    want = {(a.name, tuple(o.name for o in ps)) for (a, ps) in gas if sim2.apply(ups, a, ps) is not None}
                    evals += 1
                    if listed != want:
                        failures.append({"what": f"seed {s}: after an abandoned get_applicable_actions iteration, a later "
                                                 f"get_applicable_actions differs from the instances apply accepts",
                                         "concrete": SC.describe(pr, st), "observed": {"listed": sorted(listed), "apply": sorted(want)}})
                        break
            except Exception as e:  # noqa
                failures.append({"what": f"seed {s}: a query raised {type(e).__name__}: {e}", "concrete": SC.describe(pr, states[0]), "observed": repr(e)})
        for st in states:
            ups = SC.mk_upstate(pr, st)
            before = SC.read_state(pr, ups)
            h0 = hash(ups)
            with warnings.catch_warnings():
                warnings.simplefilter("ignore")
                try:
                    answers = {}
                    for (a, ps) in gas:
                        evals += 1
                        app1 = sim.is_applicable(ups, a, ps)
                        succ = sim.apply(ups, a, ps)
                        app2 = sim.is_applicable(ups, a, ps)
                        answers[(a.name, tuple(o.name for o in ps))] = succ is not None
                        if succ is not None:
                            nontrivial.add((s, seqsem.freeze(st), a.name, tuple(o.name for o in ps)))
                        if app1 != (succ is not None) or app1 != app2:
                            failures.append({"what": f"seed {s}: is_applicable={app1}/{app2} but apply returned "
                                                     f"{'a state' if succ is not None else 'None'}",
                                             "concrete": SC.describe(pr, st, a, ps), "observed": [app1, succ is not None, app2]})
                            break
                    listed = {(a.name, tuple(p.object().name for p in ps)) for a, ps in sim.get_applicable_actions(ups)}
                    want = {k for k, v in answers.items() if v}
                    if listed != want:
                        failures.append({"what": f"seed {s}: get_applicable_actions differs from the instances apply accepts",
                                         "concrete": SC.describe(pr, st), "observed": {"listed": sorted(listed), "apply": sorted(want)}})
                    g1 = sim.is_goal(ups)
                    try:
                        ug = sim.get_unsatisfied_goals(ups)
                    except UPStateMissingFluentError:
                        ug = ["<a goal reads an undefined fluent: documented UPStateMissingFluentError>"]
                    g2 = sim.is_goal(ups)
                    if g1 != (len(ug) == 0) or g1 != g2:
                        failures.append({"what": f"seed {s}: is_goal={g1}/{g2} but get_unsatisfied_goals={ug}",
                                         "concrete": SC.describe(pr, st), "observed": str(ug)})
                    # repeated answers and untouched state
                    for (a, ps) in gas[:6]:
                        if (sim.apply(ups, a, ps) is not None) != answers[(a.name, tuple(o.name for o in ps))]:
                            failures.append({"what": f"seed {s}: the answer to apply changed after other queries",
                                             "concrete": SC.describe(pr, st, a, ps), "observed": None})
                            break
                    if not SC.same_state(SC.read_state(pr, ups), before) or hash(ups) != h0 or ups != SC.mk_upstate(pr, st):
                        failures.append({"what": f"seed {s}: a query changed the state passed in",
                                         "concrete": SC.describe(pr, st), "observed": str(SC.read_state(pr, ups))})
                except Exception as e:  # noqa
                    failures.append({"what": f"seed {s}: a query raised {type(e).__name__}: {e}",
                                     "concrete": SC.describe(pr, st), "observed": repr(e)})
            if len(samples) < 3 and evals % 53 == 0:
                samples.append({"problem": pr.name, "state": SC.describe(pr, st)["state"], "applicable": sorted(map(str, want))})
            if len(failures) >= 5:
                break
        if len(failures) >= 5:
            break
    return {"evaluations": evals, "distinct_nontrivial": len(nontrivial), "failures": failures,
            "rule": f"{nprob} generated problems, states reachable within depth {depth}, every ground action instance: "
                    f"is_applicable/apply/get_applicable_actions/is_goal/get_unsatisfied_goals cross-checked and repeated; "
                    f"non-trivial = distinct (problem, state, applicable action instance)",
            "samples": samples, "bound": f"{nprob} problems, depth {depth}"}




# ======================================================================================================= proved layer
import z3
from pyvc.values import Ref, Seq, Tup, SBool, SRef, SSeq, SSet, Set, Rec, CList, Loc, ExcVal, fresh_name, zbool, zint, Unsupported
from pyvc.verify import Unit
from pyvc.engine import LoopSpec
from pyvc import builtins as B
import unified_planning.engines.sequential_simulator as _ss
from unified_planning.engines.sequential_simulator import InapplicabilityReasons as _IR
from unified_planning.exceptions import (UPUsageError as _Usage, UPInvalidActionError as _Invalid, UPConflictingEffectsException as _Conflict)
_Missing = UPStateMissingFluentError

State02, Action02, Params02, FN02 = Ref("State02"), Ref("Action02"), Ref("Params02"), Ref("FNode02")
_S, _A, _P = State02.z3sort(), Action02.z3sort(), Params02.z3sort()
# outcome of get_unsatisfied_conditions per (state, action, params, full_check): 0 = returns, 1..3 = raises
GUC_EXC = [None, _Usage, _Invalid, _Missing]
GUCRAISE = z3.Function("get_unsatisfied_conditions.raises", _S, _A, _P, z3.BoolSort(), z3.IntSort())
GUCREASON = z3.Function("get_unsatisfied_conditions.reason_is_none", _S, _A, _P, z3.BoolSort(), z3.BoolSort())
AP_EXC = [None, _Usage, _Invalid, _Conflict, _Missing]
APRAISE = z3.Function("apply_unsafe.raises", _S, _A, _P, z3.IntSort())
APRES = z3.Function("apply_unsafe.result", _S, _A, _P, _S)
GUGRAISE = z3.Function("get_unsatisfied_goals.raises", _S, z3.BoolSort())
GUGLEN = z3.Function("get_unsatisfied_goals.len", _S, z3.IntSort())


def _codes(eng, st, code, n, label):
    st.assume(code >= 0, code <= n)
    for k in range(n + 1):
        if eng.feasible(st, code == k):
            yield st.fork().assume(code == k).note(f"{label}={k}"), k


def _guc(eng, st, args, kw):
    selfv, state, action, params = args[:4]
    full = kw.get("full_check", False)
    st.ghost["guc_calls"] = st.ghost.get("guc_calls", ()) + ((bool(full), kw.get("early_termination", False)),)
    fz = z3.BoolVal(bool(full))
    for s, k in _codes(eng, st, GUCRAISE(state.z, action.z, params.z, fz), 3, "guc"):
        if k:
            yield s, ExcVal(GUC_EXC[k], (), "get_unsatisfied_conditions")
            continue
        for s2, none in eng.branch(s, GUCREASON(state.z, action.z, params.z, fz), "guc:reason-none"):
            lst = s2.alloc(Seq(FN02).fresh("unsat"), "list")
            yield s2, (lst, None if none else _IR.VIOLATES_CONDITIONS)


def _apply_unsafe(eng, st, args, kw):
    selfv, state, action, params = args[:4]
    for s, k in _codes(eng, st, APRAISE(state.z, action.z, params.z), 4, "ap"):
        yield s, (ExcVal(AP_EXC[k], (), "apply_unsafe") if k else State02.wrap(APRES(state.z, action.z, params.z)))


def _gug(eng, st, args, kw):
    selfv, state = args[:2]
    for s, r in eng.branch(st, GUGRAISE(state.z), "gug:raise"):
        if r:
            yield s, ExcVal(_Missing, (), "get_unsatisfied_goals")
        else:
            seq = Seq(FN02).fresh("unsatisfied_goals")
            s.assume(seq.n == GUGLEN(state.z), seq.n >= 0)
            yield s, s.alloc(seq, "list")


def _install(eng):
    eng.contracts[_ss.UPSequentialSimulator.get_unsatisfied_conditions] = _guc
    eng.contracts[_ss.UPSequentialSimulator.apply_unsafe] = _apply_unsafe
    eng.contracts[_ss.UPSequentialSimulator.get_unsatisfied_goals] = _gug


class Wrapper(Unit):
    prop = "C02"
    allowed_raises = (_Usage,)

    def __init__(self, fname, doc):
        self.fname, self.doc = fname, doc
        self.name = f"UPSequentialSimulator.{fname}"

    def target(self):
        return getattr(_ss.UPSequentialSimulator, self.fname)

    def configure(self, eng):
        _install(eng)

    def setup(self, eng, st):
        w = st.alloc(Rec(_ss.UPSequentialSimulator, {}), "simulator")
        state, action, params = State02.fresh("state"), Action02.fresh("action"), Params02.fresh("parameters")
        args = [w, state] if self.fname == "_is_goal" else [w, state, action, params]
        return args, {}, dict(state=state, action=action, params=params)

    def post(self, eng, ctx, st, out):
        s, a, p = ctx["state"].z, ctx["action"].z, ctx["params"].z
        T_, F_ = z3.BoolVal(True), z3.BoolVal(False)
        if self.fname == "_is_applicable":
            code, none = GUCRAISE(s, a, p, T_), GUCREASON(s, a, p, T_)
            if out[0] == "raise":
                st.oblige("only UPUsageError of the full check escapes", z3.And(z3.BoolVal(out[1].cls is _Usage), code == 1))
                return
            st.oblige("the answer is a Boolean", z3.BoolVal(isinstance(out[1], (bool, SBool))))
            st.oblige("True exactly when the full check returns without a reason; False also when it raises the documented errors",
                      zbool(out[1]) == z3.And(code == 0, none))
            st.oblige("the full check is what is asked (full_check=True)", z3.BoolVal(st.ghost.get("guc_calls") == ((True, True),)))
        elif self.fname == "_apply":
            code, none, ap = GUCRAISE(s, a, p, F_), GUCREASON(s, a, p, F_), APRAISE(s, a, p)
            if out[0] == "raise":
                st.oblige("only UPUsageError of the primitives escapes", z3.And(z3.BoolVal(out[1].cls is _Usage), z3.Or(code == 1, z3.And(code == 0, none, ap == 1))))
                return
            ok = z3.And(code == 0, none, ap == 0)
            if out[1] is None:
                st.oblige("None only when the condition check reports a reason or a primitive raises a documented error", z3.Not(ok))
            else:
                st.oblige("a state is returned only when the conditions hold and apply_unsafe succeeds", ok)
                st.oblige("the returned state is apply_unsafe's", out[1].z == APRES(s, a, p))
        elif self.fname == "_is_goal":
            if out[0] == "raise":
                st.oblige("no exception escapes is_goal", F_)
                return
            st.oblige("True exactly when get_unsatisfied_goals returns the empty list", zbool(out[1]) == z3.And(z3.Not(GUGRAISE(s)), GUGLEN(s) == 0))


GA02 = Tup(Action02, Params02, FN02)
ISAPP = z3.Function("_is_applicable.result", _S, _A, _P, z3.BoolSort())
QNGA = "unified_planning.engines.sequential_simulator.UPSequentialSimulator._get_applicable_actions"


class ApplicableActionsStep(Unit):
    """one arbitrary iteration of the loop of _get_applicable_actions, via a one-element list: yields the instance iff it is applicable"""
    prop = "C02"
    name = "UPSequentialSimulator._get_applicable_actions (per instance)"
    bounded_by_construction = True      # two symbolic grounded instances
    doc = "for every grounded instance: it is yielded exactly when _is_applicable holds for it in the given state"
    allowed_raises = (_Usage,)

    def target(self):
        return _ss.UPSequentialSimulator._get_applicable_actions

    def configure(self, eng):
        def is_app(eng_, st, args, kw):
            selfv, state, action, params = args
            st.ghost["asked"] = st.ghost.get("asked", ()) + ((state.z, action.z, params.z),)
            yield st, SBool(ISAPP(state.z, action.z, params.z))
        eng.contracts[_ss.UPSequentialSimulator._is_applicable] = is_app

        def hook(eng_, st, v):
            st.ghost["yielded"] = st.ghost.get("yielded", ()) + (v,)
        eng.yield_hooks[QNGA] = hook

    def setup(self, eng, st):
        k = 2
        items = [GA02.fresh(f"ga{j}") for j in range(k)]
        w = st.alloc(Rec(_ss.UPSequentialSimulator, {"_grounded_actions": st.alloc(CList(items), "list")}), "simulator")
        state = State02.fresh("state")
        return [w, state], {}, dict(state=state, items=items)

    def post(self, eng, ctx, st, out):
        if out[0] != "return":
            return
        s = ctx["state"].z
        ys = list(st.ghost.get("yielded", ()))
        want = []
        conds = []
        for (a, p, _) in ctx["items"]:
            conds.append(ISAPP(s, a.z, p.z))
        # the yielded sequence is the sub-sequence of applicable instances, in order
        pos = 0
        terms = []
        exp_count = z3.Sum([z3.If(c, 1, 0) for c in conds])
        st.oblige("as many instances are yielded as are applicable", z3.IntVal(len(ys)) == exp_count)
        for (ya, yp) in ys:
            match = z3.Or([z3.And(c, ya.z == a.z, yp.z == p.z) for c, (a, p, _) in zip(conds, ctx["items"])])
            st.oblige("every yielded instance is a grounded instance that is applicable", match)
        st.oblige("applicability is asked in the given state only", z3.BoolVal(all(z3.eq(x[0], s) for x in st.ghost.get("asked", ()))))


UNITS = [Wrapper("_is_applicable", "exception mapping and verdict of the applicability query"),
         Wrapper("_apply", "None iff not applicable or a documented error; otherwise apply_unsafe's state"),
         Wrapper("_is_goal", "goal test = empty list of unsatisfied goals; the documented error counts as not a goal"),
         ApplicableActionsStep()]
LEVEL = "other"
EXPLANATION = __doc__
TRUSTED = ["get_unsatisfied_conditions / apply_unsafe / get_unsatisfied_goals are used by contract (return, or raise one of their documented exception classes); "
           "that the full check agrees with apply_unsafe is decided by the bounded layer (both share _evaluate_effect, proved in C01)",
           "_get_applicable_actions: verified on a list of two symbolic grounded instances (the loop body is iteration-independent); labelled bounded"]

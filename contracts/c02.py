"""C02 — simulator applicability queries agree with apply.

P (query wrappers, real source; the two primitives get_unsatisfied_conditions / apply_unsafe / get_unsatisfied_goals by contract):
  _is_applicable returns True exactly when the full check reports no reason, False when it raises UPInvalidActionError or
  UPStateMissingFluentError, and lets only UPUsageError (wrong arguments) escape;  _apply returns None exactly when the condition check
  reports a reason or either primitive raises one of the three documented exceptions, and otherwise the state apply_unsafe returned;
  _is_goal is True exactly when get_unsatisfied_goals returns an empty list and False when it raises the documented error;
  _get_applicable_actions yields exactly the grounded instances for which _is_applicable holds (executed on two symbolic instances: bounded).
  None of them can write the state (opaque, no store) and no exception class of the primitives is left unmapped.
The agreement `full-check reason is None  <=>  condition check reason is None and apply_unsafe succeeds` lives inside
get_unsatisfied_conditions / apply_unsafe, which share _evaluate_effect (kernel proved in C01); it is decided by the bounded layer.

B: on the C01 problem family, for every reachable (state, ground action instance):
is_applicable == (apply is not None); get_applicable_actions == {instances apply accepts};
is_goal == (get_unsatisfied_goals == []); each query leaves the state (values, ==, hash) and every
later answer unchanged.  (The kernel exit-state obligation of StateEvaluator.evaluate is proved in C14.)
"""
import warnings
from rtc import seqcheck as SC
from spec import seqsem
from unified_planning.exceptions import UPStateMissingFluentError

USES_THEORY = False


def bounded(tier, seed):
    from unified_planning.engines.sequential_simulator import UPSequentialSimulator
    nprob, depth = (100, 2) if tier == "quick" else (1200, 3)
    failures, evals, nontrivial, samples = [], 0, set(), []
    for s, pr in SC.problems(seed + 7, nprob):
        try:
            with warnings.catch_warnings():
                warnings.simplefilter("ignore")
                sim = UPSequentialSimulator(pr, error_on_failed_checks=True)
                sim.get_initial_state()
        except Exception:  # noqa
            continue
        states, gas = SC.explore(pr, depth)
        # a query abandoned half-way must not change later answers: partially consumed iterator on a fresh simulator
        with warnings.catch_warnings():
            warnings.simplefilter("ignore")
            try:
                sim2 = UPSequentialSimulator(pr, error_on_failed_checks=True)
                s0 = sim2.get_initial_state()
                it = iter(sim2.get_applicable_actions(s0))
                next(it, None)
                del it
                for st in states[:3]:
                    ups = SC.mk_upstate(pr, st)
                    listed = {(a.name, tuple(p.object().name for p in ps)) for a, ps in sim2.get_applicable_actions(ups)}
                    want = {(a.name, tuple(o.name for o in ps)) for (a, ps) in gas if sim2.apply(ups, a, ps) is not None}
                    evals += 1
                    if listed != want:
                        failures.append({"what": f"seed {s}: after an abandoned get_applicable_actions iteration, a later "
                                                 f"get_applicable_actions differs from the instances apply accepts",
                                         "concrete": SC.describe(pr, st), "observed": {"listed": sorted(listed), "apply": sorted(want)}})
                        break
            except Exception as e:  # noqa
                failures.append({"what": f"seed {s}: a query raised {type(e).__name__}: {e}", "concrete": SC.describe(pr, states[0]), "observed": repr(e)})
        for st in states:
            ups = SC.mk_upstate(pr, st)
            before = SC.read_state(pr, ups)
            h0 = hash(ups)
            with warnings.catch_warnings():
                warnings.simplefilter("ignore")
                try:
                    answers = {}
                    for (a, ps) in gas:
                        evals += 1
                        app1 = sim.is_applicable(ups, a, ps)
                        succ = sim.apply(ups, a, ps)
                        app2 = sim.is_applicable(ups, a, ps)
                        answers[(a.name, tuple(o.name for o in ps))] = succ is not None
                        if succ is not None:
                            nontrivial.add((s, seqsem.freeze(st), a.name, tuple(o.name for o in ps)))
                        if app1 != (succ is not None) or app1 != app2:
                            failures.append({"what": f"seed {s}: is_applicable={app1}/{app2} but apply returned "
                                                     f"{'a state' if succ is not None else 'None'}",
                                             "concrete": SC.describe(pr, st, a, ps), "observed": [app1, succ is not None, app2]})
                            break
                    listed = {(a.name, tuple(p.object().name for p in ps)) for a, ps in sim.get_applicable_actions(ups)}
                    want = {k for k, v in answers.items() if v}
                    if listed != want:
                        failures.append({"what": f"seed {s}: get_applicable_actions differs from the instances apply accepts",
                                         "concrete": SC.describe(pr, st), "observed": {"listed": sorted(listed), "apply": sorted(want)}})
                    g1 = sim.is_goal(ups)
                    try:
                        ug = sim.get_unsatisfied_goals(ups)
                    except UPStateMissingFluentError:
                        ug = ["<a goal reads an undefined fluent: documented UPStateMissingFluentError>"]
                    g2 = sim.is_goal(ups)
                    if g1 != (len(ug) == 0) or g1 != g2:
                        failures.append({"what": f"seed {s}: is_goal={g1}/{g2} but get_unsatisfied_goals={ug}",
                                         "concrete": SC.describe(pr, st), "observed": str(ug)})
                    # repeated answers and untouched state
                    for (a, ps) in gas[:6]:
                        if (sim.apply(ups, a, ps) is not None) != answers[(a.name, tuple(o.name for o in ps))]:
                            failures.append({"what": f"seed {s}: the answer to apply changed after other queries",
                                             "concrete": SC.describe(pr, st, a, ps), "observed": None})
                            break
                    if not SC.same_state(SC.read_state(pr, ups), before) or hash(ups) != h0 or ups != SC.mk_upstate(pr, st):
                        failures.append({"what": f"seed {s}: a query changed the state passed in",
                                         "concrete": SC.describe(pr, st), "observed": str(SC.read_state(pr, ups))})
                except Exception as e:  # noqa
                    failures.append({"what": f"seed {s}: a query raised {type(e).__name__}: {e}",
                                     "concrete": SC.describe(pr, st), "observed": repr(e)})
            if len(samples) < 3 and evals % 53 == 0:
                samples.append({"problem": pr.name, "state": SC.describe(pr, st)["state"], "applicable": sorted(map(str, want))})
            if len(failures) >= 5:
                break
        if len(failures) >= 5:
            break
    return {"evaluations": evals, "distinct_nontrivial": len(nontrivial), "failures": failures,
            "rule": f"{nprob} generated problems, states reachable within depth {depth}, every ground action instance: "
                    f"is_applicable/apply/get_applicable_actions/is_goal/get_unsatisfied_goals cross-checked and repeated; "
                    f"non-trivial = distinct (problem, state, applicable action instance)",
            "samples": samples, "bound": f"{nprob} problems, depth {depth}"}




# ======================================================================================================= proved layer
import z3
from pyvc.values import Ref, Seq, Tup, Map, SBool, SRef, SSeq, SSet, SMap, SUnion, CDict, Set, Rec, CList, Loc, ExcVal, fresh_name, zbool, zint, Unsupported
from pyvc.verify import Unit
from pyvc.engine import LoopSpec
from pyvc import builtins as B
import unified_planning.engines.sequential_simulator as _ss
from unified_planning.engines.sequential_simulator import InapplicabilityReasons as _IR
from unified_planning.exceptions import (UPUsageError as _Usage, UPInvalidActionError as _Invalid, UPConflictingEffectsException as _Conflict)
_Missing = UPStateMissingFluentError

State02, Action02, Params02, FN02 = Ref("State02"), Ref("Action02"), Ref("Params02"), Ref("FNode02")
_S, _A, _P = State02.z3sort(), Action02.z3sort(), Params02.z3sort()
# outcome of get_unsatisfied_conditions per (state, action, params, full_check): 0 = returns, 1..3 = raises
GUC_EXC = [None, _Usage, _Invalid, _Missing]
GUCRAISE = z3.Function("get_unsatisfied_conditions.raises", _S, _A, _P, z3.BoolSort(), z3.IntSort())
GUCREASON = z3.Function("get_unsatisfied_conditions.reason_is_none", _S, _A, _P, z3.BoolSort(), z3.BoolSort())
AP_EXC = [None, _Usage, _Invalid, _Conflict, _Missing]
APRAISE = z3.Function("apply_unsafe.raises", _S, _A, _P, z3.IntSort())
APRES = z3.Function("apply_unsafe.result", _S, _A, _P, _S)
GUGRAISE = z3.Function("get_unsatisfied_goals.raises", _S, z3.BoolSort())
GUGLEN = z3.Function("get_unsatisfied_goals.len", _S, z3.IntSort())


def _codes(eng, st, code, n, label):
    st.assume(code >= 0, code <= n)
    for k in range(n + 1):
        if eng.feasible(st, code == k):
            yield st.fork().assume(code == k).note(f"{label}={k}"), k


def _guc(eng, st, args, kw):
    selfv, state, action, params = args[:4]
    full = kw.get("full_check", False)
    st.ghost["guc_calls"] = st.ghost.get("guc_calls", ()) + ((bool(full), kw.get("early_termination", False)),)
    fz = z3.BoolVal(bool(full))
    for s, k in _codes(eng, st, GUCRAISE(state.z, action.z, params.z, fz), 3, "guc"):
        if k:
            yield s, ExcVal(GUC_EXC[k], (), "get_unsatisfied_conditions")
            continue
        for s2, none in eng.branch(s, GUCREASON(state.z, action.z, params.z, fz), "guc:reason-none"):
            lst = s2.alloc(Seq(FN02).fresh("unsat"), "list")
            yield s2, (lst, None if none else _IR.VIOLATES_CONDITIONS)


def _apply_unsafe(eng, st, args, kw):
    selfv, state, action, params = args[:4]
    for s, k in _codes(eng, st, APRAISE(state.z, action.z, params.z), 4, "ap"):
        yield s, (ExcVal(AP_EXC[k], (), "apply_unsafe") if k else State02.wrap(APRES(state.z, action.z, params.z)))


def _gug(eng, st, args, kw):
    selfv, state = args[:2]
    for s, r in eng.branch(st, GUGRAISE(state.z), "gug:raise"):
        if r:
            yield s, ExcVal(_Missing, (), "get_unsatisfied_goals")
        else:
            seq = Seq(FN02).fresh("unsatisfied_goals")
            s.assume(seq.n == GUGLEN(state.z), seq.n >= 0)
            yield s, s.alloc(seq, "list")


def _install(eng):
    eng.contracts[_ss.UPSequentialSimulator.get_unsatisfied_conditions] = _guc
    eng.contracts[_ss.UPSequentialSimulator.apply_unsafe] = _apply_unsafe
    eng.contracts[_ss.UPSequentialSimulator.get_unsatisfied_goals] = _gug


class Wrapper(Unit):
    prop = "C02"
    allowed_raises = (_Usage,)

    def __init__(self, fname, doc):
        self.fname, self.doc = fname, doc
        self.name = f"UPSequentialSimulator.{fname}"

    def target(self):
        return getattr(_ss.UPSequentialSimulator, self.fname)

    def configure(self, eng):
        _install(eng)

    def setup(self, eng, st):
        w = st.alloc(Rec(_ss.UPSequentialSimulator, {}), "simulator")
        state, action, params = State02.fresh("state"), Action02.fresh("action"), Params02.fresh("parameters")
        args = [w, state] if self.fname == "_is_goal" else [w, state, action, params]
        return args, {}, dict(state=state, action=action, params=params)

    def post(self, eng, ctx, st, out):
        s, a, p = ctx["state"].z, ctx["action"].z, ctx["params"].z
        T_, F_ = z3.BoolVal(True), z3.BoolVal(False)
        if self.fname == "_is_applicable":
            code, none = GUCRAISE(s, a, p, T_), GUCREASON(s, a, p, T_)
            if out[0] == "raise":
                st.oblige("only UPUsageError of the full check escapes", z3.And(z3.BoolVal(out[1].cls is _Usage), code == 1))
                return
            st.oblige("the answer is a Boolean", z3.BoolVal(isinstance(out[1], (bool, SBool))))
            st.oblige("True exactly when the full check returns without a reason; False also when it raises the documented errors",
                      zbool(out[1]) == z3.And(code == 0, none))
            st.oblige("the full check is what is asked (full_check=True)", z3.BoolVal(st.ghost.get("guc_calls") == ((True, True),)))
        elif self.fname == "_apply":
            code, none, ap = GUCRAISE(s, a, p, F_), GUCREASON(s, a, p, F_), APRAISE(s, a, p)
            if out[0] == "raise":
                st.oblige("only UPUsageError of the primitives escapes", z3.And(z3.BoolVal(out[1].cls is _Usage), z3.Or(code == 1, z3.And(code == 0, none, ap == 1))))
                return
            ok = z3.And(code == 0, none, ap == 0)
            if out[1] is None:
                st.oblige("None only when the condition check reports a reason or a primitive raises a documented error", z3.Not(ok))
            else:
                st.oblige("a state is returned only when the conditions hold and apply_unsafe succeeds", ok)
                st.oblige("the returned state is apply_unsafe's", out[1].z == APRES(s, a, p))
        elif self.fname == "_is_goal":
            if out[0] == "raise":
                st.oblige("no exception escapes is_goal", F_)
                return
            st.oblige("True exactly when get_unsatisfied_goals returns the empty list", zbool(out[1]) == z3.And(z3.Not(GUGRAISE(s)), GUGLEN(s) == 0))


GA02 = Tup(Action02, Params02, FN02)
ISAPP = z3.Function("_is_applicable.result", _S, _A, _P, z3.BoolSort())
QNGA = "unified_planning.engines.sequential_simulator.UPSequentialSimulator._get_applicable_actions"


class ApplicableActionsStep(Unit):
    """one arbitrary iteration of the loop of _get_applicable_actions, via a one-element list: yields the instance iff it is applicable"""
    prop = "C02"
    name = "UPSequentialSimulator._get_applicable_actions (per instance)"
    bounded_by_construction = True      # two symbolic grounded instances
    doc = "for every grounded instance: it is yielded exactly when _is_applicable holds for it in the given state"
    allowed_raises = (_Usage,)

    def target(self):
        return _ss.UPSequentialSimulator._get_applicable_actions

    def configure(self, eng):
        def is_app(eng_, st, args, kw):
            selfv, state, action, params = args
            st.ghost["asked"] = st.ghost.get("asked", ()) + ((state.z, action.z, params.z),)
            yield st, SBool(ISAPP(state.z, action.z, params.z))
        eng.contracts[_ss.UPSequentialSimulator._is_applicable] = is_app

        def hook(eng_, st, v):
            st.ghost["yielded"] = st.ghost.get("yielded", ()) + (v,)
        eng.yield_hooks[QNGA] = hook

    def setup(self, eng, st):
        k = 2
        items = [GA02.fresh(f"ga{j}") for j in range(k)]
        w = st.alloc(Rec(_ss.UPSequentialSimulator, {"_grounded_actions": st.alloc(CList(items), "list")}), "simulator")
        state = State02.fresh("state")
        return [w, state], {}, dict(state=state, items=items)

    def post(self, eng, ctx, st, out):
        if out[0] != "return":
            return
        s = ctx["state"].z
        ys = list(st.ghost.get("yielded", ()))
        want = []
        conds = []
        for (a, p, _) in ctx["items"]:
            conds.append(ISAPP(s, a.z, p.z))
        # the yielded sequence is the sub-sequence of applicable instances, in order
        pos = 0
        terms = []
        exp_count = z3.Sum([z3.If(c, 1, 0) for c in conds])
        st.oblige("as many instances are yielded as are applicable", z3.IntVal(len(ys)) == exp_count)
        for (ya, yp) in ys:
            match = z3.Or([z3.And(c, ya.z == a.z, yp.z == p.z) for c, (a, p, _) in zip(conds, ctx["items"])])
            st.oblige("every yielded instance is a grounded instance that is applicable", match)
        st.oblige("applicability is asked in the given state only", z3.BoolVal(all(z3.eq(x[0], s) for x in st.ghost.get("asked", ()))))


# --------------------------------------------------------------------------------------------------- apply_unsafe: the fold
# apply_unsafe is where the per-effect kernel (_evaluate_effect, proved in C01) is folded over the action's effects.  Under contract here:
# every expanded effect of every effect is handed to the kernel, always with the PRE-state, the expression manager of the problem and the SAME
# two bookkeeping containers, and -- what the agreement with the full-check path of get_unsatisfied_conditions rests on -- the kernel always sees
# every value reported so far (simulated-effect values first); make_child receives exactly those values on the pre-state; every state invariant is
# evaluated on the NEW state, UPInvalidActionError exactly when one is false.
import unified_planning as _up02
from unified_planning.exceptions import (UPInvalidActionError as _Invalid02, UPConflictingEffectsException as _Conflict02)
from unified_planning.exceptions import UPStateMissingFluentError as _Missing02
FN02b, EFF02, GA02b, SIM02, SE02, PB02, ENV02b, MG02 = (Ref(n) for n in ("FNode02", "Effect02", "GroundedAction02", "SimulatedEffect02", "StateEvaluator02",
                                                                        "Problem02", "Environment02", "ExpressionManager02"))
UPS02 = Ref("UPState02", pycls=_up02.model.UPState)
IA02 = Ref("InstantaneousAction02", pycls=_up02.model.InstantaneousAction)
GA02b.null = z3.Const("GroundedAction02.None", GA02b.z3sort())
SIM02.null = z3.Const("SimulatedEffect02.None", SIM02.z3sort())
GA02b.fields.update({"simulated_effect": SIM02, "effects": Seq(EFF02), "preconditions": Seq(FN02b)})
SIM02.fields["fluents"] = Seq(FN02b)
PB02.fields["environment"] = ENV02b
ENV02b.fields["expression_manager"] = MG02
EXPAND = lambda e_, st_, z: B.uf_value(e_, st_, "expand_effect", [z], [EFF02.z3sort()], Seq(EFF02))       # noqa: E731
SIMVALS = lambda e_, st_, z, s_: B.uf_value(e_, st_, "simulated_values", [z, s_], [SIM02.z3sort(), UPS02.z3sort()], Seq(FN02b))   # noqa: E731
INVOK = z3.Function("invariant_holds_in", FN02b.z3sort(), UPS02.z3sort(), z3.BoolSort())
QNAU = "unified_planning.engines.sequential_simulator.UPSequentialSimulator.apply_unsafe"


class ApplyUnsafe(Unit):
    prop = "C02"
    name = "UPSequentialSimulator.apply_unsafe"
    doc = ("the fold of _evaluate_effect over all expanded effects: pre-state, same containers, the kernel sees every value reported so far; make_child "
           "gets exactly the reported values on the pre-state; state invariants are evaluated on the new state; any numbers of effects / invariants")
    allowed_raises = (_Invalid02, _Conflict02, _Missing02)
    QN, LOOPS = QNAU, (1, 2, 3)

    def target(self):
        return _ss.UPSequentialSimulator.apply_unsafe

    def configure(self, eng):
        unit = self
        S = _ss.UPSequentialSimulator
        eng.contracts[S._get_action_and_parameters] = lambda e, st, a, k: iter([(st, (unit._act, unit._params))])

        def ground(e, st, a, k):
            yield st, unit._ga
        eng.contracts[S._ground_action] = ground
        SIM02.methods["function"] = lambda e, st, sv, a, k: iter([(st, SIMVALS(e, st, sv.z, a[1].z))])
        EFF02.methods["expand_effect"] = lambda e, st, sv, a, k: iter([(st, EXPAND(e, st, sv.z))])

        def G(st):
            return eng.deref(st, st.getfield(unit._w, "_g_reported"))

        def same_as_reported(e, st, d):
            c = e.deref(st, d)
            g = G(st)
            if isinstance(c, (B.PendingEmpty, CDict)) and not getattr(c, "items", None):
                k_ = FN02b.fresh("k")
                return z3.ForAll([k_.z], z3.Not(z3.Select(g.has, k_.z)))
            return c.same(g).z if isinstance(c, SMap) else z3.BoolVal(False)

        def evaluate_effect(e, st, a, k):
            eff, state, uv, af, em = a[1], a[2], a[3], a[4], a[5]
            st.oblige("the kernel evaluates in the PRE-state", state.z == unit._state.z if isinstance(state, SRef) else z3.BoolVal(False))
            own_uv, own_af = st.frame.vars.get("updated_values"), st.frame.vars.get("assigned_fluent")
            st.oblige("the kernel is given the function's own bookkeeping containers (the objects make_child / the next call will see), not copies",
                      z3.BoolVal(isinstance(uv, Loc) and isinstance(af, Loc) and isinstance(own_uv, Loc) and isinstance(own_af, Loc)
                                 and uv.id == own_uv.id and af.id == own_af.id))
            st.oblige("the kernel is given the problem's expression manager", em.z == unit._em if isinstance(em, SRef) else z3.BoolVal(False))
            st.oblige("the kernel sees every value reported so far (nothing dropped, nothing else written)", same_as_reported(e, st, uv))
            h = e.deref(st, st.getfield(unit._w, "_g_handed"))
            kk = EFF02.fresh("k")
            st.setfield(unit._w, "_g_handed", st.alloc(SSet(EFF02, z3.Lambda([kk.z], z3.Or(z3.Select(h.has, kk.z), kk.z == eff.z))), "set"))
            # the kernel may extend assigned_fluent
            afc = e.deref(st, af)
            grown = e.fresh_of(st, Set(FN02b), "assigned_after")
            if isinstance(afc, SSet):
                x = FN02b.fresh("x")
                st.assume(z3.ForAll([x.z], z3.Implies(z3.Select(afc.has, x.z), z3.Select(grown.has, x.z))))
            st.store(af, grown)
            s2 = st.fork()
            yield s2.note("kernel:raise"), ExcVal(_Conflict02, (), "_evaluate_effect")
            s3 = st.fork()
            yield s3.note("kernel:nothing"), (None, None)
            f, v = FN02b.fresh("reported_fluent"), FN02b.fresh("reported_value")
            g = G(st)
            st.setfield(unit._w, "_g_reported", st.alloc(SMap(FN02b, FN02b, z3.Store(g.has, f.z, True), z3.Store(g.val, f.z, v.z)), "dict"))
            yield st.note("kernel:report"), (f, v)
        eng.contracts[S._evaluate_effect] = evaluate_effect

        def make_child(e, st, sv, a, k):
            st.oblige("make_child is applied to the pre-state", sv.z == unit._state.z)
            st.oblige("make_child receives exactly the reported values", same_as_reported(e, st, a[0]))
            if not st.ghost.get("conflict"):     # (after a reported conflict the fold stops where it is: full-check path only)
                st.oblige("every expanded effect of every effect was handed to the kernel", unit._all_handed(e, st, unit._effs.n))
            st.ghost["child_made"] = st.ghost.get("child_made", 0) + 1
            yield st, unit._new
        UPS02.methods["make_child"] = make_child

        def evaluate(e, st, sv, a, k):
            # the value of the expression IN THE STATE IT IS EVALUATED IN (post-conditions speak about the state they mean)
            r = Ref("BoolConstant02").fresh("value")
            sz = a[1].z if isinstance(a[1], SRef) else UPS02.fresh("not_a_state").z
            BC = Ref("BoolConstant02").z3sort()
            # StateEvaluator.evaluate returns a constant (its own assert; Boolean for a Boolean expression: C15)
            st.assume(B._uf("BoolConstant02.is_bool_constant()", BC, z3.BoolSort())(r.z),
                      B._uf("BoolConstant02.bool_constant_value()", BC, z3.BoolSort())(r.z) == INVOK(a[0].z, sz))
            yield st, r
        SE02.methods["evaluate"] = evaluate
        Ref("BoolConstant02").observers["bool_constant_value"] = ((), B.Bool)
        Ref("BoolConstant02").observers["is_bool_constant"] = ((), B.Bool)
        self._install_loops(eng)

    def _install_loops(self, eng):
        unit = self

        def uvmap(L):
            c = L.updated_values
            return c

        def sim_inv(L):
            i = zint(L._i)
            g = L.field(unit._w, "_g_reported")
            j = z3.Int(fresh_name("j"))
            return [("no kernel call yet: the reported values are the simulated ones stored so far", z3.BoolVal(True))]

        def handed_upto(L, i, jj=None):
            return unit._all_handed(L._eng, L.st, i, jj)

        def o_inv(L):
            c = L.updated_values
            return [("updated_values holds exactly the values reported so far", unit._same(L._eng, L.st, c, L.field(unit._w, "_g_reported"))),
                    ("the expansions of the effects handled so far were all handed to the kernel", handed_upto(L, zint(L._i)))]

        def i_inv(L):
            c = L.updated_values
            return [("updated_values holds exactly the values reported so far", unit._same(L._eng, L.st, c, L.field(unit._w, "_g_reported"))),
                    ("... and the expansions of the current effect handled so far", handed_upto(L, zint(getattr(L, f"_loop{unit.LOOPS[0]}_i")), zint(L._i)))]

        def v_inv(L):
            j = z3.Int(fresh_name("j"))
            return [("every invariant checked so far holds in the new state",
                     z3.ForAll([j], z3.Implies(z3.And(0 <= j, j < zint(L._i)), INVOK(z3.Select(unit._invs.arr, j), unit._new.z))))]
        tys = {"updated_values": Map(FN02b, FN02b), "assigned_fluent": Set(FN02b), "e": EFF02, "effect": EFF02, "fluent": FN02b, "value": FN02b, "f": FN02b, "v": FN02b,
               "si": FN02b, "self._g_reported": Map(FN02b, FN02b), "self._g_handed": Set(EFF02)}
        eng.loops[(self.QN, self.LOOPS[0])] = LoopSpec(o_inv, modifies=["updated_values", "assigned_fluent", "e", "effect", "fluent", "value", "self._g_reported", "self._g_handed"], types=tys)
        eng.loops[(self.QN, self.LOOPS[1])] = LoopSpec(i_inv, modifies=["updated_values", "assigned_fluent", "effect", "fluent", "value", "self._g_reported", "self._g_handed"], types=tys)
        eng.loops[(self.QN, self.LOOPS[2])] = LoopSpec(v_inv, modifies=["si"], types=tys)

    def _same(self, eng, st, c, g):
        if isinstance(c, SMap):
            return c.same(g).z
        k_ = FN02b.fresh("k")
        return z3.ForAll([k_.z], z3.Not(z3.Select(g.has, k_.z)))

    def _all_handed(self, eng, st, upto, part=None):
        h = eng.deref(st, st.getfield(self._w, "_g_handed"))
        i, j = z3.Int(fresh_name("i")), z3.Int(fresh_name("j"))
        ex_i = EXPAND(eng, st, z3.Select(self._effs.arr, i))
        full = z3.ForAll([i, j], z3.Implies(z3.And(0 <= i, i < upto, 0 <= j, j < ex_i.n), z3.Select(h.has, z3.Select(ex_i.arr, j))))
        if part is None:
            return full
        ex_a = EXPAND(eng, st, z3.Select(self._effs.arr, upto))
        return z3.And(full, z3.ForAll([j], z3.Implies(z3.And(0 <= j, j < part), z3.Select(h.has, z3.Select(ex_a.arr, j)))))

    def setup(self, eng, st):
        self._state, self._act, self._params = UPS02.fresh("state"), IA02.fresh("action"), Params02.fresh("parameters")
        self._ga, self._new = GA02b.fresh("grounded_action"), UPS02.fresh("new_state")
        pb = PB02.fresh("problem")
        self._em = B._uf("Environment02.expression_manager", ENV02b.z3sort(), MG02.z3sort())(B._uf("Problem02.environment", PB02.z3sort(), ENV02b.z3sort())(pb.z))
        self._effs = B.field_uf(eng, st, self._ga, "effects")
        self._invs = eng.fresh_of(st, Seq(FN02b), "state_invariants")
        st.assume(B._uf("GroundedAction02.simulated_effect", GA02b.z3sort(), SIM02.z3sort())(self._ga.z) == SIM02.null)    # simulated effects: see the unit's note
        empty_map = SMap(FN02b, FN02b, z3.K(FN02b.z3sort(), z3.BoolVal(False)), z3.K(FN02b.z3sort(), FN02b.fresh("dflt").z))
        empty_set = SSet(EFF02, z3.K(EFF02.z3sort(), z3.BoolVal(False)))
        self._w = st.alloc(Rec(_ss.UPSequentialSimulator, {"_problem": pb, "_state_invariants": st.alloc(self._invs, "list"), "_se": SE02.fresh("se"),
                                                            "_g_reported": st.alloc(empty_map, "dict"), "_g_handed": st.alloc(empty_set, "set")}), "simulator")
        return [self._w, self._state, self._act, self._params], {}, {}

    def post(self, eng, ctx, st, out):
        j = z3.Int(fresh_name("j"))
        allok = z3.ForAll([j], z3.Implies(z3.And(0 <= j, j < self._invs.n), INVOK(z3.Select(self._invs.arr, j), self._new.z)))
        if out[0] == "raise":
            if out[1].cls is _Invalid02:
                st.oblige("UPInvalidActionError only when the action cannot be grounded or some state invariant is false in the new state",
                          z3.Or(self._ga.z == GA02b.null, z3.And(z3.BoolVal(st.ghost.get("child_made", 0) == 1), z3.Not(allok))))
            return
        st.oblige("the new state is returned, made exactly once", z3.And(z3.BoolVal(st.ghost.get("child_made", 0) == 1), out[1].z == self._new.z if isinstance(out[1], SRef) else z3.BoolVal(False)))
        st.oblige("every state invariant holds in the returned state", allok)


QNGUC = "unified_planning.engines.sequential_simulator.UPSequentialSimulator.get_unsatisfied_conditions"
from unified_planning.engines.sequential_simulator import InapplicabilityReasons as _Reasons


class FullCheck(ApplyUnsafe):
    """get_unsatisfied_conditions(full_check=True): the SAME fold discipline as apply_unsafe (so both hand the kernel the same sequence of effects with
    the same bookkeeping), and the verdict: reason is None exactly when every precondition holds in the pre-state, the kernel never reports a conflict
    and every state invariant holds in the state made from the reported values"""
    name = "UPSequentialSimulator.get_unsatisfied_conditions[full_check]"
    doc = ("same fold of the kernel as apply_unsafe; reason None iff preconditions hold in the pre-state, no conflict, state invariants hold in the state "
           "built from the reported values (any numbers of preconditions / effects / invariants; early termination symbolic)")
    allowed_raises = (_Invalid02, _Missing02)
    QN, LOOPS = QNGUC, (2, 3, 4)

    def target(self):
        return _ss.UPSequentialSimulator.get_unsatisfied_conditions

    def configure(self, eng):
        super().configure(eng)
        unit = self
        # the kernel's conflict is remembered (ghost) so that the verdict can be stated
        inner = eng.contracts[_ss.UPSequentialSimulator._evaluate_effect]

        def kernel(e, st, a, k):
            for s2, r in inner(e, st, a, k):
                if isinstance(r, ExcVal):
                    s2.ghost["conflict"] = True
                yield s2, r
        eng.contracts[_ss.UPSequentialSimulator._evaluate_effect] = kernel

        def p_inv(L):
            j = z3.Int(fresh_name("j"))
            pre = unit._pre
            none = L.reason is None
            return [("no reason so far exactly when every precondition handled so far holds in the pre-state",
                     z3.BoolVal(none) == z3.ForAll([j], z3.Implies(z3.And(0 <= j, j < zint(L._i)), INVOK(z3.Select(pre.arr, j), unit._state.z)))
                     if isinstance(L.reason, (type(None),)) or not isinstance(L.reason, SUnion) else
                     L.reason.is_none().z == z3.ForAll([j], z3.Implies(z3.And(0 <= j, j < zint(L._i)), INVOK(z3.Select(pre.arr, j), unit._state.z))))]
        from pyvc.values import Opt as _Opt, Enum as _Enum
        eng.loops[(QNGUC, 0)] = LoopSpec(p_inv, modifies=["c", "evaluated_cond", "unsatisfied_conditions", "reason"],
                                         types={"c": FN02b, "evaluated_cond": Ref("BoolConstant02"), "unsatisfied_conditions": Seq(FN02b), "reason": _Opt(_Enum(_Reasons))})
        # the invariants loop of this function also records the unsatisfied invariants and sets the reason
        def v_inv(L):
            j = z3.Int(fresh_name("j"))
            r0 = L.head_reason if False else None
            allok = z3.ForAll([j], z3.Implies(z3.And(0 <= j, j < zint(L._i)), INVOK(z3.Select(unit._invs.arr, j), unit._new.z)))
            rn = L.reason.is_none().z if isinstance(L.reason, SUnion) else z3.BoolVal(L.reason is None)
            pre_none = unit._reason_before(L)
            return [("the reason is still none exactly when it was none before the loop and every invariant checked so far holds in the new state",
                     rn == z3.And(pre_none, allok))]
        eng.loops[(QNGUC, 4)] = LoopSpec(v_inv, modifies=["si", "unsatisfied_conditions", "reason"],
                                         types={"si": FN02b, "unsatisfied_conditions": Seq(FN02b), "reason": _Opt(_Enum(_Reasons))})

    def _reason_before(self, L):
        r = L._pre.reason
        return r.is_none().z if isinstance(r, SUnion) else z3.BoolVal(r is None)

    def setup(self, eng, st):
        args, kw, ctx = super().setup(eng, st)
        self._pre = B.field_uf(eng, st, self._ga, "preconditions")
        self._early = B.Bool.fresh("early_termination")
        return args, {"early_termination": self._early, "full_check": True}, ctx

    def post(self, eng, ctx, st, out):
        if out[0] != "return":
            if out[0] == "raise" and out[1].cls is _Invalid02:
                st.oblige("UPInvalidActionError only when the action cannot be grounded", self._ga.z == GA02b.null)
            return
        r = eng.deref(st, out[1])
        reason = r[1]
        rn = reason.is_none().z if isinstance(reason, SUnion) else z3.BoolVal(reason is None)
        j = z3.Int(fresh_name("j"))
        pre_ok = z3.ForAll([j], z3.Implies(z3.And(0 <= j, j < self._pre.n), INVOK(z3.Select(self._pre.arr, j), self._state.z)))
        inv_ok = z3.ForAll([j], z3.Implies(z3.And(0 <= j, j < self._invs.n), INVOK(z3.Select(self._invs.arr, j), self._new.z)))
        conflict = bool(st.ghost.get("conflict"))
        made = st.ghost.get("child_made", 0) == 1
        st.oblige("no reason is reported only when the preconditions hold in the pre-state, the kernel reported no conflict and the state invariants hold "
                  "in the state made from the reported values", z3.Implies(rn, z3.And(pre_ok, z3.BoolVal(not conflict and made), inv_ok)))
        st.oblige("a reason is reported whenever one of the three fails", z3.Implies(z3.Not(rn), z3.Or(z3.Not(pre_ok), z3.BoolVal(conflict), z3.And(z3.BoolVal(made), z3.Not(inv_ok)))))


UNITS = [Wrapper("_is_applicable", "exception mapping and verdict of the applicability query"),
         Wrapper("_apply", "None iff not applicable or a documented error; otherwise apply_unsafe's state"),
         Wrapper("_is_goal", "goal test = empty list of unsatisfied goals; the documented error counts as not a goal"),
         ApplicableActionsStep(), ApplyUnsafe(), FullCheck()]
LEVEL = "other"
EXPLANATION = __doc__
TRUSTED = ["apply_unsafe unit: the kernel _evaluate_effect by contract (may raise, report nothing, or report one (fluent, value); may extend assigned_fluent); "
           "actions WITHOUT a simulated effect (the simulated-effect prologue is outside the unit); expand_effect, make_child and StateEvaluator.evaluate opaque",
           "get_unsatisfied_conditions / apply_unsafe / get_unsatisfied_goals are used by contract (return, or raise one of their documented exception classes); "
           "that the full check agrees with apply_unsafe is decided by the bounded layer (both share _evaluate_effect, proved in C01)",
           "_get_applicable_actions: verified on a list of two symbolic grounded instances (the loop body is iteration-independent); labelled bounded"]

"""C02 — simulator applicability queries agree with apply.

B: on the C01 problem family, for every reachable (state, ground action instance):
is_applicable == (apply is not None); get_applicable_actions == {instances apply accepts};
is_goal == (get_unsatisfied_goals == []); each query leaves the state (values, ==, hash) and every
later answer unchanged.  (The kernel exit-state obligation of StateEvaluator.evaluate is proved in C14.)
"""
import warnings
from rtc import seqcheck as SC
from spec import seqsem
from unified_planning.exceptions import UPStateMissingFluentError

UNITS = []
USES_THEORY = False


def bounded(tier, seed):
    from unified_planning.engines.sequential_simulator import UPSequentialSimulator
    nprob, depth = (100, 2) if tier == "quick" else (1200, 3)
    failures, evals, nontrivial, samples = [], 0, set(), []
    for s, pr in SC.problems(seed + 7, nprob):
        try:
            with warnings.catch_warnings():
                warnings.simplefilter("ignore")
                sim = UPSequentialSimulator(pr, error_on_failed_checks=True)
                sim.get_initial_state()
        except Exception:  # noqa
            continue
        states, gas = SC.explore(pr, depth)
        # a query abandoned half-way must not change later answers: partially consumed iterator on a fresh simulator
        with warnings.catch_warnings():
            warnings.simplefilter("ignore")
            try:
                sim2 = UPSequentialSimulator(pr, error_on_failed_checks=True)
                s0 = sim2.get_initial_state()
                it = iter(sim2.get_applicable_actions(s0))
                next(it, None)
                del it
                for st in states[:3]:
                    ups = SC.mk_upstate(pr, st)
                    listed = {(a.name, tuple(p.object().name for p in ps)) for a, ps in sim2.get_applicable_actions(ups)}
                    want = {(a.name, tuple(o.name for o in ps)) for (a, ps) in gas if sim2.apply(ups, a, ps) is not None}
                    evals += 1
                    if listed != want:
                        failures.append({"what": f"seed {s}: after an abandoned get_applicable_actions iteration, a later "
                                                 f"get_applicable_actions differs from the instances apply accepts",
                                         "concrete": SC.describe(pr, st), "observed": {"listed": sorted(listed), "apply": sorted(want)}})
                        break
            except Exception as e:  # noqa
                failures.append({"what": f"seed {s}: a query raised {type(e).__name__}: {e}", "concrete": SC.describe(pr, states[0]), "observed": repr(e)})
        for st in states:
            ups = SC.mk_upstate(pr, st)
            before = SC.read_state(pr, ups)
            h0 = hash(ups)
            with warnings.catch_warnings():
                warnings.simplefilter("ignore")
                try:
                    answers = {}
                    for (a, ps) in gas:
                        evals += 1
                        app1 = sim.is_applicable(ups, a, ps)
                        succ = sim.apply(ups, a, ps)
                        app2 = sim.is_applicable(ups, a, ps)
                        answers[(a.name, tuple(o.name for o in ps))] = succ is not None
                        if succ is not None:
                            nontrivial.add((s, seqsem.freeze(st), a.name, tuple(o.name for o in ps)))
                        if app1 != (succ is not None) or app1 != app2:
                            failures.append({"what": f"seed {s}: is_applicable={app1}/{app2} but apply returned "
                                                     f"{'a state' if succ is not None else 'None'}",
                                             "concrete": SC.describe(pr, st, a, ps), "observed": [app1, succ is not None, app2]})
                            break
                    listed = {(a.name, tuple(p.object().name for p in ps)) for a, ps in sim.get_applicable_actions(ups)}
                    want = {k for k, v in answers.items() if v}
                    if listed != want:
                        failures.append({"what": f"seed {s}: get_applicable_actions differs from the instances apply accepts",
                                         "concrete": SC.describe(pr, st), "observed": {"listed": sorted(listed), "apply": sorted(want)}})
                    g1 = sim.is_goal(ups)
                    try:
                        ug = sim.get_unsatisfied_goals(ups)
                    except UPStateMissingFluentError:
                        ug = ["<a goal reads an undefined fluent: documented UPStateMissingFluentError>"]
                    g2 = sim.is_goal(ups)
                    if g1 != (len(ug) == 0) or g1 != g2:
                        failures.append({"what": f"seed {s}: is_goal={g1}/{g2} but get_unsatisfied_goals={ug}",
                                         "concrete": SC.describe(pr, st), "observed": str(ug)})
                    # repeated answers and untouched state
                    for (a, ps) in gas[:6]:
                        if (sim.apply(ups, a, ps) is not None) != answers[(a.name, tuple(o.name for o in ps))]:
                            failures.append({"what": f"seed {s}: the answer to apply changed after other queries",
                                             "concrete": SC.describe(pr, st, a, ps), "observed": None})
                            break
                    if not SC.same_state(SC.read_state(pr, ups), before) or hash(ups) != h0 or ups != SC.mk_upstate(pr, st):
                        failures.append({"what": f"seed {s}: a query changed the state passed in",
                                         "concrete": SC.describe(pr, st), "observed": str(SC.read_state(pr, ups))})
                except Exception as e:  # noqa
                    failures.append({"what": f"seed {s}: a query raised {type(e).__name__}: {e}",
                                     "concrete": SC.describe(pr, st), "observed": repr(e)})
            if len(samples) < 3 and evals % 53 == 0:
                samples.append({"problem": pr.name, "state": SC.describe(pr, st)["state"], "applicable": sorted(map(str, want))})
            if len(failures) >= 5:
                break
        if len(failures) >= 5:
            break
    return {"evaluations": evals, "distinct_nontrivial": len(nontrivial), "failures": failures,
            "rule": f"{nprob} generated problems, states reachable within depth {depth}, every ground action instance: "
                    f"is_applicable/apply/get_applicable_actions/is_goal/get_unsatisfied_goals cross-checked and repeated; "
                    f"non-trivial = distinct (problem, state, applicable action instance)",
            "samples": samples, "bound": f"{nprob} problems, depth {depth}"}


LEVEL = "other"
EXPLANATION = __doc__

"""C29 — durative-to-processes plan conversions are mutually inverse.

Bounded run-time contract on CompilerResult.plan_forward_conversion / plan_back_conversion of the real
DurativeActionToProcesses compiler: generated durative problems with fixed durations (constant rationals, or the value
of an integer action parameter, optionally plus a constant), effects and conditions at start, end and intermediate
timings (so the compiled "first end" event is before the end), instantaneous actions mixed in; random time-triggered
plans over ground instances (random rational start times, any listing order, several instances of one action, adjacent
instances of the same ground action):
  F  forward plan: one start instance per original instance at the same time; for an action with an end event the event
     instance lies in (start, start + duration];
  B  back(forward(plan)) has exactly the original timed instances (multiset of (start, action, parameters, duration)).
Plans in which two instances of the same ground action overlap in time are not generated: the compiler's supported kind
excludes SELF_OVERLAPPING, so such a plan is not a plan of a supported problem.  A variable-duration action is included to
exercise compiled end events (clause F); its round trip is counted separately and not reported (the property is about
fixed durations).
"""
import random
import warnings
from fractions import Fraction

import unified_planning as up
from unified_planning.shortcuts import *  # noqa
from unified_planning.plans import TimeTriggeredPlan, ActionInstance
from unified_planning.engines.compilers.durative_actions_to_processes import DurativeActionToProcesses
from unified_planning.engines import CompilationKind

UNITS = []


def build(rng):
    T = UserType("T")
    objs = [Object(f"o{i}", T) for i in range(2)]
    pr = Problem("dur")
    pr.add_objects(objs)
    p = Fluent("p", BoolType(), x=T)
    q = Fluent("q", BoolType())
    n = Fluent("n", RealType())
    pr.add_fluent(p, default_initial_value=False)
    pr.add_fluent(q, default_initial_value=False)
    pr.add_fluent(n, default_initial_value=0)
    acts = []
    # d1: constant rational duration, effects at start and end
    d1 = DurativeAction("d1", x=T)
    d1.set_fixed_duration(rng.choice([2, Fraction(7, 2), Fraction(1, 3), 5]))
    d1.add_condition(StartTiming(), Not(p(d1.x)))
    d1.add_effect(StartTiming(), p(d1.x), True)
    d1.add_effect(EndTiming(), p(d1.x), False)
    acts.append(d1)
    # d2: duration depends on an integer parameter
    d2 = DurativeAction("d2", k=IntType(1, 3))
    d2.set_fixed_duration(Plus(d2.k, rng.choice([0, 1, Fraction(1, 2)])) if rng.random() < 0.7 else d2.k)
    d2.add_effect(EndTiming(), q, True)
    if rng.random() < 0.5:
        d2.add_condition(ClosedTimeInterval(StartTiming(), EndTiming()), Not(q))
    acts.append(d2)
    # d3: intermediate effect relative to the end: the compiled first-end event is before the end
    d3 = DurativeAction("d3", x=T)
    dur3 = rng.choice([3, 4, Fraction(9, 2)])
    d3.set_fixed_duration(dur3)
    delay = rng.choice([1, Fraction(1, 2), 2])
    d3.add_effect(EndTiming() - delay, q, False)
    d3.add_increase_effect(EndTiming(), n, 1)
    if rng.random() < 0.5:
        d3.add_effect(StartTiming() + 1, p(d3.x), True)
    acts.append(d3)
    # d4: only start effects (no end event needed?)
    d4 = DurativeAction("d4")
    d4.set_fixed_duration(rng.choice([1, 2]))
    d4.add_effect(StartTiming(), q, True)
    acts.append(d4)
    # d5: variable duration (has a compiled end action); used for clause F and, tagged, for B
    d5 = DurativeAction("d5", x=T)
    d5.set_closed_duration_interval(2, 6)
    d5.add_effect(StartTiming(), p(d5.x), True)
    d5.add_effect(EndTiming() - rng.choice([0, 1]), p(d5.x), False)
    acts.append(d5)
    # d6: fixed duration read from a STATIC fluent of the parameter (its value is known only with the problem at hand)
    dist = Fluent("dist", RealType(), x=T)
    pr.add_fluent(dist, default_initial_value=2)
    pr.set_initial_value(dist(objs[1]), Fraction(7, 2))
    d6 = DurativeAction("d6", x=T)
    d6.set_fixed_duration(dist(d6.x))
    d6.add_effect(EndTiming(), q, True)
    acts.append(d6)
    i1 = InstantaneousAction("i1", x=T)
    i1.add_precondition(Not(q))
    i1.add_effect(p(i1.x), True)
    acts.append(i1)
    for a in acts:
        pr.add_action(a)
    pr.add_goal(q)
    # (self_overlapping problems are outside the compiler's supported kind: never generated)
    return pr, objs


def duration_of(a, params, rng=None):
    if not isinstance(a, up.model.DurativeAction):
        return None
    subs = dict(zip(a.parameters, params))
    v = a.duration.lower.substitute(subs).simplify()
    if not v.is_constant() and getattr(duration_of, "problem", None) is not None:      # a static fluent: its initial value
        from unified_planning.model.walkers import Simplifier
        v = Simplifier(duration_of.problem.environment, duration_of.problem).simplify(v)
    if a.duration.lower != a.duration.upper:
        return None if rng is None else Fraction(rng.randint(4, 12), 2)
    return Fraction(v.constant_value())


def random_plan(pr, objs, rng):
    items = []
    busy = {}   # ground action -> list of (start, end)
    for _ in range(rng.randint(0, 6)):
        a = rng.choice(pr.actions)
        params = tuple((rng.choice(objs) if p.type.is_user_type() else rng.randint(1, 3)) for p in a.parameters)
        ai = ActionInstance(a, params)
        dur = duration_of(a, ai.actual_parameters, rng)
        key = (a.name, tuple(map(str, ai.actual_parameters)))
        mode = rng.random()
        if mode < 0.3 and busy.get(key) and dur is not None:
            start = busy[key][-1][1]                # adjacent: starts exactly when the previous instance ends
        else:
            start = Fraction(rng.randint(0, 40), rng.choice([1, 2, 3, 7]))
        if dur is not None and not pr.self_overlapping:
            # keep instances of one ground action from overlapping (closed intervals may touch at one instant)
            if any(not (start >= e or start + dur <= s) for s, e in busy.get(key, [])):
                continue
        busy.setdefault(key, []).append((start, start + (dur or 0)))
        items.append((start, ai, dur))
    rng.shuffle(items)
    return items


def as_multiset(timed):
    out = {}
    for t, ai, d in timed:
        k = (Fraction(t), ai.action.name, tuple(map(str, ai.actual_parameters)), None if d is None else Fraction(d))
        out[k] = out.get(k, 0) + 1
    return out


def scenario(seed, failures, stats):
    rng = random.Random(seed)
    pr, objs = build(rng)
    duration_of.problem = pr
    label = {"seed": seed}

    def bad(what, observed=None):
        if what not in {f["what"] for f in failures}:
            failures.append({"what": what, "concrete": label, "observed": observed})
    comp = DurativeActionToProcesses()
    if not comp.supports(pr.kind):
        stats["unsupported"] += 1
        return
    try:
        res = comp.compile(pr, CompilationKind.DURATIVE_ACTIONS_TO_PROCESSES)
    except Exception as ex:  # noqa
        bad(f"compile raises {type(ex).__name__} on a supported problem", str(ex)[:300])
        return
    for _ in range(4):
        items = random_plan(pr, objs, rng)
        plan = TimeTriggeredPlan(items)
        stats["n"] += 1
        stats["distinct"].add(len(items))
        try:
            fwd = res.plan_forward_conversion(plan)
        except Exception as ex:  # noqa
            bad(f"plan_forward_conversion raises {type(ex).__name__}", f"{plan}: {ex}"[:400])
            continue
        # F
        starts = {}
        for t, ai, d in fwd.timed_actions:
            if d is not None:
                bad("forward plan contains a durative instance", f"{ai}")
            starts.setdefault((Fraction(t), tuple(map(str, ai.actual_parameters))), []).append(ai.action.name)
        for t, ai, d in items:
            key = (Fraction(t), tuple(map(str, ai.actual_parameters)))
            if key not in starts:
                bad("forward plan has no compiled instance at the start time of an original instance", f"{ai} at {t}; forward: {fwd}"[:400])
        if isinstance(res.map_back_action_instance, object):
            pass
        # every forward instance at time t' that is an end event must lie in (start, start+duration] of a matching original
        for t, ai, _ in fwd.timed_actions:
            origs = [(s, d) for s, oi, d in items if tuple(map(str, oi.actual_parameters)) == tuple(map(str, ai.actual_parameters))]
            if not any(Fraction(t) == s or (d is not None and s < Fraction(t) <= s + d) for s, d in origs):
                bad("a compiled instance of the forward plan lies outside its action's duration", f"{ai} at {t}; originals {origs}"[:400])
        # B
        variable = any(ai.action.name == "d5" for _, ai, _ in items)
        try:
            back = res.plan_back_conversion(fwd)
        except Exception as ex:  # noqa
            if variable:
                stats["variable_mismatch"] = stats.get("variable_mismatch", 0) + 1   # variable durations: outside the property
                continue
            adjacent = any(a1 is not a2 and a1[1].action == a2[1].action and a1[1].actual_parameters == a2[1].actual_parameters for a1 in items for a2 in items)
            bad(f"plan_back_conversion(forward(plan)) raises {type(ex).__name__}" + (" [several instances of one ground action]" if adjacent else ""),
                f"{plan} -> {fwd}: {ex}"[:500])
            continue
        if as_multiset(back.timed_actions) != as_multiset(items) and variable:
            stats["variable_mismatch"] = stats.get("variable_mismatch", 0) + 1   # outside the property (fixed durations only): counted, not reported
        elif as_multiset(back.timed_actions) != as_multiset(items):
            same_ground = any(a1 is not a2 and a1[1].action == a2[1].action and a1[1].actual_parameters == a2[1].actual_parameters for a1 in items for a2 in items)
            overlap = pr.self_overlapping and same_ground
            bad("back(forward(plan)) differs from the plan" + (" [overlapping instances of one ground action, self_overlapping problem]" if overlap else
                                                                (" [several non-overlapping instances of one ground action]" if same_ground else "")),
                f"plan {sorted(as_multiset(items).items(), key=str)} back {sorted(as_multiset(back.timed_actions).items(), key=str)}"[:700])


def bounded(tier, seed):
    n = 100 if tier == "quick" else 2000
    failures, stats = [], {"n": 0, "distinct": set(), "unsupported": 0}
    with warnings.catch_warnings():
        warnings.simplefilter("ignore")
        for i in range(n):
            scenario(seed * 100003 + i, failures, stats)
            if len(failures) >= 10:
                break
    return {"evaluations": stats["n"], "distinct_nontrivial": len(stats["distinct"]), "failures": failures[:10],
            "rule": f"{n} generated durative problems x 4 random time-triggered plans (0-6 instances, shuffled listing order, adjacent and repeated ground actions); "
                    f"problems outside the supported kind skipped: {stats['unsupported']}",
            "samples": [{"unsupported_skipped": stats["unsupported"], "variable_duration_round_trip_mismatches_not_reported": stats.get("variable_mismatch", 0)}], "bound": f"{n} problems x 4 plans"}


def replay_file(data):
    c = data.get("concrete") or {}
    failures, stats = [], {"n": 0, "distinct": set(), "unsupported": 0}
    with warnings.catch_warnings():
        warnings.simplefilter("ignore")
        scenario(c.get("seed", 0), failures, stats)
    return {"reproduced": bool(failures), "concrete": c, "observed": [f["what"] for f in failures][:4]}


LEVEL = "exploration"
EXPLANATION = __doc__
TRUSTED = ["bounded stand-in only: the two conversions are closures over dictionaries of compiled actions; the pairing argument (each end event is matched "
           "with its own start) is a whole-plan invariant that no per-function contract within pyvc's reach expresses",
           "durations are obtained by substituting the parameters into the duration expression and simplifying (C11/C13)"]
USES_THEORY = False

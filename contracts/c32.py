"""C32 — factory engine selection honours every requested requirement.

Functions under contract (real source): Factory._engine_satisfies_conditions (one unit per
OperationMode, all requirement combinations symbolic), Factory._get_engine_class with name=None
(loop invariant over the preference list; holds for *any* registry and preference list: engine
classes are opaque, their class predicates uninterpreted).  The error-report locals of
_get_engine_class (planners_features, x) are abstracted to an opaque value.
B: the real factory with a registry of stub engine classes, every (mode, requirement, kind) combination,
including compiler pipelines (each compiler selected against the kind produced before it).
"""
import itertools
import z3
from pyvc.values import *  # noqa
from pyvc.values import Rec, CList, ExcVal
from pyvc.verify import Unit
from pyvc.engine import LoopSpec
from pyvc import builtins as B

import unified_planning as up
import unified_planning.engines.factory as fac
from unified_planning.engines.engine import OperationMode
from unified_planning.engines.mixins.oneshot_planner import OptimalityGuarantee, OneshotPlannerMixin
from unified_planning.engines.mixins.anytime_planner import AnytimeGuarantee
from unified_planning.engines.mixins.compiler import CompilationKind
from unified_planning.plans import PlanKind
from unified_planning.exceptions import UPNoSuitableEngineAvailableException

USES_THEORY = False
OG, AG, CK, PK, OM = Enum(OptimalityGuarantee), Enum(AnytimeGuarantee), Enum(CompilationKind), Enum(PlanKind), Enum(OperationMode)
KindT = Ref("ProblemKind")
KindT.observers["features"] = ((), Set(Str))
KindT.attrs["features"] = lambda eng, st, k: B.observer_uf(eng, st, k, "features", (), Set(Str), [])
KindT.attrs["version"] = lambda eng, st, k: B.observer_uf(eng, st, k, "version", (), Int, [])
EngineClass = Ref("EngineClass")
for om in OperationMode:
    EngineClass.observers["is_" + om.value] = ((), Bool)
EngineClass.observers.update({
    "satisfies": ((OG,), Bool), "ensures": ((AG,), Bool), "supports_compilation": ((CK,), Bool),
    "supports_plan": ((PK,), Bool), "supports": ((KindT,), Bool),
})
FactoryT = Ref("Factory", fac.Factory, fields={"_engines": Map(Str, EngineClass), "_preference_list": Seq(Str)})

MIXINS = {name: getattr(fac, name) for name in dir(fac) if name.endswith("Mixin")}


def _issubclass(eng, st, args, kw, node):
    c, base = args
    if isinstance(c, SRef) and c.t is EngineClass:
        bases = base if isinstance(base, tuple) else (base,)
        terms = []
        for b in bases:
            terms.append(B.uf_value(eng, st, "subclass_of." + b.__name__, [c.z], [EngineClass.z3sort()], Bool).z)
        yield st, SBool(z3.Or(terms))
        return
    yield st, issubclass(c, base)


MODE_MIXIN = {"oneshot_planner": "OneshotPlannerMixin", "anytime_planner": "AnytimePlannerMixin",
              "plan_validator": "PlanValidatorMixin", "portfolio_selector": "PortfolioSelectorMixin",
              "compiler": "CompilerMixin", "sequential_simulator": "SequentialSimulatorMixin",
              "replanner": "ReplannerMixin", "plan_repairer": "PlanRepairerMixin",
              "action_selector": "ActionSelectorMixin"}


def mode_axioms(eng, st, ec):
    """an engine class whose is_<mode>() is True inherits the mixin defining it (EngineMeta +
    mixins: each is_<mode> returns True only in the corresponding mixin; validated on the real registry)"""
    table = {"oneshot_planner": "OneshotPlannerMixin", "anytime_planner": "AnytimePlannerMixin",
             "plan_validator": "PlanValidatorMixin", "portfolio_selector": "PortfolioSelectorMixin",
             "compiler": "CompilerMixin", "sequential_simulator": "SequentialSimulatorMixin",
             "replanner": "ReplannerMixin", "plan_repairer": "PlanRepairerMixin",
             "action_selector": "ActionSelectorMixin"}
    for m, mix in table.items():
        flag = B.observer_uf(eng, st, ec, "is_" + m, (), Bool, []).z
        sub = B.uf_value(eng, st, "subclass_of." + mix, [ec.z], [EngineClass.z3sort()], Bool).z
        st.assume(z3.Implies(flag, sub))


def requirement_ok(eng, st, ec, mode, kind, og, ck, pk, ag):
    """spec from the property: the class is of the requested mode, supports the kind and every
    *given* requirement"""
    obs = lambda name, ts, a: B.observer_uf(eng, st, ec, name, ts, Bool, a).z
    conj = [obs("is_" + mode.value, (), []), obs("supports", (KindT,), [kind])]
    conj.append(z3.Or(og.is_none().z, obs("satisfies", (OG,), [og.some()])))
    conj.append(z3.Or(ck.is_none().z, obs("supports_compilation", (CK,), [ck.some()])))
    conj.append(z3.Or(pk.is_none().z, obs("supports_plan", (PK,), [pk.some()])))
    conj.append(z3.Or(ag.is_none().z, obs("ensures", (AG,), [ag.some()])))
    return z3.And(conj)


# which optional requirements are meaningful for a mode (the code asserts the others are None)
ALLOWED = {
    OperationMode.ONESHOT_PLANNER: {"og"}, OperationMode.REPLANNER: {"og"},
    OperationMode.PORTFOLIO_SELECTOR: {"og"}, OperationMode.PLAN_VALIDATOR: {"pk"},
    OperationMode.COMPILER: {"ck"}, OperationMode.ANYTIME_PLANNER: {"ag"},
    OperationMode.PLAN_REPAIRER: {"pk", "og"}, OperationMode.SEQUENTIAL_SIMULATOR: set(),
    OperationMode.ACTION_SELECTOR: set(),
}


def fresh_requirements(eng, st, mode):
    og, ck, pk, ag = Opt(OG).fresh("og"), Opt(CK).fresh("ck"), Opt(PK).fresh("pk"), Opt(AG).fresh("ag")
    allowed = ALLOWED[mode]
    for nm, v in (("og", og), ("ck", ck), ("pk", pk), ("ag", ag)):
        if nm not in allowed:
            st.assume(v.is_none().z)
    return og, ck, pk, ag


class Satisfies(Unit):
    prop = "C32"

    def __init__(self, mode):
        self.mode = mode
        self.name = f"_engine_satisfies_conditions[{mode.name}]"
        self.doc = "True only if the class is of the mode, supports the kind and each given requirement; False only if one fails"

    def target(self):
        return fac.Factory._engine_satisfies_conditions

    def configure(self, eng):
        eng.B._handlers[issubclass] = _issubclass

    def setup(self, eng, st):
        f = FactoryT.fresh("self")
        ec = EngineClass.fresh("EngineClass")
        mode_axioms(eng, st, ec)
        kind = KindT.fresh("kind")
        og, ck, pk, ag = fresh_requirements(eng, st, self.mode)
        return [f, ec, self.mode, kind, og, ck, pk, ag], {}, dict(ec=ec, kind=kind, r=(og, ck, pk, ag))

    def post(self, eng, ctx, st, out):
        if out[0] != "return":
            return
        og, ck, pk, ag = ctx["r"]
        ok = requirement_ok(eng, st, ctx["ec"], self.mode, ctx["kind"], og, ck, pk, ag)
        bv = eng.as_bool_value(st, out[1])
        st.oblige("result == (mode && kind supported && every given requirement)", zbool(bv) == ok)


QN_GEC = "unified_planning.engines.factory.Factory._get_engine_class"


class GetEngineClass(Unit):
    prop = "C32"
    allowed_raises = (UPNoSuitableEngineAvailableException,)

    def __init__(self, mode):
        self.mode = mode
        self.name = f"_get_engine_class[{mode.name}]"
        self.doc = "name=None: returns a qualifying class from the registry, raises no-suitable-engine iff none in the preference list qualifies"

    def target(self):
        return fac.Factory._get_engine_class

    def configure(self, eng):
        eng.B._handlers[issubclass] = _issubclass
        mode = self.mode

        # callee contract = the post-condition proved by the Satisfies units
        def sat_contract(eng_, st, args, kw):
            _, ec, m, kind, og, ck, pk, ag = args
            st.ghost.setdefault("asked", [])
            yield st, SBool(requirement_ok(eng_, st, ec, m, kind, og, ck, pk, ag))
        eng.contracts[fac.Factory._engine_satisfies_conditions] = sat_contract
        eng.class_models[up.model.ProblemKind] = lambda e, st, args, kw: iter([(st, KindT.fresh("pk1"))])

        def fmt(eng_, st, args, kw, node=None):
            yield st, Str.fresh("table")
        eng.B._handlers[fac.format_table] = fmt

        def inv(L):
            i = zint(L._i)
            j = z3.Int(fresh_name("j"))
            pref = L._seq
            st = L.st
            g = st.ghost["c32"]
            engines = g["engines"]
            ok_j = requirement_ok(eng, st, EngineClass.wrap(z3.Select(engines.val, z3.Select(pref.arr, j))), mode,
                                  g["kind"], *g["r"])
            return [("no earlier engine of the preference list qualifies",
                     z3.ForAll([j], z3.Implies(z3.And(0 <= j, j < i), z3.Not(ok_j))))]
        eng.loops[(QN_GEC, 0)] = LoopSpec(inv, modifies=["name", "EngineClass", "pk_v"], opaque=["planners_features", "x"],
                                          types={"name": Str})

    def setup(self, eng, st):
        f = FactoryT.fresh("self")
        engines = B.field_uf(eng, st, f, "_engines")
        pref = B.field_uf(eng, st, f, "_preference_list")
        j = z3.Int(fresh_name("j"))
        # registry invariant (Factory.__init__/add_engine): every preferred name is registered
        st.assume(z3.ForAll([j], z3.Implies(z3.And(0 <= j, j < pref.n), z3.Select(engines.has, z3.Select(pref.arr, j)))))
        e = EngineClass.fresh("e")
        for mname, mix in MODE_MIXIN.items():
            flag = B._uf(f"EngineClass.is_{mname}()", EngineClass.z3sort(), z3.BoolSort())
            sub = B._uf("subclass_of." + mix, EngineClass.z3sort(), z3.BoolSort())
            st.assume(z3.ForAll([e.z], z3.Implies(flag(e.z), sub(e.z))))
        kind = KindT.fresh("kind")
        og, ck, pk, ag = fresh_requirements(eng, st, self.mode)
        # optimality guarantee and compilation kind are mutually exclusive (asserted by the function)
        st.ghost["c32"] = dict(engines=engines, kind=kind, r=(og, ck, pk, ag))
        return [f, self.mode, None, kind, og, ck, pk, ag], {}, dict(f=f, kind=kind, r=(og, ck, pk, ag), engines=engines, pref=pref)

    def post(self, eng, ctx, st, out):
        og, ck, pk, ag = ctx["r"]
        engines, pref = ctx["engines"], ctx["pref"]
        j = z3.Int(fresh_name("j"))
        okj = requirement_ok(eng, st, EngineClass.wrap(z3.Select(engines.val, z3.Select(pref.arr, j))), self.mode,
                             ctx["kind"], og, ck, pk, ag)
        some = z3.Exists([j], z3.And(0 <= j, j < pref.n, okj))
        if out[0] == "return":
            r = out[1]
            st.oblige("returned class meets mode, kind and every requested requirement",
                      requirement_ok(eng, st, r, self.mode, ctx["kind"], og, ck, pk, ag))
            st.oblige("returned class is registered under a preferred name",
                      z3.Exists([j], z3.And(0 <= j, j < pref.n, z3.Select(engines.val, z3.Select(pref.arr, j)) == r.z)))
        elif out[1].cls is UPNoSuitableEngineAvailableException:
            st.oblige("no-suitable-engine error only when no preferred engine qualifies", z3.Not(some))


QN_GE = "unified_planning.engines.factory.Factory._get_engine"
EngineClass.observers["resulting_problem_kind"] = ((KindT, CK), KindT)
EngineClass.observers["get_credits"] = ((), Ref("Credits"))


class Pipeline(Unit):
    """pipeline branch of Factory._get_engine for k compilation kinds (k concrete, everything else symbolic)"""
    prop = "C32"
    allowed_raises = (UPNoSuitableEngineAvailableException,)

    def __init__(self, k):
        self.k = k
        self.name = f"_get_engine[pipeline of {k}]"
        self.doc = ("each compiler is selected against the kind produced by the compilers before it "
                    "(kind threaded through resulting_problem_kind); bounded in the pipeline length")
        self.kind = "bounded(len<=3)"

    def target(self):
        return fac.Factory._get_engine

    def configure(self, eng):
        eng.B._handlers[issubclass] = _issubclass

        def gec_contract(eng_, st, args, kw):
            # Factory._get_engine_class as proved by the GetEngineClass units (name=None)
            _self, mode, name, kind = args[:4]
            ck = kw.get("compilation_kind")
            s2 = st.fork()
            yield s2.note("gec:none"), ExcVal(UPNoSuitableEngineAvailableException, (), "_get_engine_class")
            ec = EngineClass.fresh("picked")
            mode_axioms(eng_, st, ec)
            none = lambda T_: SUnion([(z3.BoolVal(True), None), (z3.BoolVal(False), T_.fresh("unused"))])
            st.assume(requirement_ok(eng_, st, ec, mode, kind, none(OG), SUnion([(z3.BoolVal(False), None), (z3.BoolVal(True), ck)]),
                                     none(PK), none(AG)))
            st.ghost["stages"] = st.ghost["stages"] + [(ec, kind, ck)]
            yield st.note("gec:ok"), ec
        eng.contracts[fac.Factory._get_engine_class] = gec_contract
        eng.contracts[fac.Factory._print_credits] = lambda e, st, a, k: iter([(st, None)])
        eng.class_models[fac.CompilersPipeline] = lambda e, st, a, k: iter([(st, st.alloc(Rec(fac.CompilersPipeline, {"compilers": a[0]}), "pipeline"))])
        EngineClass.methods["__call__"] = lambda e, st, selfv, a, k: iter([(st, st.alloc(Rec(object, {"cls": selfv}), "compiler"))])

    def setup(self, eng, st):
        f = FactoryT.fresh("self")
        kind = KindT.fresh("kind")
        cks = [CK.fresh(f"ck{i}") for i in range(self.k)]
        st.ghost["stages"] = []
        kw = dict(problem_kind=kind, compilation_kinds=st.alloc(CList(cks), "list"))
        return [f, OperationMode.COMPILER], kw, dict(kind=kind, cks=cks)

    def post(self, eng, ctx, st, out):
        stages = st.ghost["stages"]
        cur = ctx["kind"]
        for j, (ec, kind_arg, ck) in enumerate(stages):
            st.oblige(f"stage {j}: compiler selected against the kind produced by the stages before it", kind_arg.z == cur.z)
            st.oblige(f"stage {j}: asked for the requested compilation kind", ck.z == ctx["cks"][j].z)
            cur = B.observer_uf(eng, st, ec, "resulting_problem_kind", (KindT, CK), KindT, [cur, ck])
        if out[0] == "return":
            st.oblige("one compiler per requested compilation kind", z3.BoolVal(len(stages) == self.k))

    def replay(self, ctx, model, label):
        return replay_pipeline({"k": self.k})


def replay_pipeline(c):
    """native: three stub compilers, each adding a marker feature; every stage must be asked whether it supports
    exactly the kind produced by the stages before it"""
    import sys
    from unified_planning.environment import Environment
    from unified_planning.engines.engine import Engine
    from unified_planning.model import ProblemKind
    markers = ["NEGATIVE_CONDITIONS", "DISJUNCTIVE_CONDITIONS", "EQUALITIES"]
    cks = [CompilationKind.GROUNDING, CompilationKind.QUANTIFIERS_REMOVING, CompilationKind.NEGATIVE_CONDITIONS_REMOVING]
    asked = []
    m = type(sys)("verif_stubpipe")
    for i in range(3):
        def mk(i=i):
            class Stub(Engine, MIXINS["CompilerMixin"]):
                def __init__(self, *a, **k):
                    Engine.__init__(self)
                    MIXINS["CompilerMixin"].__init__(self)

                @property
                def name(self):
                    return f"stub{i}"

                @staticmethod
                def supported_kind():
                    return ProblemKind(version=3)

                @staticmethod
                def supports(pk):
                    asked.append((i, frozenset(pk.features)))
                    return True

                @staticmethod
                def supports_compilation(ck):
                    return ck == cks[i]

                @staticmethod
                def resulting_problem_kind(pk, ck=None):
                    r = pk.clone()
                    r.set_conditions_kind(markers[i])
                    return r

                def _compile(self, problem, compilation_kind):
                    raise NotImplementedError
            Stub.__name__ = f"Stub{i}"
            return Stub
        setattr(m, f"Stub{i}", mk())
    sys.modules["verif_stubpipe"] = m
    f = Environment().factory
    for i in range(3):
        f.add_engine(f"stub{i}", "verif_stubpipe", f"Stub{i}")
    f.preference_list = [f"stub{i}" for i in range(3)]
    k = c.get("k", 3)
    base = ProblemKind({"ACTION_BASED"}, version=3)
    try:
        f._get_engine(OperationMode.COMPILER, problem_kind=base, compilation_kinds=cks[:k])
    except Exception as e:  # noqa
        return {"reproduced": True, "concrete": c, "observed": f"raised {type(e).__name__}: {e}"}
    want = set(base.features)
    bad = []
    for i in range(k):
        got = [fs for (j, fs) in asked if j == i]
        if frozenset(want) not in got:
            bad.append(f"stage {i} was asked about {sorted(map(sorted, got))}, expected {sorted(want)}")
        want = want | {markers[i]}
    return {"reproduced": bool(bad), "concrete": c, "observed": bad}


def replay_concrete(c):
    """one registered stub engine of the requested mode that fails exactly the listed requirement"""
    import sys
    from unified_planning.environment import Environment
    from unified_planning.engines.engine import Engine
    from unified_planning.model import ProblemKind
    mode = OperationMode[c["mode"]]
    mixin = MIXINS[MODE_MIXIN[mode.value]]
    flags = c["stub"]

    class Stub(Engine, mixin):
        def __init__(self, *a, **k):
            pass

        @property
        def name(self):
            return "stub"

        @staticmethod
        def supported_kind():
            return ProblemKind(version=3)

        @staticmethod
        def supports(pk):
            return flags.get("supports", True)

        @staticmethod
        def satisfies(og):
            return flags.get("satisfies", True)

        @staticmethod
        def ensures(ag):
            return flags.get("ensures", True)

        @staticmethod
        def supports_plan(pk):
            return flags.get("supports_plan", True)

        @staticmethod
        def supports_compilation(ck):
            return flags.get("supports_compilation", True)
    m = type(sys)("verif_stubmod")
    m.Stub = Stub
    sys.modules["verif_stubmod"] = m
    f = Environment().factory
    f.add_engine("stub", "verif_stubmod", "Stub")
    f.preference_list = ["stub"]
    kw = {}
    if c.get("og"):
        kw["optimality_guarantee"] = OptimalityGuarantee[c["og"]]
    if c.get("ag"):
        kw["anytime_guarantee"] = AnytimeGuarantee[c["ag"]]
    if c.get("pk"):
        kw["plan_kind"] = PlanKind[c["pk"]]
    if c.get("ck"):
        kw["compilation_kind"] = CompilationKind[c["ck"]]
    qualifies = all(flags.get(k, True) for k in ("supports",)) and \
        (not c.get("og") or flags.get("satisfies", True)) and (not c.get("ag") or flags.get("ensures", True)) and \
        (not c.get("pk") or flags.get("supports_plan", True)) and (not c.get("ck") or flags.get("supports_compilation", True))
    try:
        r = f._get_engine_class(mode, problem_kind=ProblemKind(version=3), **kw)
        obs = f"returned {r.__name__}"
        bad = not qualifies
    except UPNoSuitableEngineAvailableException:
        obs = "UPNoSuitableEngineAvailableException"
        bad = qualifies
    except Exception as e:  # noqa
        obs = f"{type(e).__name__}: {e}"
        bad = True
    return {"reproduced": bad, "concrete": c, "observed": obs}


def replay_file(data):
    c = data["concrete"]
    return replay_pipeline(c) if "k" in c else replay_concrete(c)


def _gec_replay(self, ctx, model, label):
    ev = lambda z: model.eval(z, model_completion=True)
    og, ck, pk, ag = ctx["r"]
    c = {"mode": self.mode.name, "stub": {}}
    for nm, v, E in (("og", og, OptimalityGuarantee), ("ck", ck, CompilationKind), ("pk", pk, PlanKind), ("ag", ag, AnytimeGuarantee)):
        if not z3.is_true(ev(v.is_none().z)):
            c[nm] = str(ev(v.some().z))
    # the counter-model's failing engine: make the stub miss every *given* requirement in turn
    for miss in ("satisfies", "ensures", "supports_plan", "supports_compilation", "supports"):
        c2 = dict(c, stub={miss: False})
        r = replay_concrete(c2)
        if r["reproduced"]:
            return r
    return replay_concrete(c)


GetEngineClass.replay = _gec_replay

UNITS = [Satisfies(m) for m in OperationMode] + [GetEngineClass(m) for m in OperationMode] + [Pipeline(k) for k in (1, 2, 3)]


# ------------------------------------------------------------------------------- bounded layer
def bounded(tier, seed):
    import random
    import warnings
    from unified_planning.engines.engine import Engine
    from unified_planning.engines.mixins import CompilerMixin
    from unified_planning.engines.results import CompilerResult
    from unified_planning.model import ProblemKind
    from unified_planning.environment import Environment
    rng = random.Random(seed)
    failures, evals, nontrivial, samples = [], 0, set(), []
    # (a) axiom validation on the real registry: is_<mode>() => subclass of the mixin
    env = Environment()
    f = env.factory
    table = {"oneshot_planner": "OneshotPlannerMixin", "anytime_planner": "AnytimePlannerMixin",
             "plan_validator": "PlanValidatorMixin", "portfolio_selector": "PortfolioSelectorMixin",
             "compiler": "CompilerMixin", "sequential_simulator": "SequentialSimulatorMixin",
             "replanner": "ReplannerMixin", "plan_repairer": "PlanRepairerMixin",
             "action_selector": "ActionSelectorMixin"}
    for name in list(f._engines):
        try:
            E = f._engines[name]
        except Exception:  # noqa
            continue
        for m, mix in table.items():
            evals += 1
            if getattr(E, "is_" + m)() and not issubclass(E, MIXINS[mix]):
                failures.append({"what": f"axiom: {name}.is_{m}() but not a {mix}", "observed": name})
    # (b) pipelines over the real compilers: every compiler is selected against the kind produced before it
    cks = list(CompilationKind)
    feats_pool = ["ACTION_BASED", "FLAT_TYPING", "NEGATIVE_CONDITIONS", "DISJUNCTIVE_CONDITIONS", "EQUALITIES",
                  "EXISTENTIAL_CONDITIONS", "UNIVERSAL_CONDITIONS", "CONDITIONAL_EFFECTS", "HIERARCHICAL_TYPING",
                  "INT_FLUENTS", "BOUNDED_TYPES", "STATE_INVARIANTS", "OBJECT_FLUENTS", "TRAJECTORY_CONSTRAINTS",
                  "INCREASE_EFFECTS", "CONTINUOUS_TIME", "ACTIONS_COST"]
    n = 300 if tier == "quick" else 5000
    for it in range(n):
        kind = ProblemKind({"ACTION_BASED"} | {x for x in feats_pool if rng.random() < 0.3}, version=3)
        seq = [rng.choice(cks) for _ in range(rng.randint(1, 3))]
        evals += 1
        with warnings.catch_warnings():
            warnings.simplefilter("ignore")
            try:
                orig = f._get_engine_class
                picked = []

                def spy(*a, **k):
                    E = orig(*a, **k)
                    picked.append((E, a, k))
                    return E
                f._get_engine_class = spy
                try:
                    f._get_engine(OperationMode.COMPILER, problem_kind=kind, compilation_kinds=seq)
                    ok = True
                except UPNoSuitableEngineAvailableException:
                    ok = False
                finally:
                    del f._get_engine_class
            except Exception as e:  # noqa
                failures.append({"what": f"pipeline {seq} on {sorted(kind.features)} raised {type(e).__name__}: {e}",
                                 "concrete": {"kind": sorted(kind.features), "cks": [c.name for c in seq]}, "observed": str(e)})
                continue
        cur = kind
        for (E, a, k), ck in zip(picked, seq):
            nontrivial.add((tuple(sorted(cur.features)), ck))
            if not (E.is_compiler() and E.supports(cur) and E.supports_compilation(ck)):
                failures.append({"what": f"pipeline stage {ck.name}: {E.__name__} does not support the kind produced before it",
                                 "concrete": {"kind": sorted(kind.features), "cks": [c.name for c in seq]},
                                 "observed": sorted(cur.features)})
                break
            cur = E.resulting_problem_kind(cur, ck)
        if len(samples) < 3 and picked:
            samples.append({"kind": sorted(kind.features), "compilation_kinds": [c.name for c in seq],
                            "selected": [p[0].__name__ for p in picked], "complete": ok})
    # (c) single-engine selection on the real registry against an independent reading of the statement, for every operation mode that needs
    #     no problem instance, every requirement, and kinds of every version (legacy version-1 features included)
    from unified_planning.engines.mixins.oneshot_planner import OptimalityGuarantee
    from unified_planning.engines.mixins.anytime_planner import AnytimeGuarantee
    from unified_planning.plans import PlanKind
    legacy = ["NUMERIC_FLUENTS", "CONTINUOUS_NUMBERS", "DISCRETE_NUMBERS", "ACTIONS_COST", "OVERSUBSCRIPTION", "CONTINUOUS_TIME", "DISCRETE_TIME"]
    modes = [(OperationMode.ONESHOT_PLANNER, "og"), (OperationMode.ANYTIME_PLANNER, "ag"), (OperationMode.PLAN_VALIDATOR, "pk"),
             (OperationMode.COMPILER, "ck"), (OperationMode.PORTFOLIO_SELECTOR, "og"), (OperationMode.PLAN_REPAIRER, "pk")]
    m_sel = 60 if tier == "quick" else 900
    combos = []
    for mode, req in modes:
        vals = {"og": list(OptimalityGuarantee), "ag": list(AnytimeGuarantee), "pk": list(PlanKind), "ck": cks}[req]
        for v in [None] + vals:
            combos.append((mode, req, v))
    for it, (mode, req, v) in ((i, c_) for i in range(m_sel) for c_ in combos):
        if (it, mode, req, v) == (it, combos[0][0], combos[0][1], combos[0][2]):
            ver = rng.choice([1, 1, 2, 3, None])
            if ver == 1 or (ver is None and rng.random() < 0.5):
                fs = {"ACTION_BASED"} | {x for x in legacy if rng.random() < 0.45} | {x for x in feats_pool[:9] if rng.random() < 0.2}
            else:
                fs = {"ACTION_BASED"} | {x for x in feats_pool if rng.random() < 0.3}
            try:
                kind = ProblemKind(fs, version=ver)
            except Exception:  # noqa: a feature set that does not exist in that version
                kind = None
        if kind is None:
            continue
        og = v if req == "og" else None
        ag = v if req == "ag" else None
        pk = v if req == "pk" else None
        ck = v if req == "ck" else None

        def qualifies(E):
            try:
                return (getattr(E, "is_" + mode.value)() and E.supports(kind) and (ck is None or E.supports_compilation(ck))
                        and (pk is None or E.supports_plan(pk)) and (og is None or E.satisfies(og)) and (ag is None or E.ensures(ag)))
            except Exception:  # noqa
                return None
        q = [(nm, qualifies(f._engines[nm])) for nm in f.preference_list]
        if any(v is None for _, v in q):
            continue
        want = next((nm for nm, v in q if v), None)
        evals += 1
        desc = {"kind": sorted(kind.features), "version": ver, "mode": mode.value, "optimality": str(og), "anytime": str(ag), "plan_kind": str(pk),
                "compilation_kind": str(ck)}
        with warnings.catch_warnings():
            warnings.simplefilter("ignore")
            try:
                E = f._get_engine_class(mode, None, kind, og, ck, pk, ag)
                got = next((nm for nm in f.preference_list if f._engines[nm] is E), E.__name__)
            except UPNoSuitableEngineAvailableException:
                got = None
            except Exception as e:  # noqa
                failures.append({"what": f"selection [{mode.value}] raised {type(e).__name__}: {e}", "concrete": desc, "observed": str(e)})
                continue
        nontrivial.add((mode.value, want))
        if got != want:
            failures.append({"what": f"selection [{mode.value}]: the factory " + (f"returned {got}" if got else "raised no-suitable-engine") +
                                     "; first registered engine meeting every requirement: " + str(want), "concrete": desc, "observed": got})
    return {"evaluations": evals, "distinct_nontrivial": len(nontrivial), "failures": failures[:6],
            "rule": f"{m_sel} kinds x every (operation mode, requirement value) of 6 modes: single-engine selections (kinds of versions 1/2/3/unspecified, legacy features included) "
                    "against the first-qualifying-engine reading of the statement; random kinds over 17 features x compilation-kind sequences of length 1..3 through the real "
                    "Factory._get_engine; each selected compiler is re-checked against the kind threaded through "
                    "resulting_problem_kind; non-trivial = distinct (intermediate kind, compilation kind) stage",
            "samples": samples, "bound": f"{n} pipelines, length <= 3"}


LEVEL = "other"
EXPLANATION = __doc__
TRUSTED = ["engine classes are opaque: is_<mode>/supports/satisfies/ensures/supports_* are pure class predicates",
           "is_<mode>() implies inheritance from the mixin defining it (validated on the real registry in the bounded layer)",
           "every name in the preference list is registered (Factory constructor / add_engine)",
           "error-report locals of _get_engine_class (planners_features, x) abstracted as opaque"]

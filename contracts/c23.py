"""C23 — the model only stores type-correct values.

P (real source, all inputs; types, expressions and effects opaque, `is_compatible` / `is_constant` uninterpreted):
  * InitialStateMixin.set_initial_value: representation invariant "every stored initial value is a constant whose type
    is compatible with its fluent expression" is preserved; a return stores exactly (fluent_exp -> value_exp); a raise
    leaves `_initial_value` unchanged.
  * FluentsSetMixin.add_fluent (Fluent argument): invariant "every per-fluent default is a constant compatible with the
    fluent's type" preserved given the same invariant on the per-type defaults; a raise leaves `_fluents` and
    `_fluents_defaults` unchanged; a return appends exactly the fluent.
  * Transition.add_effect / add_increase_effect / add_decrease_effect (instantaneous actions, events):
    the effect handed to `_add_effect_instance` has a value compatible with its fluent, `_effects` is untouched before it;
    Transition._add_effect_instance: append after the conflict check, nothing on raise.
  * ActionInstance.__init__: on return every parameter is a constant of a compatible type (loop invariant).
B: random model-building calls with values of every type on every storing operation of the public API
   (add_fluent default, Problem(initial_defaults), set_initial_value, add_effect/increase/decrease on instantaneous and
   durative actions, timed effects, ActionInstance): accepted iff constant (where required) and compatible per the real
   `is_compatible`; a rejected call leaves the model unchanged (structural snapshot); every value in `initial_values`
   is a compatible constant.
"""
import warnings
from fractions import Fraction
import random
import z3
from pyvc.values import *  # noqa
from pyvc.values import Rec, ExcVal, SUnion
from pyvc.verify import Unit
from pyvc.engine import LoopSpec
from pyvc import builtins as B
from . import theory as T

import unified_planning as up
import unified_planning.model.mixins.initial_state as ism
import unified_planning.model.mixins.fluents_set as fsm
import unified_planning.model.transition as trm
import unified_planning.plans.plan as planm
from unified_planning.exceptions import (UPTypeError, UPExpressionDefinitionError, UPProblemDefinitionError, UPUsageError,
                                         UPConflictingEffectsException, UPValueError)

EM = Ref("ExpressionManager")
Env = Ref("Environment23")
TC = Ref("TypeChecker23")
ftype = B._uf("FNode.type", T.FNode.z3sort(), T.Type.z3sort())
compat = B._uf("Type.is_compatible()", T.Type.z3sort(), T.Type.z3sort(), z3.BoolSort())


def fobs(name):
    return B._uf(f"FNode.{name}()", T.FNode.z3sort(), z3.BoolSort())


def fld(t, name, rt):
    return B._uf(f"{t.name}.{name}", t.z3sort(), rt.z3sort())


def common(eng):
    eng.assert_raises = True
    eng.partial_classes.update([ism.InitialStateMixin, fsm.FluentsSetMixin, trm.UntimedEffectMixin, planm.ActionInstance])
    def auto_promote(e, st, selfv, args, kw):
        # one expression per argument (a flat list of non-iterable arguments: the call sites under contract pass 1-3 items)
        out = [T.FNode.fresh("promoted") for _ in args]
        st.ghost.setdefault("promoted", []).extend(out)
        # auto_promote may reject its input (documented: UPTypeError / UPValueError on unsupported python values)
        yield st.fork().note("promote:raise"), ExcVal(UPTypeError, (), "auto_promote")
        yield st.note("promote:ok"), CList(out)
    EM.methods["auto_promote"] = auto_promote
    Env.fields["expression_manager"] = EM
    Env.fields["type_checker"] = TC
    Env.fields["error_used_name"] = Bool
    TC.methods["get_type"] = lambda e, st, selfv, a, k: iter([(st, SRef(T.Type, ftype(a[0].z)))])
    T.FNode.observers["is_constant"] = ((), Bool)
    T.FNode.observers["is_fluent_exp"] = ((), Bool)
    T.FNode.observers["is_dot"] = ((), Bool)
    T.Timing.observers["is_from_end"] = ((), Bool)
    T.FNode.attrs["args"] = T.fnode_args
    T.FNode.attrs["environment"] = lambda e, st, x: B.uf_value(e, st, "FNode._env23", [x.z], [T.FNode.z3sort()], Env)


def obs(name, x):
    return fobs(name)(x.z)


class SetInitialValue(Unit):
    prop = "C23"
    name = "InitialStateMixin.set_initial_value"
    doc = "stored initial values stay compatible constants; return stores exactly one pair; raise changes nothing"
    allowed_raises = (UPTypeError, UPExpressionDefinitionError, AssertionError)

    def target(self):
        return ism.InitialStateMixin.set_initial_value

    def configure(self, eng):
        common(eng)

    def inv(self, m):
        k = T.FNode.fresh("k")
        v = z3.Select(m.val, k.z)
        return z3.ForAll([k.z], z3.Implies(z3.Select(m.has, k.z), z3.And(
            obs("is_constant", SRef(T.FNode, v)), compat(ftype(k.z), ftype(v)))))

    def setup(self, eng, st):
        m0 = eng.fresh_of(st, Map(T.FNode, T.FNode), "initial_value")
        st.assume(self.inv(m0))
        m = st.alloc(m0, "dict")
        env = Env.fresh("env")
        selfv = st.alloc(Rec(ism.InitialStateMixin, {"_env": env, "_initial_value": m}), "self")
        fl, val = T.FNode.fresh("fluent"), T.FNode.fresh("value")
        return [selfv, fl, val], {}, dict(m=m, m0=m0)

    def post(self, eng, ctx, st, out):
        m1, m0 = st.load(ctx["m"]), ctx["m0"]
        if out[0] == "raise":
            st.oblige("rejected call leaves _initial_value unchanged", m1.same(m0))
            return
        pr = st.ghost.get("promoted", [])
        st.oblige("exactly one promotion of (fluent, value)", z3.BoolVal(len(pr) == 2))
        if len(pr) != 2:
            return
        f, v = pr
        st.oblige("invariant kept: stored values are compatible constants", self.inv(m1))
        st.oblige("stores exactly fluent_exp -> value_exp", m1.same(m0.store(f, v)))
        st.oblige("stored value is a constant", obs("is_constant", v))
        st.oblige("stored value is compatible with the fluent", compat(ftype(f.z), ftype(v.z)))

    def replay(self, ctx, model, label):
        return replay_concrete({"case": "set_initial_value"})


FluentT = Ref("Fluent23", fields={"name": Str, "type": T.Type, "environment": Env})
ParamT = Ref("Parameter23", fields={"type": T.Type})
FluentT.fields["signature"] = Seq(ParamT)


class AddFluent(Unit):
    prop = "C23"
    name = "FluentsSetMixin.add_fluent"
    doc = "per-fluent defaults stay compatible constants; raise leaves _fluents/_fluents_defaults unchanged; return appends exactly the fluent"
    allowed_raises = (UPTypeError, UPProblemDefinitionError, AssertionError)

    def target(self):
        return fsm.FluentsSetMixin.add_fluent

    def configure(self, eng):
        common(eng)
        FluentT.pycls = up.model.fluent.Fluent

    def inv_fd(self, m):
        k = FluentT.fresh("k")
        v = z3.Select(m.val, k.z)
        ft = fld(FluentT, "type", T.Type)(k.z)
        return z3.ForAll([k.z], z3.Implies(z3.Select(m.has, k.z), z3.And(
            obs("is_constant", SRef(T.FNode, v)), compat(ft, ftype(v)))))

    def inv_td(self, m):
        k = T.Type.fresh("k")
        v = z3.Select(m.val, k.z)
        return z3.ForAll([k.z], z3.Implies(z3.Select(m.has, k.z), z3.And(
            obs("is_constant", SRef(T.FNode, v)), compat(k.z, ftype(v)))))

    def setup(self, eng, st):
        fd0 = eng.fresh_of(st, Map(FluentT, T.FNode), "fluents_defaults")
        td0 = eng.fresh_of(st, Map(T.Type, T.FNode), "initial_defaults")
        fl0 = eng.fresh_of(st, Seq(FluentT), "fluents")
        st.assume(self.inv_fd(fd0), self.inv_td(td0))
        fd, td, fl = st.alloc(fd0, "dict"), st.alloc(td0, "dict"), st.alloc(fl0, "list")
        env = Env.fresh("env")
        has_name = Ref("Callable_has_name")
        has_name.methods["__call__"] = lambda e, s, f, a, k: iter([(s, Bool.fresh("has_name"))])
        add_ut = Ref("Callable_add_user_type")
        add_ut.methods["__call__"] = lambda e, s, f, a, k: iter([(s, None)])
        selfv = st.alloc(Rec(fsm.FluentsSetMixin, {"_env": env, "_fluents": fl, "_fluents_defaults": fd, "_initial_defaults": td,
                                                   "_has_name_method": has_name.fresh("hn"), "_add_user_type_method": add_ut.fresh("aut")}), "self")
        f = FluentT.fresh("fluent")
        dv = Opt(T.FNode).fresh("default_initial_value")
        return [selfv, f, None], {"default_initial_value": dv}, dict(fd=fd, fd0=fd0, fl=fl, fl0=fl0, td=td, td0=td0, f=f)

    def post(self, eng, ctx, st, out):
        fd1, fl1, td1 = st.load(ctx["fd"]), st.load(ctx["fl"]), st.load(ctx["td"])
        fd0, fl0, f = ctx["fd0"], ctx["fl0"], ctx["f"]
        st.oblige("per-type defaults untouched", td1.same(ctx["td0"]))
        if out[0] == "raise":
            st.oblige("rejected call leaves _fluents unchanged", fl1.same(fl0))
            st.oblige("rejected call leaves _fluents_defaults unchanged", fd1.same(fd0))
            return
        st.oblige("invariant kept: per-fluent defaults are compatible constants", self.inv_fd(fd1))
        st.oblige("appends exactly the fluent", fl1.same(fl0.append(f)))
        k = FluentT.fresh("k")
        st.oblige("defaults of other fluents untouched", z3.ForAll([k.z], z3.Implies(k.z != f.z, z3.And(
            z3.Select(fd1.has, k.z) == z3.Select(fd0.has, k.z), z3.Select(fd1.val, k.z) == z3.Select(fd0.val, k.z)))))

    def replay(self, ctx, model, label):
        return replay_concrete({"case": "add_fluent"})


class AddEffect(Unit):
    prop = "C23"
    allowed_raises = (UPTypeError, UPUsageError, UPConflictingEffectsException, AssertionError, UPProblemDefinitionError)

    def __init__(self, meth, cls=None, timed=False, envfield="_environment"):
        self.meth, self.cls, self.timed, self.envfield = meth, cls or trm.UntimedEffectMixin, timed, envfield
        self.name = f"{self.cls.__name__}.{meth}"
        self.doc = "the effect passed on has a value compatible with its fluent; nothing stored before the checks; raise leaves _effects unchanged"

    def target(self):
        return getattr(self.cls, self.meth)

    def configure(self, eng):
        common(eng)

        def mk_effect(e, st, args, kw):
            eff = T.Effect.fresh("effect")
            st.assume(fld(T.Effect, "_fluent", T.FNode)(eff.z) == args[0].z, fld(T.Effect, "_value", T.FNode)(eff.z) == args[1].z)
            st.ghost["made"] = st.ghost.get("made", []) + [(eff, args[0], args[1])]
            yield st, eff
        eng.class_models[up.model.effect.Effect] = mk_effect
        timed = self.timed

        def add_inst(e, st, args, kw):
            selfv = args[0]
            st.ghost["handed"] = st.ghost.get("handed", []) + [args[2] if timed else args[1]]
            yield st.fork().note("conflict"), ExcVal(UPConflictingEffectsException, (), "_add_effect_instance")
            yield st, None
        eng.contracts[self.cls._add_effect_instance] = add_inst
        eng.partial_classes.add(self.cls)

    def setup(self, eng, st):
        if self.timed:
            ef0 = eng.fresh_of(st, Map(T.Timing, T.Effect), "effects")     # abstraction of Dict[Timing, List[Effect]]: only its identity/content frame matters here
            ef = st.alloc(ef0, "dict")
        else:
            ef0 = eng.fresh_of(st, Seq(T.Effect), "effects")
            ef = st.alloc(ef0, "list")
        env = Env.fresh("env")
        selfv = st.alloc(Rec(self.cls, {self.envfield: env, "_effects" if self.cls is not up.model.problem.Problem else "_timed_effects": ef}), "self")
        fl, val, cond = T.FNode.fresh("fluent"), T.FNode.fresh("value"), T.FNode.fresh("condition")
        timing = T.Timing.fresh("timing")
        args = [selfv] + ([timing] if self.timed else []) + [fl, val, cond]
        return args, {}, dict(ef=ef, ef0=ef0, timing=timing)

    def post(self, eng, ctx, st, out):
        ef1 = st.load(ctx["ef"])
        st.oblige("_effects is only changed by _add_effect_instance", ef1.same(ctx["ef0"]))
        if out[0] == "raise":
            return
        handed, made = st.ghost.get("handed", []), st.ghost.get("made", [])
        st.oblige("exactly one effect built and handed to _add_effect_instance", z3.BoolVal(len(handed) == 1 and len(made) == 1))
        if len(handed) != 1 or len(made) != 1:
            return
        eff, f, v = made[0]
        st.oblige("the handed effect is the built one", handed[0].z == eff.z)
        st.oblige("effect value is compatible with the fluent", compat(ftype(f.z), ftype(v.z)))
        st.oblige("effect target is a fluent expression or a Dot", z3.Or(obs("is_fluent_exp", f), obs("is_dot", f)))
        if self.cls is up.model.problem.Problem and self.meth == "add_timed_effect":
            st.oblige("a timed effect is never relative to the end", z3.Not(B._uf("Timing.is_from_end()", T.Timing.z3sort(), z3.BoolSort())(ctx["timing"].z)))

    def replay(self, ctx, model, label):
        return replay_concrete({"case": self.meth})


class AddEffectInstance(Unit):
    prop = "C23"
    name = "UntimedEffectMixin._add_effect_instance"
    doc = "appends exactly the effect after the conflict check; a raise leaves _effects unchanged"
    allowed_raises = (UPConflictingEffectsException, AssertionError)

    def target(self):
        return trm.UntimedEffectMixin._add_effect_instance

    def configure(self, eng):
        common(eng)
        T.Effect.attrs["environment"] = lambda e, st, x: B.uf_value(e, st, "Effect._env23", [x.z], [T.Effect.z3sort()], Env)

        def cce(e, st, args, kw):
            yield st.fork().note("conflict"), ExcVal(UPConflictingEffectsException, (), "check_conflicting_effects")
            yield st, None
        eng.contracts[up.model.effect.check_conflicting_effects] = cce

    def setup(self, eng, st):
        ef0 = eng.fresh_of(st, Seq(T.Effect), "effects")
        ef = st.alloc(ef0, "list")
        A = st.alloc(eng.fresh_of(st, Map(T.FNode, T.FNode), "A"), "dict")
        D = st.alloc(eng.fresh_of(st, Set(T.FNode), "D"), "set")
        selfv = st.alloc(Rec(trm.UntimedEffectMixin, {"_environment": Env.fresh("env"), "_effects": ef, "_simulated_effect": None,
                                              "_fluents_assigned": A, "_fluents_inc_dec": D}), "self")
        e = T.Effect.fresh("effect")
        return [selfv, e], {}, dict(ef=ef, ef0=ef0, e=e)

    def post(self, eng, ctx, st, out):
        ef1 = st.load(ctx["ef"])
        if out[0] == "raise":
            st.oblige("rejected effect leaves _effects unchanged", ef1.same(ctx["ef0"]))
        else:
            st.oblige("appends exactly the effect", ef1.same(ctx["ef0"].append(ctx["e"])))


ActionT = Ref("Action23", fields={"environment": Env, "parameters": Seq(ParamT)})


class ActionInstanceInit(Unit):
    prop = "C23"
    name = "ActionInstance.__init__"
    doc = "on return every actual parameter is a constant whose type is compatible with the formal parameter"
    allowed_raises = (UPTypeError, AssertionError)

    def target(self):
        return planm.ActionInstance.__init__

    def configure(self, eng):
        common(eng)

        def auto_promote_seq(e, st, selfv, args, kw):
            out = e.fresh_of(st, Seq(T.FNode), "promoted_params")
            st.ghost["params"] = out
            yield st.fork().note("promote:raise"), ExcVal(UPTypeError, (), "auto_promote")
            yield st, out
        EM.methods["auto_promote"] = auto_promote_seq

        def inv(L):
            i = zint(L._i)
            ps, vs = L._seq.parts
            j = z3.Int(fresh_name("j"))
            return z3.ForAll([j], z3.Implies(z3.And(0 <= j, j < i), z3.And(
                compat(fld(ParamT, "type", T.Type)(z3.Select(ps.arr, j)), ftype(z3.Select(vs.arr, j))),
                is_const_obs(z3.Select(vs.arr, j)))))
        eng.loops[("unified_planning.plans.plan.ActionInstance.__init__", 0)] = LoopSpec(inv)

    def setup(self, eng, st):
        selfv = st.alloc(Rec(planm.ActionInstance, {}), "self")
        act = ActionT.fresh("action")
        params = eng.fresh_of(st, Seq(T.FNode), "params")
        return [selfv, act, params, None, None], {}, dict(selfv=selfv, act=act)

    def post(self, eng, ctx, st, out):
        if out[0] == "raise":
            return
        vs = st.ghost.get("params")
        st.oblige("parameters were promoted once", z3.BoolVal(vs is not None))
        if vs is None:
            return
        ps = B.field_uf(eng, st, ctx["act"], "parameters")
        j = z3.Int(fresh_name("j"))
        st.oblige("as many actual as formal parameters", vs.n == ps.n)
        st.oblige("every stored parameter is a compatible constant", z3.ForAll([j], z3.Implies(z3.And(0 <= j, j < vs.n), z3.And(
            compat(fld(ParamT, "type", T.Type)(z3.Select(ps.arr, j)), ftype(z3.Select(vs.arr, j))),
            is_const_obs(z3.Select(vs.arr, j))))))


def is_const_obs(z):
    return fobs("is_constant")(z)


# ------------------------------------------------------------------------------------------------ the compatibility relation itself
# Every store site above takes `is_compatible` from the library (uninterpreted there).  Here the real is_compatible_type is verified against
# the meaning the property gives it: equal types; a user type and one of its descendants; int into int / real, real into real with
# intersecting intervals (None = unbounded) -- for a constant value (degenerate interval [v, v]) that is "v lies within the bounds".
class CompatibleType(Unit):
    prop = "C23"
    name = "is_compatible_type"
    doc = "numeric: same numeric family (int into real allowed) and intersecting intervals, a missing bound = unbounded; a constant is compatible iff it lies within the bounds"

    def target(self):
        import unified_planning.model.types as _ty
        return _ty.is_compatible_type

    def configure(self, eng):
        from contracts import c15 as _c15
        self._c15 = _c15
        eng.axioms += _c15.type_axioms()

    def setup(self, eng, st):
        c = self._c15
        tl, tr = c.Type15.fresh("t_left"), c.Type15.fresh("t_right")
        st.assume(tl.z != c.Type15.null, tr.z != c.Type15.null)
        return [tl, tr], {}, dict(tl=tl, tr=tr)

    def post(self, eng, ctx, st, out):
        if out[0] != "return":
            return
        c = self._c15
        l, r = ctx["tl"].z, ctx["tr"].z
        res = zbool(eng.as_bool_value(st, out[1]))
        numeric_pair = z3.Or(z3.And(c.is_int(l), c.is_int(r)), z3.And(c.is_real(l), c.is_real(r)), z3.And(c.is_real(l), c.is_int(r)))
        disjoint = z3.Or(z3.And(z3.Not(c.ubnone(r)), z3.Not(c.lbnone(l)), c.ubR(r) < c.lbR(l)),
                         z3.And(z3.Not(c.lbnone(r)), z3.Not(c.ubnone(l)), c.lbR(r) > c.ubR(l)))
        user_pair = z3.And(c.is_user(l), c.is_user(r))
        st.oblige("numeric types (l != r): compatible iff the intervals intersect (a missing bound is unbounded)",
                  z3.Implies(z3.And(l != r, numeric_pair), res == z3.Not(disjoint)))
        st.oblige("a constant value v (type [v, v]) is compatible with a numeric type iff lower <= v <= upper",
                  z3.Implies(z3.And(l != r, numeric_pair, z3.Not(c.lbnone(r)), z3.Not(c.ubnone(r)), c.lbR(r) == c.ubR(r)),
                             res == z3.And(z3.Or(c.lbnone(l), c.lbR(l) <= c.lbR(r)), z3.Or(c.ubnone(l), c.lbR(r) <= c.ubR(l)))))
        st.oblige("different families are never compatible (Boolean / time with anything else, real into int, numeric with user types)",
                  z3.Implies(z3.And(l != r, z3.Not(numeric_pair), z3.Not(user_pair)), z3.Not(res)))
        st.oblige("equal types are compatible", z3.Implies(l == r, res))


import unified_planning.model.mixins.timed_conds_effs as tce
UNITS = [CompatibleType(), SetInitialValue(), AddFluent(), AddEffect("add_effect"), AddEffect("add_increase_effect"), AddEffect("add_decrease_effect"),
         AddEffectInstance(), ActionInstanceInit(),
         AddEffect("add_effect", tce.TimedCondsEffs, timed=True), AddEffect("add_increase_effect", tce.TimedCondsEffs, timed=True),
         AddEffect("add_decrease_effect", tce.TimedCondsEffs, timed=True),
         AddEffect("add_timed_effect", up.model.problem.Problem, timed=True, envfield="_env"),
         AddEffect("add_increase_effect", up.model.problem.Problem, timed=True, envfield="_env"),
         AddEffect("add_decrease_effect", up.model.problem.Problem, timed=True, envfield="_env")]


# ----------------------------------------------------------------------------------------------- bounded layer
def _snapshot(pr):
    acts = []
    for a in pr.actions:
        if hasattr(a, "effects") and not isinstance(getattr(a, "effects"), dict):
            effs = [repr(e) for e in a.effects]
        else:
            effs = sorted((repr(t), [repr(e) for e in es]) for t, es in a.effects.items())
        acts.append((a.name, effs, sorted(map(repr, getattr(a, "_fluents_assigned", {}).items())) if not isinstance(getattr(a, "_fluents_assigned", {}), dict) or True else None,
                     repr(sorted(map(repr, _flat(getattr(a, "_fluents_inc_dec", set())))))))
    return (
        [repr(f) for f in pr.fluents], sorted((repr(k), repr(v)) for k, v in pr.fluents_defaults.items()),
        sorted((repr(k), repr(v)) for k, v in pr.initial_defaults.items()),
        sorted((repr(k), repr(v)) for k, v in pr.explicit_initial_values.items()),
        sorted((repr(t), [repr(e) for e in es]) for t, es in pr.timed_effects.items()),
        acts, sorted(map(repr, pr.user_types)), [repr(o) for o in pr.all_objects],
    )


def _flat(x):
    if isinstance(x, dict):
        out = []
        for k, v in x.items():
            out.append((repr(k), sorted(map(repr, v)) if isinstance(v, (set, list, dict)) else repr(v)))
        return out
    return list(x)


def compat_oracle(t, vt):
    """independent reading of `a value of type vt may be stored where type t is declared` (not the library's is_compatible_type): same type;
    a user type and one of its descendants; int into int / real and real into real with intersecting intervals (None = unbounded)"""
    if t is vt:
        return True
    if t.is_user_type() and vt.is_user_type():
        x = vt
        while x is not None:
            if x is t:
                return True
            x = x.father
        return False
    num = (t.is_int_type() and vt.is_int_type()) or (t.is_real_type() and (vt.is_real_type() or vt.is_int_type()))
    if not num:
        return False
    if vt.upper_bound is not None and t.lower_bound is not None and vt.upper_bound < t.lower_bound:
        return False
    if vt.lower_bound is not None and t.upper_bound is not None and vt.lower_bound > t.upper_bound:
        return False
    return True


def bounded(tier, seed):
    from unified_planning.shortcuts import (Problem, Fluent, BoolType, IntType, RealType, UserType, Object, InstantaneousAction, DurativeAction,
                                            Int, Real, TRUE, FALSE, Plus, StartTiming, EndTiming, GlobalStartTiming, Not, ObjectExp, Equals)
    from unified_planning.plans import ActionInstance
    from unified_planning.model.types import is_compatible_type
    rng = random.Random(seed * 7919 + 23)
    n = 150 if tier == "quick" else 2500
    failures, evals, nontrivial = [], 0, set()
    accepted = rejected = 0

    def bad(what, detail, observed=None):
        if len(failures) < 8:
            failures.append({"what": what, "concrete": detail, "observed": observed})
    with warnings.catch_warnings():
        warnings.simplefilter("ignore")
        for it in range(n):
            Loc = UserType("Loc")
            Sub = UserType("Sub", Loc)
            Oth = UserType("Oth")
            types = [BoolType(), IntType(0, 5), IntType(), IntType(None, 3), RealType(Fraction(-1, 2), Fraction(5, 2)), RealType(), Loc, Sub, Oth]
            objs = [Object("l0", Loc), Object("s0", Sub), Object("t0", Oth)]
            # values of every type, some non-constant
            bf, nf, lf = Fluent("bf", BoolType()), Fluent("nf", IntType(0, 5)), Fluent("lf", Loc)
            consts = [True, False, 0, 3, 5, 6, -1, 7, Fraction(1, 2), Fraction(5, 2), Fraction(4, 2), Fraction(7, 2), 2.5, 10 ** 20] + objs
            nonconsts = [bf(), nf(), lf(), Plus(nf(), 1), Not(bf()), Equals(lf(), objs[0])]

            def pick_value(allow_nonconst=True):
                if allow_nonconst and rng.random() < 0.25:
                    return rng.choice(nonconsts), False
                return rng.choice(consts), True
            # ---- Problem(initial_defaults=...)
            tdefaults = {}

            def compatible_const(t):
                if t.is_bool_type():
                    return rng.choice([True, False])
                if t.is_int_type() or t.is_real_type():
                    lo = t.lower_bound if t.lower_bound is not None else (t.upper_bound - 3 if t.upper_bound is not None else 0)
                    return lo if t.is_int_type() else Fraction(lo)
                return rng.choice([o for o in objs if compat_oracle(t, o.type)])
            for t in rng.sample(types, rng.randint(0, 4)):
                # mostly a value the type accepts (so that the default is stored and later inherited), sometimes any value
                tdefaults[t] = compatible_const(t) if rng.random() < 0.7 else pick_value()[0]
            em = up.environment.get_environment().expression_manager
            exp_ok = True
            for t, v in tdefaults.items():
                try:
                    (ve,) = em.auto_promote(v)
                except Exception:  # noqa
                    exp_ok = False
                    break
                if not (ve.is_constant() and compat_oracle(t, ve.type)):
                    exp_ok = False
            evals += 1
            try:
                pr = Problem("p", initial_defaults=tdefaults)
                ok = True
            except Exception as ex:  # noqa
                ok = False
            if ok != exp_ok:
                bad(f"Problem(initial_defaults) {'accepted an incompatible or non-constant' if ok else 'rejected a compatible constant'} per-type default",
                    {"initial_defaults": {repr(k): repr(v) for k, v in tdefaults.items()}})
            if not ok:
                pr = Problem("p")
            pr.add_objects(objs)
            for f in (bf, nf, lf):
                pr.add_fluent(f)
            # ---- add_fluent with default
            for k in range(rng.randint(2, 5)):
                t = rng.choice(types)
                v, isc = pick_value()
                use_default = rng.random() < 0.7
                f = Fluent(f"f{k}", t, **({"a": Loc} if rng.random() < 0.3 else {}))
                snap = _snapshot(pr)
                evals += 1
                nontrivial.add(("add_fluent", repr(t), repr(v)))
                exp = True
                if use_default:
                    try:
                        (ve,) = em.auto_promote(v)
                        exp = ve.is_constant() and compat_oracle(t, ve.type)
                    except Exception:  # noqa
                        exp = False
                try:
                    if use_default:
                        pr.add_fluent(f, default_initial_value=v)
                    else:
                        pr.add_fluent(f)
                    ok = True
                except Exception as ex:  # noqa
                    ok = False
                if ok != exp:
                    bad(f"add_fluent {'accepted an incompatible or non-constant' if ok else 'rejected a compatible constant'} default_initial_value",
                        {"fluent_type": repr(t), "default": repr(v)})
                if not ok and _snapshot(pr) != snap:
                    bad("rejected add_fluent changed the model", {"fluent_type": repr(t), "default": repr(v)})
                accepted += ok
                rejected += not ok
            # ---- fluents without an explicit default: the stored default must be a compatible constant (per-type default of
            #      exactly that type or nothing)
            for k_, t in enumerate(types):
                f = Fluent(f"nd{k_}", t)
                evals += 1
                try:
                    pr.add_fluent(f)
                except Exception as ex:  # noqa
                    bad("add_fluent without default rejected", {"fluent_type": repr(t), "error": repr(ex)})
                    continue
                dv = pr.fluents_defaults.get(f)
                if dv is not None and not (dv.is_constant() and compat_oracle(t, dv.type)):
                    bad("add_fluent stored an inherited default that is not compatible with the fluent's type",
                        {"fluent_type": repr(t), "stored_default": repr(dv), "initial_defaults": {repr(k2): repr(v2) for k2, v2 in pr.initial_defaults.items()}})
            # ---- set_initial_value
            for k in range(rng.randint(2, 6)):
                f = rng.choice(pr.fluents)
                args = [rng.choice([o for o in objs]) for _ in f.signature]
                try:
                    fe = f(*args)
                except Exception:  # noqa
                    continue
                v, _ = pick_value()
                snap = _snapshot(pr)
                evals += 1
                nontrivial.add(("siv", repr(f.type), repr(v)))
                try:
                    (ve,) = em.auto_promote(v)
                    exp = ve.is_constant() and compat_oracle(f.type, ve.type)
                except Exception:  # noqa
                    exp = False
                try:
                    pr.set_initial_value(fe, v)
                    ok = True
                except Exception:  # noqa
                    ok = False
                if ok != exp:
                    bad(f"set_initial_value {'accepted an incompatible or non-constant' if ok else 'rejected a compatible constant'} value",
                        {"fluent": repr(f), "value": repr(v)})
                if not ok and _snapshot(pr) != snap:
                    bad("rejected set_initial_value changed the model", {"fluent": repr(f), "value": repr(v)})
            # ---- every stored initial value is a compatible constant
            try:
                ivs = pr.initial_values
            except Exception:  # noqa  (some fluent without a value: documented)
                ivs = dict(pr.explicit_initial_values)
                for f, v in pr.fluents_defaults.items():
                    ivs[("default", f)] = v
            for k_, v_ in ivs.items():
                ft = k_.type if not isinstance(k_, tuple) else k_[1].type
                if not v_.is_constant() or not compat_oracle(ft, v_.type):
                    bad("stored initial value is not a compatible constant", {"fluent": repr(k_), "value": repr(v_)})
            # ---- effects
            a = InstantaneousAction("a", x=Loc)
            d = DurativeAction("d", x=Loc)
            d.set_fixed_duration(2)
            pr.add_action(a)
            pr.add_action(d)
            for k in range(rng.randint(3, 8)):
                f = rng.choice(pr.fluents)
                args = [rng.choice(objs + [a.parameter("x")]) for _ in f.signature]
                where = rng.choice(["inst", "dur", "timed"])
                if where != "inst":
                    args = [x if isinstance(x, Object) else objs[0] for x in args] if where == "timed" else [x if isinstance(x, Object) else d.parameter("x") for x in args]
                try:
                    fe = f(*args)
                except Exception:  # noqa
                    continue
                v, _ = pick_value()
                kind = rng.choice(["assign", "assign", "inc", "dec"])
                snap = _snapshot(pr)
                evals += 1
                nontrivial.add((where, kind, repr(f.type), repr(v)))
                try:
                    (ve,) = em.auto_promote(v)
                    compatible = compat_oracle(f.type, ve.type)
                except Exception:  # noqa
                    compatible = False
                try:
                    if where == "inst":
                        {"assign": a.add_effect, "inc": a.add_increase_effect, "dec": a.add_decrease_effect}[kind](fe, v)
                    elif where == "dur":
                        tm = rng.choice([StartTiming(), EndTiming(), StartTiming(1)])
                        {"assign": d.add_effect, "inc": d.add_increase_effect, "dec": d.add_decrease_effect}[kind](tm, fe, v)
                    else:
                        tm = GlobalStartTiming(rng.choice([1, 2, 5]))
                        {"assign": pr.add_timed_effect, "inc": pr.add_increase_effect, "dec": pr.add_decrease_effect}[kind](tm, fe, v)
                    ok = True
                except Exception as ex:  # noqa
                    ok = False
                if ok and not compatible:
                    bad(f"{where} {kind} effect accepted a value of an incompatible type", {"fluent": repr(fe), "value": repr(v)})
                if not ok and _snapshot(pr) != snap:
                    bad(f"rejected {where} {kind} effect changed the model", {"fluent": repr(fe), "value": repr(v)})
            for act in (a, d):
                effs = act.effects if not isinstance(act.effects, dict) else [e for es in act.effects.values() for e in es]
                for e in effs:
                    if not compat_oracle(e.fluent.type, e.value.type):
                        bad("stored effect value incompatible with its fluent", {"effect": repr(e)})
            for es in pr.timed_effects.values():
                for e in es:
                    if not compat_oracle(e.fluent.type, e.value.type):
                        bad("stored timed effect value incompatible with its fluent", {"effect": repr(e)})
            # ---- ActionInstance
            b = InstantaneousAction("b", x=Loc, n=IntType(0, 5), r=RealType(), s=Sub)
            for k in range(4):
                vals = [pick_value()[0] for _ in range(4)]
                evals += 1
                try:
                    pe = em.auto_promote(vals)
                    exp = all(compat_oracle(p.type, v_.type) and v_.is_constant() for p, v_ in zip(b.parameters, pe))
                except Exception:  # noqa
                    exp = False
                try:
                    ai = ActionInstance(b, tuple(vals))
                    ok = True
                except Exception:  # noqa
                    ok = False
                if ok != exp:
                    bad(f"ActionInstance {'accepted incompatible or non-constant' if ok else 'rejected compatible constant'} parameters", {"params": repr(vals)})
            if len(failures) >= 8:
                break
    return {"evaluations": evals, "distinct_nontrivial": len(nontrivial), "failures": failures,
            "rule": f"{n} generated problems; each storing call (per-type default, per-fluent default, set_initial_value, assign/increase/decrease "
                    f"effect on instantaneous action, durative action, problem timing, ActionInstance) with a value drawn from constants of every "
                    f"type and non-constant expressions; non-trivial = distinct (operation, target type, value)",
            "samples": [{"accepted_add_fluent": accepted, "rejected_add_fluent": rejected}], "bound": f"{n} problems"}


def replay_concrete(c):
    from unified_planning.shortcuts import Problem, Fluent, BoolType, IntType, Plus
    out = []
    pr = Problem("p")
    try:
        pr.add_fluent(Fluent("b", BoolType()), default_initial_value=5)
        out.append("add_fluent(bool, default 5) accepted")
    except Exception as ex:  # noqa
        pass
    x = Fluent("x", IntType(0, 10))
    y = Fluent("y", IntType(0, 10))
    pr2 = Problem("q")
    pr2.add_fluent(x)
    pr2.add_fluent(y)
    try:
        pr2.set_initial_value(x, Plus(y, 1))
        out.append("set_initial_value(x, y+1) accepted")
    except Exception:  # noqa
        pass
    try:
        Problem("r", initial_defaults={BoolType(): 7})
        out.append("Problem(initial_defaults={bool: 7}) accepted")
    except Exception:  # noqa
        pass
    return {"reproduced": bool(out), "concrete": c, "observed": out}


def replay_file(data):
    return replay_concrete(data.get("concrete") or {})


LEVEL = "other"
EXPLANATION = __doc__
TRUSTED = ["auto_promote returns one expression per argument or raises (contract assumed, not verified)",
           "Type.is_compatible / FNode.is_constant / FNode.type are pure observers (uninterpreted)",
           "_has_name_method / _add_user_type_method do not touch _fluents, _fluents_defaults, _initial_defaults",
           "check_conflicting_effects touches only the two bookkeeping containers (proved in C24)",
           "timed variants (TimedCondsEffs / Problem.add_timed_effect) and the Fluent-by-name branch of add_fluent are only in the bounded layer"]

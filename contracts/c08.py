"""C08 — compilers produce well-formed results.

P (kernels, real source):
  * CompilerResult(...) -- the dataclass-generated constructor followed by the real __post_init__ -- for every combination of
    problem / map_back_action_instance / plan_back_conversion being None or not: construction either raises UPUsageError or yields a
    result with  problem is not None  =>  plan_back_conversion is not None  (the class invariant every consumer of a result relies on;
    it failed on the pinned tree because the method was named _post_init and never ran), and it raises exactly for the four
    inconsistent combinations;
  * get_fresh_name: the returned name is not a name of the problem it was asked for (while-loop exit condition, any has_name);
    get_fresh_parameter_name: the returned name is not among the action's parameter names (loop invariant over the parameters).
Everything else of each _compile is decided by the bounded layer below.

See DESIGN.md section 7 (C08).  Bounded layer over the shared compiler harness rtc/compcheck.py:
C06 every valid plan of the compiled problem maps back to a valid plan of the original (reference semantics);
C07 every valid original plan (<= k) has a compiled counterpart (<= k, +1 where a goal action is added);
C08 compile succeeds inside the supported kind, the result is well-formed (unique names, declared references,
    plan back-conversion available);
C09 the compiled problem's kind is contained in the declared resulting kind (also along pipelines).
"""
from rtc import compcheck

USES_THEORY = False


def bounded(tier, seed):
    return compcheck.run(tier, seed, ["C08"])["C08"]


# ======================================================================================================= proved kernels
import z3
from pyvc.values import Ref, Seq, Opt, Str, SBool, SRef, SUnion, SSeq, Rec, CList, Loc, ExcVal, fresh_name, zbool, zint, Unsupported
from pyvc.values import Bool as PBool
from pyvc.verify import Unit
from pyvc.engine import LoopSpec
from pyvc import builtins as B
import unified_planning as _up
import unified_planning.engines.results as _res
import unified_planning.engines.compilers.utils as _cu
from unified_planning.exceptions import UPUsageError as _Usage

Problem08 = Ref("Problem08")
Problem08.observers["has_name"] = ((Str,), PBool)
Callable08 = Ref("Callable08")
Param08 = Ref("Parameter08", fields={"name": Str})
Action08 = Ref("Action08", fields={"parameters": Seq(Param08)})


class CompilerResultInvariant(Unit):
    prop = "C08"
    name = "CompilerResult.__init__ / __post_init__"
    doc = "a constructed result with a problem always has a plan back-conversion; inconsistent combinations raise UPUsageError"
    allowed_raises = (_Usage,)

    def target(self):
        return _res.CompilerResult

    def setup(self, eng, st):
        prob = Opt(Problem08).fresh("problem")
        mb = Opt(Callable08).fresh("map_back_action_instance")
        pb = Opt(Callable08).fresh("plan_back_conversion")
        return [prob, mb, "engine"], {"plan_back_conversion": pb}, dict(prob=prob, mb=mb, pb=pb)

    def post(self, eng, ctx, st, out):
        pn, mn, bn = ctx["prob"].is_none().z, ctx["mb"].is_none().z, ctx["pb"].is_none().z
        bad = z3.Or(z3.And(pn, z3.Not(mn)), z3.And(pn, z3.Not(bn)), z3.And(z3.Not(pn), mn, bn), z3.And(z3.Not(mn), z3.Not(bn)))
        if out[0] == "raise":
            st.oblige("UPUsageError only for an inconsistent combination", bad)
            return
        st.oblige("an inconsistent combination is rejected", z3.Not(bad))
        r = eng.deref(st, out[1])
        if not isinstance(r, Rec):
            st.oblige("a CompilerResult is constructed", z3.BoolVal(False))
            return
        pbc = r.fields["plan_back_conversion"]
        has_pbc = z3.BoolVal(True) if not (pbc is None or isinstance(pbc, SUnion)) else (z3.BoolVal(False) if pbc is None else z3.Not(pbc.is_none().z))
        st.oblige("problem is not None  =>  plan_back_conversion is not None", z3.Implies(z3.Not(pn), has_pbc))
        st.oblige("problem is None  =>  no conversion is offered", z3.Implies(pn, z3.Not(has_pbc)))


class FreshName(Unit):
    prop = "C08"
    name = "get_fresh_name"
    doc = "the returned name is not a name of the problem"

    def target(self):
        return _cu.get_fresh_name

    def configure(self, eng):
        QNF = "unified_planning.engines.compilers.utils.get_fresh_name"
        eng.loops[(QNF, 0)] = LoopSpec(lambda L: [("count never decreases below zero", zint(L.count) >= 0)], modifies=["new_name", "count"],
                                       types={"new_name": Str})

    def setup(self, eng, st):
        pr = Problem08.fresh("problem")
        names = eng.fresh_of(st, Seq(Str), "parameters_names")
        return [pr, Str.fresh("original_name"), names, Opt(Str).fresh("trailing_info")], {}, dict(pr=pr)

    def post(self, eng, ctx, st, out):
        if out[0] != "return":
            return
        has = B._uf("Problem08.has_name()", Problem08.z3sort(), Str.z3sort(), z3.BoolSort())
        from pyvc.values import to_z3
        st.oblige("the returned name is fresh for the problem", z3.Not(has(ctx["pr"].z, to_z3(out[1], Str))))


class FreshParameterName(Unit):
    prop = "C08"
    name = "get_fresh_parameter_name"
    doc = "the returned name is not the name of a parameter of the action"

    def target(self):
        return _cu.get_fresh_parameter_name

    def configure(self, eng):
        QNP = "unified_planning.engines.compilers.utils.get_fresh_parameter_name"

        def inv0(L):
            i = zint(L._i)
            nl = L.seq("name_list", Str)
            j = z3.Int(fresh_name("j"))
            pn = B._uf("Parameter08.name", Param08.z3sort(), Str.z3sort())
            return [("name_list holds the names of the scanned parameters",
                     z3.And(nl.n == i, z3.ForAll([j], z3.Implies(z3.And(0 <= j, j < i), z3.Select(nl.arr, j) == pn(z3.Select(L._seq.arr, j))))))]
        eng.loops[(QNP, 0)] = LoopSpec(inv0, modifies=["p", "name_list"], types={"name_list": Seq(Str)})
        eng.loops[(QNP, 1)] = LoopSpec(lambda L: [("count >= 0", zint(L.count) >= 0)], modifies=["new_name", "count"], types={"new_name": Str})

    def setup(self, eng, st):
        a = Action08.fresh("action")
        return [a, Str.fresh("name")], {}, dict(a=a)

    def post(self, eng, ctx, st, out):
        if out[0] != "return":
            return
        from pyvc.values import to_z3
        ps = B.field_uf(eng, st, ctx["a"], "parameters")
        pn = B._uf("Parameter08.name", Param08.z3sort(), Str.z3sort())
        j = z3.Int(fresh_name("j"))
        st.oblige("the returned name differs from every parameter name",
                  z3.ForAll([j], z3.Implies(z3.And(0 <= j, j < ps.n), pn(z3.Select(ps.arr, j)) != to_z3(out[1], Str))))


UNITS = [CompilerResultInvariant(), FreshName(), FreshParameterName()]
LEVEL = "other"
EXPLANATION = __doc__
TRUSTED = ["the dataclass-generated __init__ stores its arguments field by field and then calls __post_init__ (pyvc models exactly that)",
           "Problem.has_name is a pure observer", "string formatting of candidate names is abstract (any string)"]

"""C08 — compilers produce well-formed results.

P (kernels, real source):
  * CompilerResult(...) -- the dataclass-generated constructor followed by the real __post_init__ -- for every combination of
    problem / map_back_action_instance / plan_back_conversion being None or not: construction either raises UPUsageError or yields a
    result with  problem is not None  =>  plan_back_conversion is not None  (the class invariant every consumer of a result relies on;
    it failed on the pinned tree because the method was named _post_init and never ran), and it raises exactly for the four
    inconsistent combinations;
  * get_fresh_name: the returned name is not a name of the problem it was asked for (while-loop exit condition, any has_name);
    get_fresh_parameter_name: the returned name is not among the action's parameter names (loop invariant over the parameters).
  * Grounder._compile (the whole function, grounded actions of any number, helper / Problem operations by contract): the caller-side
    freshness obligation of the design -- at every `new_problem.add_action(new_action)` the action's name is not yet a name of the problem
    being built (otherwise add_action raises UPProblemDefinitionError) -- via the loop invariant "the names defined so far"; the result is a
    CompilerResult built by the real constructor (so it carries a back conversion).
Everything else of each _compile is decided by the bounded layer below.

See DESIGN.md section 7 (C08).  Bounded layer over the shared compiler harness rtc/compcheck.py:
C06 every valid plan of the compiled problem maps back to a valid plan of the original (reference semantics);
C07 every valid original plan (<= k) has a compiled counterpart (<= k, +1 where a goal action is added);
C08 compile succeeds inside the supported kind, the result is well-formed (unique names, declared references,
    plan back-conversion available);
C09 the compiled problem's kind is contained in the declared resulting kind (also along pipelines).
"""
from rtc import compcheck

USES_THEORY = False


def pipelines(tier, seed):
    """CompilersPipeline (a compiler in its own right) as handed out by the real Factory for sequences of 1-3 compilation kinds, on generated
    classical and temporal problems: compile returns (no exception other than the stages' documented rejections), the compiled problem is
    well-formed, a plan back-conversion is available and converts the empty plan without raising"""
    import random
    import warnings
    from rtc import compilers as RC, seqcheck as SC
    from rtc.tgen import TGen
    from unified_planning.environment import get_environment
    from unified_planning.engines import CompilationKind as CK
    from unified_planning.exceptions import UPNoSuitableEngineAvailableException
    from unified_planning.plans import SequentialPlan, ActionInstance
    rng = random.Random(seed + 808)
    n = 30 if tier == "quick" else 300
    failures, evals, selected = [], 0, 0
    seqs = [[CK.TIMED_TO_SEQUENTIAL], [CK.QUANTIFIERS_REMOVING, CK.TIMED_TO_SEQUENTIAL], [CK.QUANTIFIERS_REMOVING, CK.GROUNDING],
            [CK.CONDITIONAL_EFFECTS_REMOVING, CK.QUANTIFIERS_REMOVING, CK.GROUNDING], [CK.DISJUNCTIVE_CONDITIONS_REMOVING, CK.GROUNDING],
            [CK.GROUNDING, CK.TIMED_TO_SEQUENTIAL], [CK.NEGATIVE_CONDITIONS_REMOVING, CK.GROUNDING], [CK.BOUNDED_TYPES_REMOVING, CK.GROUNDING]]
    probs = [pr for _, pr in SC.problems(seed + 31, n // 2, features={"max_actions": 2})]
    probs += [TGen(seed * 7 + i, fixed_durations=(i % 2 == 0), timed=(i % 3 == 0), simple=(i % 2 == 1)).problem(f"t{i}") for i in range(n // 2)]
    with warnings.catch_warnings():
        warnings.simplefilter("ignore")
        for pr in probs:
            env = pr.environment
            saved = env.credits_stream
            env.credits_stream = None
            try:
                for cks in seqs:
                    try:
                        pipe = env.factory.Compiler(problem_kind=pr.kind, compilation_kinds=cks)
                    except UPNoSuitableEngineAvailableException:
                        continue
                    selected += 1
                    evals += 1
                    label = "+".join(c.name for c in cks)
                    desc = {"pipeline": label, "problem": str(pr)}
                    try:
                        res = pipe.compile(pr)
                    except Exception as e:  # noqa
                        if "NOT SOLVABLE" in str(e) or type(e).__name__ in ("UPProblemDefinitionError",):
                            continue
                        # is it one stage's own failure (it also fails when the stages are run one by one, without the pipeline)?
                        where, cur = "pipeline", pr
                        for ck in cks:
                            try:
                                with env.factory.Compiler(problem_kind=cur.kind, compilation_kind=ck) as one:
                                    cur = one.compile(cur).problem
                            except Exception as e2:  # noqa
                                if type(e2) is type(e):
                                    where = "stage:" + ck.name
                                break
                        failures.append({"what": f"pipeline {label}: compile raised {type(e).__name__}: {' '.join(str(e)[:100].split())} [{where}:{type(e).__name__}]",
                                         "concrete": desc, "observed": repr(e)})
                        continue
                    if res.problem is None:
                        continue
                    bad = compcheck.wellformed(res.problem, pr)
                    if res.plan_back_conversion is None:
                        bad.append("no plan_back_conversion on the pipeline's result")
                    else:
                        try:
                            res.plan_back_conversion(SequentialPlan([]))
                        except Exception as e:  # noqa
                            bad.append(f"plan_back_conversion raised {type(e).__name__} on the empty plan")
                    for b in bad:
                        failures.append({"what": f"pipeline {label}: {b} [pipeline]", "concrete": desc, "observed": b})
                    if len(failures) >= 4:
                        break
            finally:
                env.credits_stream = saved
            if len(failures) >= 4:
                break
    return {"evaluations": evals, "failures": failures,
            "rule": f"{selected} pipelines handed out by the real Factory (8 kind sequences incl. TIMED_TO_SEQUENTIAL stages) on {len(probs)} generated classical / temporal problems"}


def bounded(tier, seed):
    r = compcheck.run(tier, seed, ["C08"])["C08"]
    pp = pipelines(tier, seed)
    r["evaluations"] = r.get("evaluations", 0) + pp["evaluations"]
    r["failures"] = list(r.get("failures", [])) + pp["failures"]
    r["rule"] = r.get("rule", "") + "; " + pp["rule"]
    return r


# ======================================================================================================= proved kernels
import z3
from pyvc.values import Ref, Seq, Opt, Str, SBool, SRef, SUnion, SSeq, Rec, CList, Loc, ExcVal, fresh_name, zbool, zint, Unsupported
from pyvc.values import Bool as PBool
from pyvc.verify import Unit
from pyvc.engine import LoopSpec
from pyvc import builtins as B
import unified_planning as _up
import unified_planning.engines.results as _res
import unified_planning.engines.compilers.utils as _cu
from unified_planning.exceptions import UPUsageError as _Usage

Problem08 = Ref("Problem08")
Problem08.observers["has_name"] = ((Str,), PBool)
Callable08 = Ref("Callable08")
Param08 = Ref("Parameter08", fields={"name": Str})
Action08 = Ref("Action08", fields={"parameters": Seq(Param08)})


class CompilerResultInvariant(Unit):
    prop = "C08"
    name = "CompilerResult.__init__ / __post_init__"
    doc = "a constructed result with a problem always has a plan back-conversion; inconsistent combinations raise UPUsageError"
    allowed_raises = (_Usage,)

    def target(self):
        return _res.CompilerResult

    def setup(self, eng, st):
        prob = Opt(Problem08).fresh("problem")
        mb = Opt(Callable08).fresh("map_back_action_instance")
        pb = Opt(Callable08).fresh("plan_back_conversion")
        return [prob, mb, "engine"], {"plan_back_conversion": pb}, dict(prob=prob, mb=mb, pb=pb)

    def post(self, eng, ctx, st, out):
        pn, mn, bn = ctx["prob"].is_none().z, ctx["mb"].is_none().z, ctx["pb"].is_none().z
        bad = z3.Or(z3.And(pn, z3.Not(mn)), z3.And(pn, z3.Not(bn)), z3.And(z3.Not(pn), mn, bn), z3.And(z3.Not(mn), z3.Not(bn)))
        if out[0] == "raise":
            st.oblige("UPUsageError only for an inconsistent combination", bad)
            return
        st.oblige("an inconsistent combination is rejected", z3.Not(bad))
        r = eng.deref(st, out[1])
        if not isinstance(r, Rec):
            st.oblige("a CompilerResult is constructed", z3.BoolVal(False))
            return
        pbc = r.fields["plan_back_conversion"]
        has_pbc = z3.BoolVal(True) if not (pbc is None or isinstance(pbc, SUnion)) else (z3.BoolVal(False) if pbc is None else z3.Not(pbc.is_none().z))
        st.oblige("problem is not None  =>  plan_back_conversion is not None", z3.Implies(z3.Not(pn), has_pbc))
        st.oblige("problem is None  =>  no conversion is offered", z3.Implies(pn, z3.Not(has_pbc)))


class FreshName(Unit):
    prop = "C08"
    name = "get_fresh_name"
    doc = "the returned name is not a name of the problem"

    def target(self):
        return _cu.get_fresh_name

    def configure(self, eng):
        QNF = "unified_planning.engines.compilers.utils.get_fresh_name"
        eng.loops[(QNF, 0)] = LoopSpec(lambda L: [("count never decreases below zero", zint(L.count) >= 0)], modifies=["new_name", "count"],
                                       types={"new_name": Str})

    def setup(self, eng, st):
        pr = Problem08.fresh("problem")
        names = eng.fresh_of(st, Seq(Str), "parameters_names")
        return [pr, Str.fresh("original_name"), names, Opt(Str).fresh("trailing_info")], {}, dict(pr=pr)

    def post(self, eng, ctx, st, out):
        if out[0] != "return":
            return
        has = B._uf("Problem08.has_name()", Problem08.z3sort(), Str.z3sort(), z3.BoolSort())
        from pyvc.values import to_z3
        st.oblige("the returned name is fresh for the problem", z3.Not(has(ctx["pr"].z, to_z3(out[1], Str))))


class FreshParameterName(Unit):
    prop = "C08"
    name = "get_fresh_parameter_name"
    doc = "the returned name is not the name of a parameter of the action"

    def target(self):
        return _cu.get_fresh_parameter_name

    def configure(self, eng):
        QNP = "unified_planning.engines.compilers.utils.get_fresh_parameter_name"

        def inv0(L):
            i = zint(L._i)
            nl = L.seq("name_list", Str)
            j = z3.Int(fresh_name("j"))
            pn = B._uf("Parameter08.name", Param08.z3sort(), Str.z3sort())
            return [("name_list holds the names of the scanned parameters",
                     z3.And(nl.n == i, z3.ForAll([j], z3.Implies(z3.And(0 <= j, j < i), z3.Select(nl.arr, j) == pn(z3.Select(L._seq.arr, j))))))]
        eng.loops[(QNP, 0)] = LoopSpec(inv0, modifies=["p", "name_list"], types={"name_list": Seq(Str)})
        eng.loops[(QNP, 1)] = LoopSpec(lambda L: [("count >= 0", zint(L.count) >= 0)], modifies=["new_name", "count"], types={"new_name": Str})

    def setup(self, eng, st):
        a = Action08.fresh("action")
        return [a, Str.fresh("name")], {}, dict(a=a)

    def post(self, eng, ctx, st, out):
        if out[0] != "return":
            return
        from pyvc.values import to_z3
        ps = B.field_uf(eng, st, ctx["a"], "parameters")
        pn = B._uf("Parameter08.name", Param08.z3sort(), Str.z3sort())
        j = z3.Int(fresh_name("j"))
        st.oblige("the returned name differs from every parameter name",
                  z3.ForAll([j], z3.Implies(z3.And(0 <= j, j < ps.n), pn(z3.Select(ps.arr, j)) != to_z3(out[1], Str))))


# ----------------------------------------------------------------------------------------------- Grounder._compile
import unified_planning.engines.compilers.grounder as _gr   # noqa: E402
import functools as _ft                                     # noqa: E402
from pyvc.values import Set, Tup, SSet, to_z3                # noqa: E402
GProblem08 = Ref("GroundedInput08", _up.model.Problem, fields={"name": Str})
Metric08 = Ref("Metric08")
Metric08.observers["is_minimize_action_costs"] = ((), PBool)
Metric08.pycls = object
Metric08.isinstance_hook = lambda e, st, v, clss: True
GProblem08.fields["quality_metrics"] = Seq(Metric08)
OldAction08, Params08 = Ref("OldAction08"), Ref("GroundParams08")
NewAction08 = Ref("NewAction08")
NewAction08.null = z3.Const("NewAction08.None", NewAction08.z3sort())
NewAction08.mutable["name"] = Str
Helper08 = Ref("GrounderHelper08", fields={"simplifier": Ref("Simplifier08")})
Params08.iter_items = Ref("FNode08")
QNG = "unified_planning.engines.compilers.grounder.Grounder._compile"


class NewProblem08:
    """marker record for the problem being built (methods are placeholders, every call goes through its contract)"""
    def clear_actions(self): pass                 # noqa: E704
    def has_name(self, n): pass                   # noqa: E704
    def add_action(self, a): pass                 # noqa: E704
    def clear_quality_metrics(self): pass         # noqa: E704
    def add_quality_metric(self, m): pass         # noqa: E704


def _np_names(st, np):
    return st.load(st.getfield(np, "_names"))


class GrounderCompile(Unit):
    prop = "C08"
    name = "Grounder._compile"
    doc = "every grounded action is added under a name that is fresh in the problem being built; the result carries a back conversion"
    allowed_raises = ()

    def target(self):
        return _gr.Grounder._compile

    def configure(self, eng):
        def clone(eng_, st, selfv, args, kw):
            names = eng_.fresh_of(st, Set(Str), "names_of_the_clone")
            yield st, st.alloc(Rec(NewProblem08, {"_names": st.alloc(names, "set"), "name": None, "_added": st.alloc(SSet.empty(NewAction08), "set")}), "new_problem")
        GProblem08.methods["clone"] = clone

        def clear_actions(eng_, st, args, kw):
            np = args[0]
            old = _np_names(st, np)
            new = eng_.fresh_of(st, Set(Str), "names_without_actions")
            k = z3.Const(fresh_name("k"), Str.z3sort())
            st.assume(z3.ForAll([k], z3.Implies(z3.Select(new.has, k), z3.Select(old.has, k))))     # removing the actions only removes names
            st.store(st.getfield(np, "_names"), new)
            yield st, None

        def has_name(eng_, st, args, kw):
            yield st, SBool(z3.Select(_np_names(st, args[0]).has, to_z3(args[1], Str)))

        def add_action(eng_, st, args, kw):
            np, a = args
            nm = z3.Select(eng_.heap_field(st, NewAction08, "name"), a.z)
            st.oblige("add_action: the action's name is not yet defined in the problem being built (else UPProblemDefinitionError)",
                      z3.Not(z3.Select(_np_names(st, np).has, nm)))
            st.store(st.getfield(np, "_names"), _np_names(st, np).add(Str.wrap(nm)))
            loc = st.getfield(np, "_added")
            st.store(loc, st.load(loc).add(a))
            yield st, None
        noop = lambda eng_, st, args, kw: iter([(st, None)])      # noqa: E731
        eng.contracts[NewProblem08.clear_actions] = clear_actions
        eng.contracts[NewProblem08.has_name] = has_name
        eng.contracts[NewProblem08.add_action] = add_action
        eng.contracts[NewProblem08.clear_quality_metrics] = noop
        eng.contracts[NewProblem08.add_quality_metric] = noop
        eng.contracts[_gr.GrounderHelper] = lambda eng_, st, args, kw: iter([(st, Helper08.fresh("grounder_helper"))])
        Helper08.methods["get_grounded_actions"] = lambda eng_, st, selfv, args, kw: iter([(st, self._ga)])

        def fresh_name_contract(eng_, st, args, kw):
            np, base = args[0], args[1]
            r = Str.fresh("fresh_name")
            st.assume(z3.Not(z3.Select(_np_names(st, np).has, r.z)))      # proved for the real get_fresh_name in the unit above
            yield st, r
        eng.contracts[_gr.get_fresh_name] = fresh_name_contract
        eng.contracts[_gr.ground_minimize_action_costs_metric] = lambda eng_, st, args, kw: iter([(st, Metric08.fresh("ground_metric"))])
        eng.contracts[_ft.partial] = lambda eng_, st, args, kw: iter([(st, Callable08.fresh("partial"))])

        def inv(L):
            np = L.new_problem
            added = L.st.load(L.st.getfield(np, "_added"))
            seq, i = L._seq, zint(L._i)
            j = z3.Int(fresh_name("j"))
            third = lambda jj: B_third(seq, jj)      # noqa: E731
            return [("every scanned grounded action that exists was added",
                     z3.ForAll([j], z3.Implies(z3.And(0 <= j, j < i, third(j) != NewAction08.null), z3.Select(added.has, third(j)))))]
        eng.loops[(QNG, 0)] = LoopSpec(inv, modifies=["old_action", "parameters", "new_action", "new_problem._names", "new_problem._added", "heap:NewAction08.name"],
                                       opaque=["trace_back_map"], types={"new_problem._names": Set(Str), "new_problem._added": Set(NewAction08)})
        eng.loops[(QNG, 1)] = LoopSpec(lambda L: [("metrics loop", z3.BoolVal(True))], modifies=["qm", "new_metric"], types={})

    def setup(self, eng, st):
        w = st.alloc(Rec(_gr.Grounder, {"_grounding_actions_map": None, "_prune_actions": True}), "grounder")
        pr = GProblem08.fresh("problem")
        self._ga = eng.fresh_of(st, Seq(Tup(OldAction08, Params08, NewAction08)), "grounded_actions")
        return [w, pr, None], {}, dict(pr=pr)

    def post(self, eng, ctx, st, out):
        if out[0] != "return":
            return
        r = eng.deref(st, out[1])
        ok = isinstance(r, Rec) and r.cls is _res.CompilerResult and r.fields.get("plan_back_conversion") is not None and r.fields.get("problem") is not None
        st.oblige("a CompilerResult with the built problem and a plan back-conversion is returned", z3.BoolVal(bool(ok)))
        if ok:
            np = r.fields["problem"]
            added = st.load(st.getfield(np, "_added"))
            seq = self._ga
            j = z3.Int(fresh_name("j"))
            st.oblige("every grounded action the helper produced is in the compiled problem",
                      z3.ForAll([j], z3.Implies(z3.And(0 <= j, j < seq.n, B_third(seq, j) != NewAction08.null), z3.Select(added.has, B_third(seq, j)))))


def B_third(seq, j):
    t = seq.te
    t.z3sort()
    return t._acc[2](z3.Select(seq.arr, j))


UNITS = [CompilerResultInvariant(), FreshName(), FreshParameterName(), GrounderCompile()]
LEVEL = "other"
EXPLANATION = __doc__
TRUSTED = ["the dataclass-generated __init__ stores its arguments field by field and then calls __post_init__ (pyvc models exactly that)",
           "Problem.has_name is a pure observer", "string formatting of candidate names is abstract (any string)",
           "Grounder._compile: GrounderHelper.get_grounded_actions yields any sequence of (action, parameters, grounded action or None); Problem.clone / "
           "clear_actions / add_action by contract (add_action requires a name that is not yet defined -- the obligation proved at the call site); "
           "the trace-back map and the ground metric are abstracted (not part of the well-formedness clause)"]

"""Shared sort models ("theories") for opaque repository classes.

Each `Ref` sort names a real class; methods of that class are *inlined from the real source*
unless an observer/attr/method model is given here.  Everything declared here is an
assumption about objects reaching the verified function and is listed in the evidence.
"""
import z3
from pyvc.values import *  # noqa
from pyvc import builtins as B

import unified_planning as up
from unified_planning.model.fnode import FNode as _FNode, FNodeContent
from unified_planning.model.operators import OperatorKind as OK
from unified_planning.model.effect import Effect as _Effect, EffectKind, SimulatedEffect as _SimEff
import unified_planning.model.types as _types

OKT = Enum(OK)

Environment = Ref("Environment")
Type = Ref("Type", _types.Type)
Fluent = Ref("Fluent")
Parameter = Ref("Parameter")
Variable = Ref("Variable")
Object = Ref("Object")
Timing = Ref("Timing")
Presence = Ref("Presence")
Agent = Ref("Agent")
IFun = Ref("InterpretedFunction")
FNode = Ref("FNode", _FNode)

PAYLOAD = {
    OK.BOOL_CONSTANT: Bool, OK.INT_CONSTANT: Int, OK.REAL_CONSTANT: Real,
    OK.FLUENT_EXP: Fluent, OK.INTERPRETED_FUNCTION_EXP: IFun, OK.PARAM_EXP: Parameter,
    OK.VARIABLE_EXP: Variable, OK.OBJECT_EXP: Object, OK.TIMING_EXP: Timing,
    OK.PRESENT_EXP: Presence, OK.DOT: Agent, OK.EXISTS: Seq(Variable), OK.FORALL: Seq(Variable),
}

node_type = z3.Function("FNode.node_type", FNode.z3sort(), OKT.z3sort())


def nt(e):
    return SEnum(OKT, node_type(e.z))


def fnode_args(eng, st, e):
    return B.uf_value(eng, st, "FNode.args", [e.z], [FNode.z3sort()], Seq(FNode))


def fnode_payload(eng, st, e):
    k = node_type(e.z)
    alts, others = [], []
    for kind, t in PAYLOAD.items():
        g = k == OKT.consts[kind]
        others.append(g)
        alts.append((g, B.uf_value(eng, st, f"FNode.payload.{kind.name}", [e.z], [FNode.z3sort()], t)))
    alts.append((z3.Not(z3.Or(others)), None))
    return SUnion(alts)


def _content(eng, st, e):
    return Struct(FNodeContent, {"node_type": nt(e), "args": fnode_args(eng, st, e),
                                 "payload": fnode_payload(eng, st, e)})


FNode.attrs["_content"] = _content
FNode.fields["_node_id"] = Int
FNode.fields["_env"] = Environment
# the type checker is a separate verified unit (C15); here `e.type` is an opaque observer
FNode.attrs["type"] = lambda eng, st, e: B.uf_value(eng, st, "FNode.type", [e.z], [FNode.z3sort()], Type)

for _m in ("is_bool_type", "is_int_type", "is_real_type", "is_user_type", "is_time_type",
           "is_movable_type", "is_tuple_type"):
    Type.observers[_m] = ((), Bool)
Type.observers["is_compatible"] = ((Type,), Bool)

EKT = Enum(EffectKind)
Effect = Ref("Effect", _Effect, fields={"_fluent": FNode, "_value": FNode, "_condition": FNode,
                                        "_kind": EKT, "_forall": Seq(Variable)})
SimEff = Ref("SimulatedEffect", _SimEff, fields={"_fluents": Seq(FNode)})


def payload_of(eng, st, e, kind):
    return B.uf_value(eng, st, f"FNode.payload.{kind.name}", [e.z], [FNode.z3sort()], PAYLOAD[kind])


TRUSTED = [
    "FNode objects are immutable records (node_type, args, payload by kind) — established by C16",
    "FNode == / hash is identity (no __eq__ override) — read from the class at run time",
    "Type.is_*_type() are pure observers",
]


# =====================================================================================================
# Expression semantics under one arbitrary, fixed interpretation of fluents / parameters / variables
# (DESIGN.md 3.1): evb : FNode -> Bool, evn : FNode -> Real, evo : FNode -> Object, defined per operator kind.
# The defining equation of a kind is *assumed* only for nodes of that kind (at the handler's input node and
# at nodes returned by the constructor contracts below).
# =====================================================================================================
evb = z3.Function("evb", FNode.z3sort(), z3.BoolSort())
evn = z3.Function("evn", FNode.z3sort(), z3.RealSort())
evo = z3.Function("evo", FNode.z3sort(), Object.z3sort())
_ARR = z3.ArraySort(z3.IntSort(), FNode.z3sort())
ssum = z3.Function("ssum", _ARR, z3.IntSort(), z3.RealSort())     # sum of evn over arr[0..n)
sprod = z3.Function("sprod", _ARR, z3.IntSort(), z3.RealSort())   # product of evn over arr[0..n)
args_arr = B._uf("FNode.args.arr", FNode.z3sort(), _ARR)
args_len = B._uf("FNode.args.len", FNode.z3sort(), z3.IntSort())


def fold_axioms():
    """definitions of ssum/sprod by recursion on the length + the prefix lemma (proved by induction:
    base and step are discharged by z3 in contracts/c11.py units `lemma:*`)"""
    a, b = z3.Const("a!ax", _ARR), z3.Const("b!ax", _ARR)
    n, m = z3.Int("n!ax"), z3.Int("m!ax")
    ax = [
        z3.ForAll([a], ssum(a, 0) == 0),
        z3.ForAll([a, n], z3.Implies(n > 0, ssum(a, n) == ssum(a, n - 1) + evn(z3.Select(a, n - 1))), patterns=[ssum(a, n)]),
        z3.ForAll([a], sprod(a, 0) == 1),
        z3.ForAll([a, n], z3.Implies(n > 0, sprod(a, n) == sprod(a, n - 1) * evn(z3.Select(a, n - 1))), patterns=[sprod(a, n)]),
    ]
    return ax


def prefix_lemmas():
    a, b = z3.Const("a!lx", _ARR), z3.Const("b!lx", _ARR)
    n, m = z3.Int("n!lx"), z3.Int("m!lx")
    # congruence in the *values*: element-wise equal values give equal folds (covers identical prefixes)
    same = z3.ForAll([m], z3.Implies(z3.And(0 <= m, m < n), evn(z3.Select(a, m)) == evn(z3.Select(b, m))))
    return [z3.ForAll([a, b, n], z3.Implies(z3.And(n >= 0, same), ssum(a, n) == ssum(b, n)), patterns=[z3.MultiPattern(ssum(a, n), ssum(b, n))]),
            z3.ForAll([a, b, n], z3.Implies(z3.And(n >= 0, same), sprod(a, n) == sprod(b, n)), patterns=[z3.MultiPattern(sprod(a, n), sprod(b, n))])]


def sem_eq(eng, st, e, kind):
    """defining equation of the semantics at node e (z3 ref) of operator kind `kind`"""
    j = z3.Int(fresh_name("j"))
    arr, n = args_arr(e), args_len(e)
    a0, a1 = z3.Select(arr, 0), z3.Select(arr, 1)
    if kind == OK.AND:
        return evb(e) == z3.ForAll([j], z3.Implies(z3.And(0 <= j, j < n), evb(z3.Select(arr, j))))
    if kind == OK.OR:
        return evb(e) == z3.Exists([j], z3.And(0 <= j, j < n, evb(z3.Select(arr, j))))
    if kind == OK.NOT:
        return evb(e) == z3.Not(evb(a0))
    if kind == OK.IMPLIES:
        return evb(e) == z3.Implies(evb(a0), evb(a1))
    if kind == OK.IFF:
        return evb(e) == (evb(a0) == evb(a1))
    if kind == OK.LE:
        return evb(e) == (evn(a0) <= evn(a1))
    if kind == OK.LT:
        return evb(e) == (evn(a0) < evn(a1))
    if kind == OK.EQUALS:
        return evb(e) == val_eq(a0, a1)
    if kind == OK.PLUS:
        return evn(e) == ssum(arr, n)
    if kind == OK.TIMES:
        return evn(e) == sprod(arr, n)
    if kind == OK.MINUS:
        return evn(e) == evn(a0) - evn(a1)
    if kind == OK.DIV:
        return z3.Implies(evn(a1) != 0, evn(e) == evn(a0) / evn(a1))
    if kind == OK.BOOL_CONSTANT:
        return evb(e) == B._uf("FNode.payload.BOOL_CONSTANT", FNode.z3sort(), z3.BoolSort())(e)
    if kind == OK.INT_CONSTANT:
        return evn(e) == z3.ToReal(B._uf("FNode.payload.INT_CONSTANT", FNode.z3sort(), z3.IntSort())(e))
    if kind == OK.REAL_CONSTANT:
        return evn(e) == B._uf("FNode.payload.REAL_CONSTANT", FNode.z3sort(), z3.RealSort())(e)
    if kind == OK.OBJECT_EXP:
        return evo(e) == B._uf("FNode.payload.OBJECT_EXP", FNode.z3sort(), Object.z3sort())(e)
    return z3.BoolVal(True)


is_numeric = z3.Function("is_numeric", FNode.z3sort(), z3.BoolSort())   # the expression has a numeric type


def val_eq(a, b):
    """value equality of two (type-compatible) expressions: numbers by value, objects by identity"""
    return z3.If(z3.And(is_numeric(a), is_numeric(b)), evn(a) == evn(b),
                 z3.If(z3.Or(is_numeric(a), is_numeric(b)), z3.BoolVal(False), evo(a) == evo(b)))


ARITY = {OK.NOT: 1, OK.IMPLIES: 2, OK.IFF: 2, OK.LE: 2, OK.LT: 2, OK.EQUALS: 2, OK.MINUS: 2, OK.DIV: 2,
         OK.BOOL_CONSTANT: 0, OK.INT_CONSTANT: 0, OK.REAL_CONSTANT: 0, OK.OBJECT_EXP: 0}


def assume_node(eng, st, e, kind):
    """e is a well-formed node of the given kind (constructor invariant, C16) with its semantics"""
    st.assume(node_type(e) == OKT.consts[kind])
    st.assume(args_len(e) >= 0)
    if kind in ARITY:
        st.assume(args_len(e) == ARITY[kind])
    if kind in (OK.INT_CONSTANT, OK.REAL_CONSTANT):
        st.assume(is_numeric(e))
    if kind in (OK.BOOL_CONSTANT, OK.OBJECT_EXP):
        st.assume(z3.Not(is_numeric(e)))
    if kind in (OK.PLUS, OK.MINUS, OK.TIMES, OK.DIV):
        st.assume(is_numeric(e))
    st.assume(sem_eq(eng, st, e, kind))


# ---- ExpressionManager as a callee: constructor contracts (proved against the real constructors in C16)
Manager = Ref("ExpressionManager")
_mkbool = z3.Function("mk.Bool", z3.BoolSort(), FNode.z3sort())
_mkint = z3.Function("mk.Int", z3.IntSort(), FNode.z3sort())
_mkreal = z3.Function("mk.Real", z3.RealSort(), FNode.z3sort())
_mk1 = z3.Function("mk.unary", OKT.z3sort(), FNode.z3sort(), FNode.z3sort())
_mk2 = z3.Function("mk.binary", OKT.z3sort(), FNode.z3sort(), FNode.z3sort(), FNode.z3sort())
_mkn = z3.Function("mk.nary", OKT.z3sort(), _ARR, z3.IntSort(), FNode.z3sort())


def mk_bool(eng, st, v):
    r = _mkbool(zbool(v))
    assume_node(eng, st, r, OK.BOOL_CONSTANT)
    st.assume(B._uf("FNode.payload.BOOL_CONSTANT", FNode.z3sort(), z3.BoolSort())(r) == zbool(v))
    return FNode.wrap(r)


def mk_int(eng, st, v):
    r = _mkint(zint(v))
    assume_node(eng, st, r, OK.INT_CONSTANT)
    st.assume(B._uf("FNode.payload.INT_CONSTANT", FNode.z3sort(), z3.IntSort())(r) == zint(v))
    return FNode.wrap(r)


def mk_real(eng, st, v):
    r = _mkreal(zreal(v))
    assume_node(eng, st, r, OK.REAL_CONSTANT)
    st.assume(B._uf("FNode.payload.REAL_CONSTANT", FNode.z3sort(), z3.RealSort())(r) == zreal(v))
    return FNode.wrap(r)


def mk_fixed(eng, st, kind, *children):
    k = OKT.consts[kind]
    r = _mk1(k, children[0].z) if len(children) == 1 else _mk2(k, children[0].z, children[1].z)
    assume_node(eng, st, r, kind)
    for i, c in enumerate(children):
        st.assume(z3.Select(args_arr(r), i) == c.z)
    return FNode.wrap(r)


def mk_nary(eng, st, kind, seq):
    """And/Or/Plus/Times over a sequence: 0 -> unit constant, 1 -> the element, else a node of that kind.
    yields (st, node) -- forks on the length"""
    unit = {OK.AND: lambda s: mk_bool(eng, s, True), OK.OR: lambda s: mk_bool(eng, s, False),
            OK.PLUS: lambda s: mk_int(eng, s, 0), OK.TIMES: lambda s: mk_int(eng, s, 1)}[kind]
    for s, z in eng.branch(st, seq.n == 0, "mk:n=0"):
        if z:
            yield s, unit(s)
            continue
        for s2, one in eng.branch(s, seq.n == 1, "mk:n=1"):
            if one:
                yield s2, seq.at(0)
                continue
            r = _mkn(OKT.consts[kind], seq.arr, seq.n)
            assume_node(eng, s2, r, kind)
            jj = z3.Int(fresh_name("j"))
            s2.assume(args_len(r) == seq.n)
            s2.assume(z3.ForAll([jj], z3.Implies(z3.And(0 <= jj, jj < seq.n), z3.Select(args_arr(r), jj) == z3.Select(seq.arr, jj))))
            yield s2, FNode.wrap(r)


def _seq_args(eng, st, args):
    """polymorphic n-ary arguments: And(a, b, c) / And([a, b, c]) / And(dict_keys)"""
    from pyvc.engine import StarSeq
    if len(args) == 1:
        c = eng.deref(st, args[0])
        if isinstance(c, SSeq):
            return c
        if isinstance(c, (CList, tuple, list)):
            return B.as_sseq(eng, st, c, FNode)
        if isinstance(c, (SMap, SSet)) and c.keys is not None:
            return c.keys
    if any(isinstance(a, StarSeq) for a in args):
        return B.concat_star(eng, st, list(args))
    return SSeq.of(FNode, list(args))


def _nary(kind):
    def m(eng, st, selfv, args, kw):
        yield from mk_nary(eng, st, kind, _seq_args(eng, st, args))
    return m


def _fixed(kind, mirror=False):
    def m(eng, st, selfv, args, kw):
        cs = list(args)
        if mirror:
            cs = cs[::-1]
        yield st, mk_fixed(eng, st, kind, *cs)
    return m


def _m_not(eng, st, selfv, args, kw):
    (x,) = args
    isnot = node_type(x.z) == OKT.consts[OK.NOT]
    for s, b in eng.branch(st, isnot, "mk:not-not"):
        if b:
            yield s, FNode.wrap(z3.Select(args_arr(x.z), 0))      # double negation
        else:
            yield s, mk_fixed(eng, s, OK.NOT, x)


def _m_bool(eng, st, selfv, args, kw):
    yield st, mk_bool(eng, st, args[0])


def _m_int(eng, st, selfv, args, kw):
    yield st, mk_int(eng, st, args[0])


def _m_real(eng, st, selfv, args, kw):
    yield st, mk_real(eng, st, args[0])


Manager.methods.update({
    "And": _nary(OK.AND), "Or": _nary(OK.OR), "Plus": _nary(OK.PLUS), "Times": _nary(OK.TIMES),
    "Not": _m_not, "Implies": _fixed(OK.IMPLIES), "Iff": _fixed(OK.IFF), "Equals": _fixed(OK.EQUALS),
    "LE": _fixed(OK.LE), "LT": _fixed(OK.LT), "GE": _fixed(OK.LE, True), "GT": _fixed(OK.LT, True),
    "Minus": _fixed(OK.MINUS), "Div": _fixed(OK.DIV),
    "TRUE": lambda eng, st, selfv, args, kw: iter([(st, mk_bool(eng, st, True))]),
    "FALSE": lambda eng, st, selfv, args, kw: iter([(st, mk_bool(eng, st, False))]),
    "Bool": _m_bool, "Int": _m_int, "Real": _m_real,
})


def semantic_axioms(kinds=(OK.AND, OK.OR, OK.NOT, OK.IMPLIES, OK.IFF, OK.LE, OK.LT, OK.EQUALS, OK.PLUS, OK.TIMES, OK.MINUS, OK.DIV,
                           OK.BOOL_CONSTANT, OK.INT_CONSTANT, OK.REAL_CONSTANT, OK.OBJECT_EXP)):
    """for every node e of kind K the defining equation of K holds (the meaning of the operators), plus the
    typing facts of constants and arithmetic nodes"""
    ax = []
    e = z3.Const("e!sem", FNode.z3sort())
    for k in kinds:
        ax.append(z3.ForAll([e], z3.Implies(node_type(e) == OKT.consts[k], sem_eq(None, None, e, k)), patterns=[node_type(e)]))
        if k in ARITY:
            ax.append(z3.ForAll([e], z3.Implies(node_type(e) == OKT.consts[k], args_len(e) == ARITY[k]), patterns=[node_type(e)]))
    num = [OK.INT_CONSTANT, OK.REAL_CONSTANT, OK.PLUS, OK.MINUS, OK.TIMES, OK.DIV]
    nonnum = [OK.BOOL_CONSTANT, OK.OBJECT_EXP, OK.AND, OK.OR, OK.NOT, OK.IMPLIES, OK.IFF, OK.LE, OK.LT, OK.EQUALS, OK.EXISTS, OK.FORALL]
    ax.append(z3.ForAll([e], z3.Implies(z3.Or([node_type(e) == OKT.consts[k] for k in num]), is_numeric(e)), patterns=[node_type(e)]))
    ax.append(z3.ForAll([e], z3.Implies(z3.Or([node_type(e) == OKT.consts[k] for k in nonnum]), z3.Not(is_numeric(e))), patterns=[node_type(e)]))
    ax.append(z3.ForAll([e], args_len(e) >= 0, patterns=[args_len(e)]))
    # well-typed arithmetic nodes have numeric children (type checker, C15)
    j = z3.Int("j!sem")
    ax.append(z3.ForAll([e, j], z3.Implies(z3.And(z3.Or([node_type(e) == OKT.consts[k] for k in (OK.PLUS, OK.TIMES, OK.MINUS, OK.DIV)]),
                                                  0 <= j, j < args_len(e)), is_numeric(z3.Select(args_arr(e), j))),
                        patterns=[z3.Select(args_arr(e), j)]))
    return ax


def typed_interpretation_axioms():
    """values respect the declared types: expressions of user types that are incompatible in both directions
    never denote the same object (objects have one type; compatibility is the subtype relation)"""
    a, b = z3.Const("a!ty", FNode.z3sort()), z3.Const("b!ty", FNode.z3sort())
    ty = B._uf("FNode.type", FNode.z3sort(), Type.z3sort())
    isu = B._uf("Type.is_user_type()", Type.z3sort(), z3.BoolSort())
    comp = B._uf("Type.is_compatible()", Type.z3sort(), Type.z3sort(), z3.BoolSort())
    return [z3.ForAll([a, b], z3.Implies(z3.And(isu(ty(a)), isu(ty(b)), z3.Not(comp(ty(a), ty(b))), z3.Not(comp(ty(b), ty(a)))),
                                         z3.And(evo(a) != evo(b), z3.Not(is_numeric(a)), z3.Not(is_numeric(b)))),
                      patterns=[z3.MultiPattern(ty(a), ty(b))])]


def zero_product_lemma():
    """a zero factor makes the product zero (induction on n; base/step discharged in contracts/c11.py)"""
    a = z3.Const("a!zp", _ARR)
    n, k = z3.Int("n!zp"), z3.Int("k!zp")
    return [z3.ForAll([a, n, k], z3.Implies(z3.And(0 <= k, k < n, evn(z3.Select(a, k)) == 0), sprod(a, n) == 0),
                      patterns=[z3.MultiPattern(sprod(a, n), evn(z3.Select(a, k)))])]

"""Shared sort models ("theories") for opaque repository classes.

Each `Ref` sort names a real class; methods of that class are *inlined from the real source*
unless an observer/attr/method model is given here.  Everything declared here is an
assumption about objects reaching the verified function and is listed in the evidence.
"""
import z3
from pyvc.values import *  # noqa
from pyvc import builtins as B

import unified_planning as up
from unified_planning.model.fnode import FNode as _FNode, FNodeContent
from unified_planning.model.operators import OperatorKind as OK
from unified_planning.model.effect import Effect as _Effect, EffectKind, SimulatedEffect as _SimEff
import unified_planning.model.types as _types

OKT = Enum(OK)

Environment = Ref("Environment")
Type = Ref("Type", _types.Type)
Fluent = Ref("Fluent")
Parameter = Ref("Parameter")
Variable = Ref("Variable")
Object = Ref("Object")
Timing = Ref("Timing")
Presence = Ref("Presence")
Agent = Ref("Agent")
IFun = Ref("InterpretedFunction")
FNode = Ref("FNode", _FNode)

PAYLOAD = {
    OK.BOOL_CONSTANT: Bool, OK.INT_CONSTANT: Int, OK.REAL_CONSTANT: Real,
    OK.FLUENT_EXP: Fluent, OK.INTERPRETED_FUNCTION_EXP: IFun, OK.PARAM_EXP: Parameter,
    OK.VARIABLE_EXP: Variable, OK.OBJECT_EXP: Object, OK.TIMING_EXP: Timing,
    OK.PRESENT_EXP: Presence, OK.DOT: Agent, OK.EXISTS: Seq(Variable), OK.FORALL: Seq(Variable),
}

node_type = z3.Function("FNode.node_type", FNode.z3sort(), OKT.z3sort())


def nt(e):
    return SEnum(OKT, node_type(e.z))


def fnode_args(eng, st, e):
    return B.uf_value(eng, st, "FNode.args", [e.z], [FNode.z3sort()], Seq(FNode))


def fnode_payload(eng, st, e):
    k = node_type(e.z)
    alts, others = [], []
    for kind, t in PAYLOAD.items():
        g = k == OKT.consts[kind]
        others.append(g)
        alts.append((g, B.uf_value(eng, st, f"FNode.payload.{kind.name}", [e.z], [FNode.z3sort()], t)))
    alts.append((z3.Not(z3.Or(others)), None))
    return SUnion(alts)


def _content(eng, st, e):
    return Struct(FNodeContent, {"node_type": nt(e), "args": fnode_args(eng, st, e),
                                 "payload": fnode_payload(eng, st, e)})


FNode.attrs["_content"] = _content
FNode.fields["_node_id"] = Int
FNode.fields["_env"] = Environment
# the type checker is a separate verified unit (C15); here `e.type` is an opaque observer
FNode.attrs["type"] = lambda eng, st, e: B.uf_value(eng, st, "FNode.type", [e.z], [FNode.z3sort()], Type)

for _m in ("is_bool_type", "is_int_type", "is_real_type", "is_user_type", "is_time_type",
           "is_movable_type", "is_tuple_type"):
    Type.observers[_m] = ((), Bool)

EKT = Enum(EffectKind)
Effect = Ref("Effect", _Effect, fields={"_fluent": FNode, "_value": FNode, "_condition": FNode,
                                        "_kind": EKT, "_forall": Seq(Variable)})
SimEff = Ref("SimulatedEffect", _SimEff, fields={"_fluents": Seq(FNode)})


def payload_of(eng, st, e, kind):
    return B.uf_value(eng, st, f"FNode.payload.{kind.name}", [e.z], [FNode.z3sort()], PAYLOAD[kind])


TRUSTED = [
    "FNode objects are immutable records (node_type, args, payload by kind) — established by C16",
    "FNode == / hash is identity (no __eq__ override) — read from the class at run time",
    "Type.is_*_type() are pure observers",
]

"""C35 — the simulated execution environment is faithful to its contingent problem.

P (real source): SimulatedExecutionEnvironment._get_stateless_deterministic_problem_clone with the Problem-building operations by contract
(each records what it was given): for problems of any size, every fluent is added with the problem's per-fluent default (which already holds a
per-type default), else False for a Boolean fluent, else none; every explicit initial value of a non-hidden fluent -- and none of a hidden one --
is set; every non-sensing action is added as a clone, every sensing action as a plain action of the same name with all its preconditions and
clones of all its effects; every goal and metric is copied.  (Loop invariants over the seven loops, nested ones included.)

Bounded run-time contract (public API only: a `sense_all` sensing action added to every generated problem observes every
ground fluent, so the hidden state is read through `apply`):
  H  the hidden initial state satisfies every oneof (exactly one literal true) and or (at least one) constraint,
     including constraints over negated literals and `unknown` fluents;
  D  every ground fluent that is not hidden has the problem's declared initial value (explicit, per-fluent default,
     per-type default -- Boolean, bounded-int and object fluents);
  X  random action sequences: an action raises UPUsageError exactly when the reference says it is not applicable,
     otherwise the environment's next observed state equals the reference successor; the reference is the real
     UPSequentialSimulator (bounded-checked against the written semantics in C01) on an independently built plain
     Problem whose initial state is the observed one and whose sensing actions keep their preconditions and effects;
  O  observations returned by a sensing action are exactly the current values of its observed fluents;
  G  is_goal_reached agrees with the reference after every step.
"""
import random
import warnings
from collections import OrderedDict

import unified_planning as up
from unified_planning.shortcuts import *  # noqa
from unified_planning.model.contingent import ContingentProblem, SensingAction
from unified_planning.model.contingent.execution_environment import SimulatedExecutionEnvironment
from unified_planning.model.fluent import get_all_fluent_exp
from unified_planning.plans import ActionInstance
from unified_planning.exceptions import UPUsageError



def build(rng):
    T = UserType("T")
    objs = [Object(f"o{i}", T) for i in range(rng.randint(2, 3))]
    type_defaults = {}
    if rng.random() < 0.5:
        type_defaults[BoolType()] = rng.choice([True, False])
    if rng.random() < 0.4:
        type_defaults[IntType(0, 5)] = rng.randint(0, 5)
    if rng.random() < 0.3:
        type_defaults[T] = objs[0]
    pr = ContingentProblem("c", initial_defaults=type_defaults)
    pr.add_objects(objs)
    h = Fluent("h", BoolType(), x=T)          # hidden
    k = Fluent("k", BoolType())               # hidden
    v = Fluent("v", BoolType(), x=T)          # visible
    w = Fluent("w", BoolType())
    n = Fluent("n", IntType(0, 5))
    loc = Fluent("loc", T)
    # hidden fluents: default False, default True (per fluent), or the per-type default (which may be True) -- the hidden state chosen by
    # the environment must overwrite whatever the default is
    hd = rng.random()
    if hd < 0.4:
        pr.add_fluent(h, default_initial_value=False)
    elif hd < 0.75 or BoolType() not in type_defaults:
        pr.add_fluent(h, default_initial_value=True)
    else:
        pr.add_fluent(h)
    pr.add_fluent(k, default_initial_value=rng.choice([False, True]))
    # visible fluents: per-fluent default / per-type default / explicit
    if BoolType() in type_defaults and rng.random() < 0.5:
        pr.add_fluent(v)
    else:
        pr.add_fluent(v, default_initial_value=rng.choice([True, False]))
    pr.add_fluent(w, default_initial_value=rng.choice([True, False]))
    if IntType(0, 5) in type_defaults and rng.random() < 0.6:
        pr.add_fluent(n)
    else:
        pr.add_fluent(n, default_initial_value=rng.randint(0, 5))
    if T in type_defaults and rng.random() < 0.6:
        pr.add_fluent(loc)
    else:
        pr.add_fluent(loc, default_initial_value=rng.choice(objs))
    if rng.random() < 0.5:
        pr.set_initial_value(v(objs[0]), rng.choice([True, False]))
    if rng.random() < 0.3:
        pr.set_initial_value(n, rng.randint(0, 5))
    # hidden constraints
    lits = [h(o) for o in objs]
    r = rng.random()
    if r < 0.35:
        pr.add_oneof_initial_constraint(lits)
    elif r < 0.6:
        pr.add_or_initial_constraint(lits)
    elif r < 0.8:
        pr.add_oneof_initial_constraint([lits[0], Not(lits[1])])
        if rng.random() < 0.5:      # otherwise lits[1] is hidden through its negative literal only
            pr.add_unknown_initial_constraint(lits[1])
    else:
        pr.add_or_initial_constraint([Not(lits[0]), lits[1]])
        pr.add_unknown_initial_constraint(lits[0])
    if rng.random() < 0.6:
        pr.add_unknown_initial_constraint(k)
    elif rng.random() < 0.5:
        pr.add_oneof_initial_constraint([k, lits[-1]])
    # actions
    a = InstantaneousAction("a", x=T)
    a.add_precondition(Not(v(a.x)))
    a.add_effect(v(a.x), True)
    a.add_effect(w, h(a.x)) if rng.random() < 0.5 else a.add_effect(w, True, h(a.x))
    if rng.random() < 0.6:
        a.add_increase_effect(n, 1)
    b = InstantaneousAction("b", x=T)
    b.add_precondition(Or(h(b.x), w))
    b.add_effect(loc, b.x)
    b.add_effect(h(b.x), False)
    s1 = SensingAction("s1", x=T)
    s1.add_observed_fluent(h(s1.x))
    if rng.random() < 0.5:
        s1.add_precondition(v(s1.x))
    k_ = rng.random()                             # a sensing action with effects of every kind
    if k_ < 0.2:
        s1.add_effect(w, Not(w))
    elif k_ < 0.4:
        s1.add_increase_effect(n, 1)
    elif k_ < 0.55:
        s1.add_decrease_effect(n, 1)
        s1.add_effect(w, True, h(s1.x))
    elif k_ < 0.7:
        yv = Variable("y", T)
        s1.add_effect(v(yv), False, Not(h(yv)), forall=[yv])
    elif k_ < 0.8:
        s1.add_increase_effect(n, 2, w)
    s2 = SensingAction("s2")
    s2.add_observed_fluents([k(), w()])
    for act in (a, b, s1, s2):
        pr.add_action(act)
    pr.add_goal(And(w, v(objs[0])))
    # observation device
    sa = SensingAction("sense_all")
    for f in pr.fluents:
        for fe in get_all_fluent_exp(pr, f):
            sa.add_observed_fluent(fe)
    pr.add_action(sa)
    return pr, objs


def reference_problem(pr, state):
    ref = Problem("ref")
    for f in pr.fluents:
        ref.add_fluent(f)
    ref.add_objects(pr.all_objects)
    for fe, val in state.items():
        ref.set_initial_value(fe, val)
    for act in pr.actions:
        d = InstantaneousAction(act.name, _parameters=OrderedDict((p.name, p.type) for p in act.parameters))
        for c in act.preconditions:
            d.add_precondition(c)
        for e in act.effects:
            d._add_effect_instance(e.clone())
        ref.add_action(d)
    for g in pr.goals:
        ref.add_goal(g)
    return ref


def scenario(seed, failures, stats):
    rng = random.Random(seed)
    pr, objs = build(rng)
    label = {"seed": seed}

    def bad(what, observed=None):
        if what not in {f["what"] for f in failures}:
            failures.append({"what": what, "concrete": label, "observed": observed})
    random.seed(seed)
    try:
        env = SimulatedExecutionEnvironment(pr)
    except Exception as ex:  # noqa
        bad(f"SimulatedExecutionEnvironment(problem) raises {type(ex).__name__}", str(ex)[:300])
        return
    sense_all = pr.action("sense_all")
    try:
        obs = env.apply(ActionInstance(sense_all))
    except Exception as ex:  # noqa
        bad(f"apply(sense_all) raises {type(ex).__name__}", str(ex)[:300])
        return
    stats["n"] += 1
    # O: all observed
    want_keys = set(sense_all.observed_fluents)
    if set(obs.keys()) != want_keys:
        bad("observation does not cover exactly the observed fluents", f"{sorted(map(str, set(obs) ^ want_keys))}")
        return
    state = dict(obs)
    # H
    def lit_true(l):
        return (not state[l.arg(0)].bool_constant_value()) if l.is_not() else state[l].bool_constant_value()
    for c in pr.oneof_constraints:
        stats["n"] += 1
        if sum(1 for l in c if lit_true(l)) != 1:
            bad("hidden initial state violates a oneof constraint", f"{c} in {{{', '.join(f'{k}={v}' for k, v in state.items() if k.fluent().name in ('h', 'k'))}}}")
    for c in pr.or_constraints:
        stats["n"] += 1
        if not any(lit_true(l) for l in c):
            bad("hidden initial state violates an or constraint", f"{c}")
    # D
    hidden = {(x.arg(0) if x.is_not() else x) for x in pr.hidden_fluents}
    for fe, val in state.items():
        if fe in hidden:
            continue
        stats["n"] += 1
        decl = pr.initial_value(fe)
        if decl is None:
            continue
        if decl != val:
            src = "explicit value" if fe in pr.explicit_initial_values else ("per-fluent default" if fe.fluent() in pr.fluents_defaults else "per-type default")
            bad(f"non-hidden fluent does not start at its declared initial value ({src}, {fe.fluent().type} fluent)", f"{fe}: declared {decl}, environment {val}")
    # X, O, G
    from unified_planning.engines import UPSequentialSimulator
    ref = reference_problem(pr, state)
    sim = UPSequentialSimulator(ref, error_on_failed_checks=False)
    st = sim.get_initial_state()
    acts = [a for a in pr.actions if a.name != "sense_all"]
    for step in range(8):
        act = rng.choice(acts)
        params = tuple(rng.choice(objs) for _ in act.parameters)
        stats["n"] += 1
        stats["distinct"].add((act.name, step))
        ref_next = sim.apply(st, ref.action(act.name), params)
        try:
            ob = env.apply(ActionInstance(act, params))
            ok = True
        except UPUsageError:
            ok = False
        except Exception as ex:  # noqa
            bad(f"apply raises {type(ex).__name__}", f"{act.name}{params}: {ex}"[:300])
            return
        if ok != (ref_next is not None):
            bad(f"applicability differs from the sequential simulator ({'sensing' if isinstance(act, SensingAction) else 'ordinary'} action)",
                f"step {step}: {act.name}{params}: environment {'applies' if ok else 'rejects'}, reference {'applies' if ref_next is not None else 'rejects'}")
            return
        if not ok:
            continue
        st = ref_next
        if isinstance(act, SensingAction):
            subs = dict(zip(act.parameters, params))
            want = {f.substitute(subs): st.get_value(f.substitute(subs)) for f in act.observed_fluents}
            if ob != want:
                bad("observation differs from the current values of the sensed fluents", f"step {step}: {act.name}{params}: {ob} vs {want}")
                return
        elif ob:
            bad("an ordinary action returns a non-empty observation", f"{act.name}: {ob}")
        full = env.apply(ActionInstance(sense_all))
        diff = {str(k): (str(v), str(st.get_value(k))) for k, v in full.items() if st.get_value(k) != v}
        if diff:
            bad(f"state after {'a sensing action with effects' if isinstance(act, SensingAction) else 'an ordinary action'} differs from the sequential simulator's successor",
                f"step {step}: {act.name}{params}: {diff}")
            return
        if env.is_goal_reached() != sim.is_goal(st):
            bad("is_goal_reached differs from the sequential simulator", f"step {step}")
            return


def bounded(tier, seed):
    n = 60 if tier == "quick" else 1200
    failures, stats = [], {"n": 0, "distinct": set()}
    with warnings.catch_warnings():
        warnings.simplefilter("ignore")
        for i in range(n):
            scenario(seed * 100003 + i, failures, stats)
            if len(failures) >= 10:
                break
    return {"evaluations": stats["n"], "distinct_nontrivial": len(stats["distinct"]), "failures": failures[:10],
            "rule": f"{n} generated contingent problems x one random seed each x 8 random actions; evaluation = one constraint / declared value / step compared",
            "samples": [{"actions": ["a", "b", "s1 (sensing, may have an effect)", "s2 (sensing)", "sense_all (observation device)"]}], "bound": f"{n} problems, 8 steps"}


def replay_file(data):
    c = data.get("concrete") or {}
    failures, stats = [], {"n": 0, "distinct": set()}
    with warnings.catch_warnings():
        warnings.simplefilter("ignore")
        scenario(c.get("seed", 0), failures, stats)
    return {"reproduced": bool(failures), "concrete": c, "observed": [f["what"] for f in failures][:4]}


# ======================================================================================================= proved layer
import z3
from pyvc.values import (Ref, Seq, Map, Set, Opt, Str, SBool, SRef, SUnion, SSeq, SMap, SSet, Rec, CList, Loc, fresh_name, zbool, zint,
                         Unsupported as _Unsupported)
from pyvc.values import Bool as PBool
from pyvc.verify import Unit
from pyvc.engine import LoopSpec
from pyvc import builtins as B
import unified_planning.model.contingent.execution_environment as _ee
import unified_planning.model.contingent.sensing_action as _sa

Env35, Type35, Obj35, Metric35, FN35, Eff35, Param35 = (Ref(n) for n in ("Environment35", "Type35", "Object35", "Metric35", "FNode35", "Effect35", "Parameter35"))
Type35.observers["is_bool_type"] = ((), PBool)
Fluent35 = Ref("Fluent35", fields={"type": Type35})
Eff35.methods["clone"] = lambda eng, st, e, args, kw: iter([(st, Eff35.wrap(z3.Function("Effect35.clone", Eff35.z3sort(), Eff35.z3sort())(e.z)))])
_ECLONE = z3.Function("Effect35.clone", Eff35.z3sort(), Eff35.z3sort())
Action35 = Ref("Action35", fields={"name": Str, "parameters": Seq(Param35), "preconditions": Seq(FN35), "effects": Seq(Eff35)})
_ACLONE = z3.Function("Action35.clone", Action35.z3sort(), Action35.z3sort())
Action35.methods["clone"] = lambda eng, st, a, args, kw: iter([(st, Action35.wrap(_ACLONE(a.z)))])
is_sensing35 = B._uf("Action35.is_sensing", Action35.z3sort(), z3.BoolSort())
Action35.pycls = object
Action35.isinstance_hook = lambda e, st, v, clss: SBool(is_sensing35(v.z))
CProblem35 = Ref("ContingentProblem35", fields={
    "name": Str, "environment": Env35, "fluents": Seq(Fluent35), "fluents_defaults": Map(Fluent35, FN35), "all_objects": Seq(Obj35),
    "explicit_initial_values": Map(FN35, FN35, ordered=True), "hidden_fluents": Set(FN35), "actions": Seq(Action35), "goals": Seq(FN35),
    "quality_metrics": Seq(Metric35)})
Param35.fields.update({"name": Str, "type": Type35})
QNC = "unified_planning.model.contingent.execution_environment.SimulatedExecutionEnvironment._get_stateless_deterministic_problem_clone"
_F, _A, _K, _E = Fluent35.z3sort(), Action35.z3sort(), FN35.z3sort(), Eff35.z3sort()


class DetProblem:
    """marker class of the record standing for the plain Problem under construction (its methods are placeholders: every call goes
    through the contract registered for it)"""

    def add_fluent(self, *a, **k): pass              # noqa: E704
    def add_objects(self, *a, **k): pass             # noqa: E704
    def set_initial_value(self, *a, **k): pass       # noqa: E704
    def add_action(self, *a, **k): pass              # noqa: E704
    def add_goal(self, *a, **k): pass                # noqa: E704
    def add_quality_metric(self, *a, **k): pass      # noqa: E704


class Dummy:
    """marker class of the record standing for the plain action built for a sensing action"""

    def add_precondition(self, *a, **k): pass        # noqa: E704
    def _add_effect_instance(self, *a, **k): pass    # noqa: E704


def _new_problem(eng, st, args, kw):
    g = {"_g_fluents": st.alloc(SSet.empty(Fluent35), "set"),                      # fluents added
         "_g_dkind": st.alloc(SMap(Fluent35, __import__("pyvc.values", fromlist=["Int"]).Int, z3.K(_F, z3.BoolVal(False)), z3.K(_F, z3.IntVal(-1))), "dict"),
         "_g_dnode": st.alloc(SMap(Fluent35, FN35, z3.K(_F, z3.BoolVal(False)), z3.Array(fresh_name("dnode"), _F, _K)), "dict"),
         "_g_init": st.alloc(SMap(FN35, FN35, z3.K(_K, z3.BoolVal(False)), z3.Array(fresh_name("init"), _K, _K)), "dict"),
         "_g_plain": st.alloc(SSet.empty(Action35), "set"),                         # originals whose clone was added
         "_g_dummies": st.alloc(SSet.empty(Action35), "set"),                       # sensing originals for which a complete dummy was added
         "_g_goals": st.alloc(SSet.empty(FN35), "set"), "_g_metrics": st.alloc(SSet.empty(Metric35), "set"),
         "_g_objects": None, "name": args[0] if args else None}
    yield st, st.alloc(Rec(DetProblem, g), "deterministic_problem")


def _store(st, rec, field, fn):
    loc = st.getfield(rec, field)
    st.store(loc, fn(st.load(loc)))


def _m_add_fluent(eng, st, det, args, kw):
    fl = args[0]
    dv = kw.get("default_initial_value", args[1] if len(args) > 1 else None)
    for s, d in eng.force(st, dv):
        _store(s, det, "_g_fluents", lambda c: c.add(fl))
        if d is None:
            kind = 0
        elif d is False:
            kind = 1
        elif isinstance(d, SRef):
            kind = 2
            _store(s, det, "_g_dnode", lambda c: c.store(fl, d))
        else:
            raise _Unsupported(f"default value {d!r}")
        _store(s, det, "_g_dkind", lambda c: c.store(fl, kind))
        yield s, None


def _rec_methods():
    """methods of the two marker records, dispatched by the engine through class_models-free contracts"""
    def add_objects(eng, st, args, kw):
        st.setfield(args[0], "_g_objects", args[1])
        yield st, None

    def set_initial_value(eng, st, args, kw):
        _store(st, args[0], "_g_init", lambda c: c.store(args[1], args[2]))
        yield st, None

    def add_action(eng, st, args, kw):
        det, a = args[0], args[1]
        if isinstance(a, Loc):            # a dummy: complete iff it carries the original's name, every precondition and clones of all effects
            d = st.load(a).fields
            orig = d["_orig"]
            pre, eff = st.load(d["_g_pre"]), st.load(d["_g_eff"])
            ps, es = B.field_uf(eng, st, orig, "preconditions"), B.field_uf(eng, st, orig, "effects")
            j = z3.Int(fresh_name("j"))
            complete = z3.And(zbool(B.equal(eng, st, d["name"], B.field_uf(eng, st, orig, "name"))),
                              z3.ForAll([j], z3.Implies(z3.And(0 <= j, j < ps.n), z3.Select(pre.has, z3.Select(ps.arr, j)))),
                              z3.ForAll([j], z3.Implies(z3.And(0 <= j, j < es.n), z3.Select(eff.has, _ECLONE(z3.Select(es.arr, j))))))
            st.oblige("the plain action added for a sensing action has its name, all its preconditions and clones of all its effects", complete)
            _store(st, det, "_g_dummies", lambda c: c.add(orig))
        else:
            x = z3.Const(fresh_name("x"), _A)
            st.oblige("a non-sensing action is added as a clone of itself", z3.Exists([x], a.z == _ACLONE(x)))
            cur = st.load(st.getfield(det, "_g_plain"))
            k = z3.Const(fresh_name("k"), _A)
            st.store(st.getfield(det, "_g_plain"), SSet(Action35, z3.Lambda([k], z3.Or(z3.Select(cur.has, k), _ACLONE(k) == a.z))))
        yield st, None

    def add_goal(eng, st, args, kw):
        _store(st, args[0], "_g_goals", lambda c: c.add(args[1]))
        yield st, None

    def add_metric(eng, st, args, kw):
        _store(st, args[0], "_g_metrics", lambda c: c.add(args[1]))
        yield st, None

    def add_precondition(eng, st, args, kw):
        _store(st, args[0], "_g_pre", lambda c: c.add(args[1]))
        yield st, None

    def add_effect_instance(eng, st, args, kw):
        _store(st, args[0], "_g_eff", lambda c: c.add(args[1]))
        yield st, None
    return {"add_objects": add_objects, "set_initial_value": set_initial_value, "add_action": add_action, "add_goal": add_goal,
            "add_quality_metric": add_metric, "add_precondition": add_precondition, "_add_effect_instance": add_effect_instance}


def _in_prefix(seq, i, pred):
    j = z3.Int(fresh_name("j"))
    return z3.ForAll([j], z3.Implies(z3.And(0 <= j, j < i), pred(z3.Select(seq.arr, j))))


class DeterministicClone(Unit):
    prop = "C35"
    name = "SimulatedExecutionEnvironment._get_stateless_deterministic_problem_clone"
    doc = "every fluent with the declared default, every visible explicit value (no hidden one), every action / goal / metric reaches the plain problem"

    def target(self):
        return _ee.SimulatedExecutionEnvironment._get_stateless_deterministic_problem_clone

    def configure(self, eng):
        import unified_planning as up_
        eng.opaque_dictcomp = True
        eng.contracts[up_.model.Problem] = _new_problem
        m = _rec_methods()
        for nm in ("add_objects", "set_initial_value", "add_action", "add_goal", "add_quality_metric"):
            eng.contracts[getattr(DetProblem, nm)] = m[nm]
        for nm in ("add_precondition", "_add_effect_instance"):
            eng.contracts[getattr(Dummy, nm)] = m[nm]
        eng.contracts[DetProblem.add_fluent] = lambda e, st, args, kw: _m_add_fluent(e, st, args[0], args[1:], kw)

        def new_dummy(eng_, st, args, kw):
            orig = st.frame.vars.get("action")
            yield st, st.alloc(Rec(Dummy, {"name": args[0], "_orig": orig, "_g_pre": st.alloc(SSet.empty(FN35), "set"),
                                           "_g_eff": st.alloc(SSet.empty(Eff35), "set")}), "dummy")
        eng.contracts[up_.model.InstantaneousAction] = new_dummy
        from collections import OrderedDict as _OD
        eng.contracts[_OD] = lambda e, st, args, kw: iter([(st, args[0] if args else None)])

        def det(L):
            return L.deterministic_problem

        def g(L, f):
            return L.st.load(L.st.getfield(det(L), f))

        def grows(L, f):
            now, pre = g(L, f), L._pre.st.load(L._pre.st.getfield(det(L), f))
            x = z3.Const(fresh_name("x"), now.tk.z3sort())
            return z3.ForAll([x], z3.Implies(z3.Select(pre.has, x), z3.Select(now.has, x)))
        prob = lambda L: L.problem   # noqa: E731

        def inv_fluents(L):
            p = prob(L)
            dflt = B.field_uf(L._eng, L.st, p, "fluents_defaults")
            dk, dn, fl = g(L, "_g_dkind"), g(L, "_g_dnode"), g(L, "_g_fluents")
            isb = lambda f: B._uf("Type35.is_bool_type()", Type35.z3sort(), z3.BoolSort())(B._uf("Fluent35.type", _F, Type35.z3sort())(f))   # noqa: E731

            def ok(f):
                return z3.And(z3.Select(fl.has, f), z3.Select(dk.has, f),
                              z3.If(z3.Select(dflt.has, f), z3.And(z3.Select(dk.val, f) == 2, z3.Select(dn.has, f), z3.Select(dn.val, f) == z3.Select(dflt.val, f)),
                                    z3.Select(dk.val, f) == z3.If(isb(f), 1, 0)))
            # a fluent occurs once in problem.fluents (names are unique): later iterations do not overwrite an earlier record
            return [("every scanned fluent is added with the declared default (per-fluent, else False for Booleans, else none)", _in_prefix(L._seq, zint(L._i), ok))]
        # NB: distinctness of problem.fluents is assumed in setup

        def inv_init(L):
            p = prob(L)
            items = L._seq
            hid = B.field_uf(L._eng, L.st, p, "hidden_fluents")
            init = g(L, "_g_init")
            k = z3.Const(fresh_name("k"), _K)
            src, idx = items.m, items.idx
            return [("set initial values == the scanned explicit values of non-hidden fluents",
                     z3.ForAll([k], z3.And(z3.Select(init.has, k) == z3.And(z3.Select(src.has, k), z3.Select(idx, k) < zint(L._i), z3.Not(z3.Select(hid.has, k))),
                                           z3.Implies(z3.Select(init.has, k), z3.Select(init.val, k) == z3.Select(src.val, k)))))]

        def inv_actions(L):
            pl, du = g(L, "_g_plain"), g(L, "_g_dummies")
            return [("every scanned action reached the plain problem (clone, or complete plain copy of a sensing action)",
                     _in_prefix(L._seq, zint(L._i), lambda a: z3.If(is_sensing35(a), z3.Select(du.has, a), z3.Select(pl.has, a)))),
                    ("recorded plain actions stay recorded", grows(L, "_g_plain")), ("recorded dummies stay recorded", grows(L, "_g_dummies"))]

        def inv_dummy(field, fld_src, wrap):
            def inv(L):
                d = L.dummy
                cur = L.st.load(L.st.getfield(d, field))
                pre = L._pre.st.load(L._pre.st.getfield(d, field))
                x = z3.Const(fresh_name("x"), cur.tk.z3sort())
                return [(f"the scanned {fld_src} are in the plain action", _in_prefix(L._seq, zint(L._i), lambda e_: z3.Select(cur.has, wrap(e_)))),
                        (f"{fld_src} recorded before stay recorded", z3.ForAll([x], z3.Implies(z3.Select(pre.has, x), z3.Select(cur.has, x))))]
            return inv

        def inv_set(field, what):
            def inv(L):
                cur = g(L, field)
                return [(f"every scanned {what} is copied", _in_prefix(L._seq, zint(L._i), lambda x: z3.Select(cur.has, x))), (f"{what}s stay", grows(L, field))]
            return inv
        D = "deterministic_problem."
        eng.loops[(QNC, 0)] = LoopSpec(inv_fluents, modifies=["fluent", "default_value", D + "_g_fluents", D + "_g_dkind", D + "_g_dnode"],
                                       types={D + "_g_fluents": Set(Fluent35), D + "_g_dkind": Map(Fluent35, __import__("pyvc.values", fromlist=["Int"]).Int), D + "_g_dnode": Map(Fluent35, FN35)})
        eng.loops[(QNC, 1)] = LoopSpec(inv_init, modifies=["f", "v", D + "_g_init"], types={D + "_g_init": Map(FN35, FN35)})
        eng.loops[(QNC, 2)] = LoopSpec(inv_actions, modifies=["action", "params", "dummy", "precond", "effect", D + "_g_plain", D + "_g_dummies"],
                                       types={D + "_g_plain": Set(Action35), D + "_g_dummies": Set(Action35)})
        eng.loops[(QNC, 3)] = LoopSpec(inv_dummy("_g_pre", "preconditions", lambda e_: e_), modifies=["precond", "dummy._g_pre"], types={"dummy._g_pre": Set(FN35)})
        eng.loops[(QNC, 4)] = LoopSpec(inv_dummy("_g_eff", "effects", lambda e_: _ECLONE(e_)), modifies=["effect", "dummy._g_eff"], types={"dummy._g_eff": Set(Eff35)})
        eng.loops[(QNC, 5)] = LoopSpec(inv_set("_g_goals", "goal"), modifies=["g", D + "_g_goals"], types={D + "_g_goals": Set(FN35)})
        eng.loops[(QNC, 6)] = LoopSpec(inv_set("_g_metrics", "metric"), modifies=["metric", D + "_g_metrics"], types={D + "_g_metrics": Set(Metric35)})

    def setup(self, eng, st):
        w = st.alloc(Rec(_ee.SimulatedExecutionEnvironment, {}), "environment")
        p = CProblem35.fresh("problem")
        fl = B.field_uf(eng, st, p, "fluents")
        a, b = z3.Int(fresh_name("a")), z3.Int(fresh_name("b"))
        st.assume(z3.ForAll([a, b], z3.Implies(z3.And(0 <= a, a < b, b < fl.n), z3.Select(fl.arr, a) != z3.Select(fl.arr, b))))   # fluents are pairwise distinct
        return [w, p], {}, dict(p=p)

    def post(self, eng, ctx, st, out):
        if out[0] != "return":
            return
        p, det = ctx["p"], out[1]
        g = lambda f: st.load(st.getfield(det, f))    # noqa: E731
        fl = B.field_uf(eng, st, p, "fluents")
        dflt = B.field_uf(eng, st, p, "fluents_defaults")
        dk, dn, flset = g("_g_dkind"), g("_g_dnode"), g("_g_fluents")
        isb = lambda f: B._uf("Type35.is_bool_type()", Type35.z3sort(), z3.BoolSort())(B._uf("Fluent35.type", _F, Type35.z3sort())(f))   # noqa: E731
        j = z3.Int(fresh_name("j"))
        f = z3.Select(fl.arr, j)
        st.oblige("every fluent is added with the declared default (per-fluent / per-type), else False for a Boolean fluent, else no default",
                  z3.ForAll([j], z3.Implies(z3.And(0 <= j, j < fl.n), z3.And(
                      z3.Select(flset.has, f), z3.If(z3.Select(dflt.has, f), z3.And(z3.Select(dk.val, f) == 2, z3.Select(dn.val, f) == z3.Select(dflt.val, f)),
                                                     z3.Select(dk.val, f) == z3.If(isb(f), 1, 0))))))
        ex = B.field_uf(eng, st, p, "explicit_initial_values")
        hid = B.field_uf(eng, st, p, "hidden_fluents")
        init = g("_g_init")
        k = z3.Const(fresh_name("k"), _K)
        st.oblige("exactly the explicit initial values of non-hidden fluents are set, with their values",
                  z3.ForAll([k], z3.And(z3.Select(init.has, k) == z3.And(z3.Select(ex.has, k), z3.Not(z3.Select(hid.has, k))),
                                        z3.Implies(z3.Select(init.has, k), z3.Select(init.val, k) == z3.Select(ex.val, k)))))
        acts = B.field_uf(eng, st, p, "actions")
        pl, du = g("_g_plain"), g("_g_dummies")
        a = z3.Select(acts.arr, j)
        st.oblige("every action reaches the plain problem: a clone, or for a sensing action a plain action with its name, preconditions and effect clones",
                  z3.ForAll([j], z3.Implies(z3.And(0 <= j, j < acts.n), z3.If(is_sensing35(a), z3.Select(du.has, a), z3.Select(pl.has, a)))))
        goals, ms = B.field_uf(eng, st, p, "goals"), B.field_uf(eng, st, p, "quality_metrics")
        st.oblige("every goal is copied", z3.ForAll([j], z3.Implies(z3.And(0 <= j, j < goals.n), z3.Select(g("_g_goals").has, z3.Select(goals.arr, j)))))
        st.oblige("every quality metric is copied", z3.ForAll([j], z3.Implies(z3.And(0 <= j, j < ms.n), z3.Select(g("_g_metrics").has, z3.Select(ms.arr, j)))))
        objs = st.getfield(det, "_g_objects")
        st.oblige("all objects are added", z3.BoolVal(isinstance(objs, SSeq) and z3.eq(objs.arr, B.field_uf(eng, st, p, "all_objects").arr)))


UNITS = [DeterministicClone()]
LEVEL = "other"
EXPLANATION = __doc__
TRUSTED = ["bounded stand-in only (the environment builds a problem, calls pysmt and the simulator: no function-level contract decides the property)",
           "reference for action execution is the real UPSequentialSimulator (bounded-checked in C01/C02) on an independently built problem",
           "max_constraints is left at its default (all constraints)"]
USES_THEORY = False

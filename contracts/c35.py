"""C35 — the simulated execution environment is faithful to its contingent problem.

Bounded run-time contract (public API only: a `sense_all` sensing action added to every generated problem observes every
ground fluent, so the hidden state is read through `apply`):
  H  the hidden initial state satisfies every oneof (exactly one literal true) and or (at least one) constraint,
     including constraints over negated literals and `unknown` fluents;
  D  every ground fluent that is not hidden has the problem's declared initial value (explicit, per-fluent default,
     per-type default -- Boolean, bounded-int and object fluents);
  X  random action sequences: an action raises UPUsageError exactly when the reference says it is not applicable,
     otherwise the environment's next observed state equals the reference successor; the reference is the real
     UPSequentialSimulator (bounded-checked against the written semantics in C01) on an independently built plain
     Problem whose initial state is the observed one and whose sensing actions keep their preconditions and effects;
  O  observations returned by a sensing action are exactly the current values of its observed fluents;
  G  is_goal_reached agrees with the reference after every step.
"""
import random
import warnings
from collections import OrderedDict

import unified_planning as up
from unified_planning.shortcuts import *  # noqa
from unified_planning.model.contingent import ContingentProblem, SensingAction
from unified_planning.model.contingent.execution_environment import SimulatedExecutionEnvironment
from unified_planning.model.fluent import get_all_fluent_exp
from unified_planning.plans import ActionInstance
from unified_planning.exceptions import UPUsageError

UNITS = []


def build(rng):
    T = UserType("T")
    objs = [Object(f"o{i}", T) for i in range(rng.randint(2, 3))]
    type_defaults = {}
    if rng.random() < 0.5:
        type_defaults[BoolType()] = rng.choice([True, False])
    if rng.random() < 0.4:
        type_defaults[IntType(0, 5)] = rng.randint(0, 5)
    if rng.random() < 0.3:
        type_defaults[T] = objs[0]
    pr = ContingentProblem("c", initial_defaults=type_defaults)
    pr.add_objects(objs)
    h = Fluent("h", BoolType(), x=T)          # hidden
    k = Fluent("k", BoolType())               # hidden
    v = Fluent("v", BoolType(), x=T)          # visible
    w = Fluent("w", BoolType())
    n = Fluent("n", IntType(0, 5))
    loc = Fluent("loc", T)
    pr.add_fluent(h, default_initial_value=False)
    pr.add_fluent(k, default_initial_value=False)
    # visible fluents: per-fluent default / per-type default / explicit
    if BoolType() in type_defaults and rng.random() < 0.5:
        pr.add_fluent(v)
    else:
        pr.add_fluent(v, default_initial_value=rng.choice([True, False]))
    pr.add_fluent(w, default_initial_value=rng.choice([True, False]))
    if IntType(0, 5) in type_defaults and rng.random() < 0.6:
        pr.add_fluent(n)
    else:
        pr.add_fluent(n, default_initial_value=rng.randint(0, 5))
    if T in type_defaults and rng.random() < 0.6:
        pr.add_fluent(loc)
    else:
        pr.add_fluent(loc, default_initial_value=rng.choice(objs))
    if rng.random() < 0.5:
        pr.set_initial_value(v(objs[0]), rng.choice([True, False]))
    if rng.random() < 0.3:
        pr.set_initial_value(n, rng.randint(0, 5))
    # hidden constraints
    lits = [h(o) for o in objs]
    r = rng.random()
    if r < 0.35:
        pr.add_oneof_initial_constraint(lits)
    elif r < 0.6:
        pr.add_or_initial_constraint(lits)
    elif r < 0.8:
        pr.add_oneof_initial_constraint([lits[0], Not(lits[1])])
        if rng.random() < 0.5:      # otherwise lits[1] is hidden through its negative literal only
            pr.add_unknown_initial_constraint(lits[1])
    else:
        pr.add_or_initial_constraint([Not(lits[0]), lits[1]])
        pr.add_unknown_initial_constraint(lits[0])
    if rng.random() < 0.6:
        pr.add_unknown_initial_constraint(k)
    elif rng.random() < 0.5:
        pr.add_oneof_initial_constraint([k, lits[-1]])
    # actions
    a = InstantaneousAction("a", x=T)
    a.add_precondition(Not(v(a.x)))
    a.add_effect(v(a.x), True)
    a.add_effect(w, h(a.x)) if rng.random() < 0.5 else a.add_effect(w, True, h(a.x))
    if rng.random() < 0.6:
        a.add_increase_effect(n, 1)
    b = InstantaneousAction("b", x=T)
    b.add_precondition(Or(h(b.x), w))
    b.add_effect(loc, b.x)
    b.add_effect(h(b.x), False)
    s1 = SensingAction("s1", x=T)
    s1.add_observed_fluent(h(s1.x))
    if rng.random() < 0.5:
        s1.add_precondition(v(s1.x))
    k_ = rng.random()                             # a sensing action with effects of every kind
    if k_ < 0.2:
        s1.add_effect(w, Not(w))
    elif k_ < 0.4:
        s1.add_increase_effect(n, 1)
    elif k_ < 0.55:
        s1.add_decrease_effect(n, 1)
        s1.add_effect(w, True, h(s1.x))
    elif k_ < 0.7:
        yv = Variable("y", T)
        s1.add_effect(v(yv), False, Not(h(yv)), forall=[yv])
    elif k_ < 0.8:
        s1.add_increase_effect(n, 2, w)
    s2 = SensingAction("s2")
    s2.add_observed_fluents([k(), w()])
    for act in (a, b, s1, s2):
        pr.add_action(act)
    pr.add_goal(And(w, v(objs[0])))
    # observation device
    sa = SensingAction("sense_all")
    for f in pr.fluents:
        for fe in get_all_fluent_exp(pr, f):
            sa.add_observed_fluent(fe)
    pr.add_action(sa)
    return pr, objs


def reference_problem(pr, state):
    ref = Problem("ref")
    for f in pr.fluents:
        ref.add_fluent(f)
    ref.add_objects(pr.all_objects)
    for fe, val in state.items():
        ref.set_initial_value(fe, val)
    for act in pr.actions:
        d = InstantaneousAction(act.name, _parameters=OrderedDict((p.name, p.type) for p in act.parameters))
        for c in act.preconditions:
            d.add_precondition(c)
        for e in act.effects:
            d._add_effect_instance(e.clone())
        ref.add_action(d)
    for g in pr.goals:
        ref.add_goal(g)
    return ref


def scenario(seed, failures, stats):
    rng = random.Random(seed)
    pr, objs = build(rng)
    label = {"seed": seed}

    def bad(what, observed=None):
        if what not in {f["what"] for f in failures}:
            failures.append({"what": what, "concrete": label, "observed": observed})
    random.seed(seed)
    try:
        env = SimulatedExecutionEnvironment(pr)
    except Exception as ex:  # noqa
        bad(f"SimulatedExecutionEnvironment(problem) raises {type(ex).__name__}", str(ex)[:300])
        return
    sense_all = pr.action("sense_all")
    try:
        obs = env.apply(ActionInstance(sense_all))
    except Exception as ex:  # noqa
        bad(f"apply(sense_all) raises {type(ex).__name__}", str(ex)[:300])
        return
    stats["n"] += 1
    # O: all observed
    want_keys = set(sense_all.observed_fluents)
    if set(obs.keys()) != want_keys:
        bad("observation does not cover exactly the observed fluents", f"{sorted(map(str, set(obs) ^ want_keys))}")
        return
    state = dict(obs)
    # H
    def lit_true(l):
        return (not state[l.arg(0)].bool_constant_value()) if l.is_not() else state[l].bool_constant_value()
    for c in pr.oneof_constraints:
        stats["n"] += 1
        if sum(1 for l in c if lit_true(l)) != 1:
            bad("hidden initial state violates a oneof constraint", f"{c} in {{{', '.join(f'{k}={v}' for k, v in state.items() if k.fluent().name in ('h', 'k'))}}}")
    for c in pr.or_constraints:
        stats["n"] += 1
        if not any(lit_true(l) for l in c):
            bad("hidden initial state violates an or constraint", f"{c}")
    # D
    hidden = {(x.arg(0) if x.is_not() else x) for x in pr.hidden_fluents}
    for fe, val in state.items():
        if fe in hidden:
            continue
        stats["n"] += 1
        decl = pr.initial_value(fe)
        if decl is None:
            continue
        if decl != val:
            src = "explicit value" if fe in pr.explicit_initial_values else ("per-fluent default" if fe.fluent() in pr.fluents_defaults else "per-type default")
            bad(f"non-hidden fluent does not start at its declared initial value ({src}, {fe.fluent().type} fluent)", f"{fe}: declared {decl}, environment {val}")
    # X, O, G
    from unified_planning.engines import UPSequentialSimulator
    ref = reference_problem(pr, state)
    sim = UPSequentialSimulator(ref, error_on_failed_checks=False)
    st = sim.get_initial_state()
    acts = [a for a in pr.actions if a.name != "sense_all"]
    for step in range(8):
        act = rng.choice(acts)
        params = tuple(rng.choice(objs) for _ in act.parameters)
        stats["n"] += 1
        stats["distinct"].add((act.name, step))
        ref_next = sim.apply(st, ref.action(act.name), params)
        try:
            ob = env.apply(ActionInstance(act, params))
            ok = True
        except UPUsageError:
            ok = False
        except Exception as ex:  # noqa
            bad(f"apply raises {type(ex).__name__}", f"{act.name}{params}: {ex}"[:300])
            return
        if ok != (ref_next is not None):
            bad(f"applicability differs from the sequential simulator ({'sensing' if isinstance(act, SensingAction) else 'ordinary'} action)",
                f"step {step}: {act.name}{params}: environment {'applies' if ok else 'rejects'}, reference {'applies' if ref_next is not None else 'rejects'}")
            return
        if not ok:
            continue
        st = ref_next
        if isinstance(act, SensingAction):
            subs = dict(zip(act.parameters, params))
            want = {f.substitute(subs): st.get_value(f.substitute(subs)) for f in act.observed_fluents}
            if ob != want:
                bad("observation differs from the current values of the sensed fluents", f"step {step}: {act.name}{params}: {ob} vs {want}")
                return
        elif ob:
            bad("an ordinary action returns a non-empty observation", f"{act.name}: {ob}")
        full = env.apply(ActionInstance(sense_all))
        diff = {str(k): (str(v), str(st.get_value(k))) for k, v in full.items() if st.get_value(k) != v}
        if diff:
            bad(f"state after {'a sensing action with effects' if isinstance(act, SensingAction) else 'an ordinary action'} differs from the sequential simulator's successor",
                f"step {step}: {act.name}{params}: {diff}")
            return
        if env.is_goal_reached() != sim.is_goal(st):
            bad("is_goal_reached differs from the sequential simulator", f"step {step}")
            return


def bounded(tier, seed):
    n = 60 if tier == "quick" else 1200
    failures, stats = [], {"n": 0, "distinct": set()}
    with warnings.catch_warnings():
        warnings.simplefilter("ignore")
        for i in range(n):
            scenario(seed * 100003 + i, failures, stats)
            if len(failures) >= 10:
                break
    return {"evaluations": stats["n"], "distinct_nontrivial": len(stats["distinct"]), "failures": failures[:10],
            "rule": f"{n} generated contingent problems x one random seed each x 8 random actions; evaluation = one constraint / declared value / step compared",
            "samples": [{"actions": ["a", "b", "s1 (sensing, may have an effect)", "s2 (sensing)", "sense_all (observation device)"]}], "bound": f"{n} problems, 8 steps"}


def replay_file(data):
    c = data.get("concrete") or {}
    failures, stats = [], {"n": 0, "distinct": set()}
    with warnings.catch_warnings():
        warnings.simplefilter("ignore")
        scenario(c.get("seed", 0), failures, stats)
    return {"reproduced": bool(failures), "concrete": c, "observed": [f["what"] for f in failures][:4]}


LEVEL = "exploration"
EXPLANATION = __doc__
TRUSTED = ["bounded stand-in only (the environment builds a problem, calls pysmt and the simulator: no function-level contract decides the property)",
           "reference for action execution is the real UPSequentialSimulator (bounded-checked in C01/C02) on an independently built problem",
           "max_constraints is left at its default (all constraints)"]
USES_THEORY = False

"""C34 — HTN task-network ordering extraction is exact.

P: the classification loop of `ordering` (a network is 'qualitative' iff every temporal constraint
is LT(end(a), start(b)) with zero delays and containers) -- executed symbolically on the real
source with the constraint list unrolled for lengths 0..3 (labelled bounded(len<=3)).
B (exhaustive): every precedence relation over <= 4 (quick) / <= 5 (thorough) subtasks on the real
TaskNetwork API against a brute-force count of linear extensions; plus networks with one
non-precedence temporal constraint.
"""
import itertools
import random
from fractions import Fraction
import z3
from pyvc.values import *  # noqa
from pyvc.verify import Unit
from pyvc import builtins as B
from . import theory as T

import unified_planning.model.htn.ordering as ordmod
import unified_planning.model.timing as tm
from unified_planning.model.operators import OperatorKind as OK

TPK = Enum(tm.TimepointKind)
TimepointT = Ref("Timepoint", tm.Timepoint, fields={"_kind": TPK, "_container": Opt(Str)})
TimingT = Ref("Timing", tm.Timing, fields={"_delay": Num, "_timepoint": TimepointT})
T.PAYLOAD[OK.TIMING_EXP] = TimingT


def is_precedence(eng, st, c):
    """spec: c == LT(timing_exp(end(a)+0), timing_exp(start(b)+0)) with containers"""
    C = T.OKT.consts
    args = T.fnode_args(eng, st, c)
    l, r = args.at(0), args.at(1)

    def side(x, kind):
        tmg = T.B.uf_value(eng, st, "FNode.payload.TIMING_EXP", [x.z], [T.FNode.z3sort()], TimingT)
        d = B.field_uf(eng, st, tmg, "_delay")
        dz = z3.If(d.alts[0][0], z3.ToReal(d.alts[0][1].z), d.alts[1][1].z)
        tp = B.field_uf(eng, st, tmg, "_timepoint")
        cont = B.field_uf(eng, st, tp, "_container")
        return z3.And(T.node_type(x.z) == C[OK.TIMING_EXP], dz == 0,
                      B.field_uf(eng, st, tp, "_kind").z == TPK.consts[kind], z3.Not(cont.is_none().z))
    return z3.And(T.node_type(c.z) == C[OK.LT], side(l, tm.TimepointKind.END), side(r, tm.TimepointKind.START))


class Classification(Unit):
    prop = "C34"
    name = "ordering:classification"
    doc = "result is a plain TemporalConstraints iff some constraint is not an end-before-start precedence"

    def target(self):
        return ordmod.ordering

    def configure(self, eng):
        # AnyChecker precondition (every constraint mentions a timing) is an assert on the input
        def any_contract(eng_, st, args, kw):
            yield st, True
        from unified_planning.model.walkers import AnyChecker
        eng.contracts[AnyChecker.any] = any_contract
        eng.contracts[AnyChecker.__init__] = lambda e, st, args, kw: iter([(st, None)])

        def bto(eng_, st, args, kw):
            st.ghost["bto_called"] = True
            st.ghost["bto_prec"] = args[1]
            yield st, SUnion([(z3.Bool(fresh_name("total")), None), (z3.BoolVal(True), None)][:1] )
        # _build_total_order is decided exhaustively in the bounded layer; here: opaque Optional result
        def bto2(eng_, st, args, kw):
            st.ghost["bto_called"] = True
            yield st, None
        eng.contracts[ordmod._build_total_order] = bto2
        eng.contracts[ordmod.PartialOrder.__init__] = lambda e, st, args, kw: iter([(st, None)])
        eng.contracts[ordmod.TemporalConstraints.__init__] = lambda e, st, args, kw: iter([(st, None)])
        eng.UNROLL = 3

    def setup(self, eng, st):
        ids = Seq(Str).fresh("task_ids")
        st.assume(ids.n >= 0, ids.n <= 2)
        cs = eng.fresh_of(st, Seq(T.FNode), "time_constraints")
        C = T.OKT.consts
        j = z3.Int(fresh_name("j"))
        # LT nodes are binary (constructor invariant, C16)
        st.assume(z3.ForAll([j], z3.Implies(T.node_type(z3.Select(cs.arr, j)) == C[OK.LT],
                                            B._uf("FNode.args.len", T.FNode.z3sort(), z3.IntSort())(z3.Select(cs.arr, j)) == 2)))
        st.ghost["bto_called"] = False
        return [st.alloc(ids, "list"), st.alloc(cs, "list")], {}, dict(cs=cs)

    def post(self, eng, ctx, st, out):
        if out[0] != "return":
            return
        cs = ctx["cs"]
        r = out[1]
        cls = st.load(r).cls
        n = None
        for k in range(0, eng.UNROLL + 1):
            if not eng.feasible(st, cs.n != k):
                n = k
                break
        if n is None:
            st.oblige("length of the constraint list fixed on this path (bounded unrolling)", z3.BoolVal(False))
            return
        allp = [is_precedence(eng, st, cs.at(i)) for i in range(n)]
        qual = z3.And(allp) if allp else z3.BoolVal(True)
        if cls is ordmod.TemporalConstraints:
            st.oblige("plain TemporalConstraints only if some constraint is not a precedence", z3.Not(qual))
        else:
            st.oblige("partial/total order only if all constraints are precedences", qual)
            st.oblige("total-order builder consulted", z3.BoolVal(bool(st.ghost["bto_called"])))


def replay_concrete(c):
    """native: a network with one non-precedence temporal constraint of the named shape must report neither order"""
    from unified_planning.model.htn import Task, TaskNetwork
    from unified_planning.environment import get_environment
    em = get_environment().expression_manager
    bad = []
    for nm, mk in (("neg-lhs", lambda a, b: em.LT(a.end - 2, b.start)), ("neg-rhs", lambda a, b: em.LT(a.end, b.start - 3)),
                   ("pos-lhs", lambda a, b: em.LT(a.end + 1, b.start)), ("start-start", lambda a, b: em.LT(a.start, b.start)),
                   ("le", lambda a, b: em.LE(a.end, b.start)), ("end-end", lambda a, b: em.LT(a.end, b.end)),
                   ("no-container", lambda a, b: em.LT(a.end, em.TimingExp(__import__("unified_planning").model.timing.StartTiming())))):
        tn = TaskNetwork()
        t = Task("t")
        a, b = tn.add_subtask(t, ident="a"), tn.add_subtask(t, ident="b")
        try:
            tn.add_constraint(mk(a, b))
            po, to = tn.partial_order(), tn.total_order()
        except Exception as e:  # noqa
            bad.append(f"{nm}: raised {type(e).__name__}: {e}")
            continue
        if po is not None or to is not None:
            bad.append(f"{nm}: partial_order={po} total_order={to} (both must be None)")
    tn = TaskNetwork()
    a, b = tn.add_subtask(Task("t"), ident="a"), tn.add_subtask(Task("t"), ident="b")
    tn.set_strictly_before(a, b)
    if tn.partial_order() is None or tn.total_order() != ["a", "b"]:
        bad.append(f"plain precedence: partial_order={tn.partial_order()} total_order={tn.total_order()}")
    return {"reproduced": bool(bad), "concrete": c, "observed": bad}


def replay_file(data):
    return replay_concrete(data.get("concrete") or {})


Classification.replay = lambda self, ctx, model, label: replay_concrete({"obligation": label})

UNITS = [Classification()]


# ------------------------------------------------------------------------------- bounded layer
def _count_extensions(n, prec):
    exts = []
    for perm in itertools.permutations(range(n)):
        pos = {t: i for i, t in enumerate(perm)}
        if all(pos[a] < pos[b] for a, b in prec):
            exts.append(perm)
            if len(exts) > 1:
                break
    return exts


def _closure(n, prec):
    r = set(prec)
    ch = True
    while ch:
        ch = False
        for a, b in list(r):
            for c, d in list(r):
                if b == c and (a, d) not in r:
                    r.add((a, d))
                    ch = True
    return r


def bounded(tier, seed):
    from unified_planning.shortcuts import UserType
    from unified_planning.model.htn import HierarchicalProblem, Task, TaskNetwork
    from unified_planning.model.timing import StartTiming, EndTiming
    from unified_planning.environment import get_environment
    rng = random.Random(seed)
    maxn = 4 if tier == "quick" else 5
    failures, evals, nontrivial, samples = [], 0, set(), []
    task = Task("t")
    em = get_environment().expression_manager

    def check(n, prec, extra=None):
        nonlocal evals
        tn = TaskNetwork()
        subs = [tn.add_subtask(task, ident=f"s{i}") for i in range(n)]
        for a, b in prec:
            tn.set_strictly_before(subs[a], subs[b])
        if extra is not None:
            tn.add_constraint(extra(subs))
        evals += 1
        try:
            po, to = tn.partial_order(), tn.total_order()
        except Exception as e:  # noqa
            return f"raised {type(e).__name__}: {e}"
        if extra is not None:
            if po is not None or to is not None:
                return f"non-precedence constraint but partial_order={po} total_order={to}"
            return None
        names = [s.identifier for s in subs]
        given = {(names[a], names[b]) for a, b in prec}
        if po is None:
            return "partial_order is None for a pure precedence network"
        idx = {nm: i for i, nm in enumerate(names)}
        if any(a not in idx or b not in idx for a, b in po):
            return f"partial_order mentions unknown subtasks: {po}"
        if _closure(n, {(idx[a], idx[b]) for a, b in po}) != _closure(n, set(prec)):
            return f"partial_order {po} is not the given order relation {sorted(given)}"
        exts = _count_extensions(n, prec)
        if len(exts) == 1:
            want = [names[i] for i in exts[0]]
            if to != want:
                return f"unique linear extension {want} but total_order={to}"
        elif to is not None:
            return f"{len(exts)}{'+' if len(exts) > 1 else ''} linear extensions but total_order={to}"
        return None

    for n in range(0, maxn + 1):
        pairs = [(a, b) for a in range(n) for b in range(n) if a != b]
        total = 2 ** len(pairs)
        if total <= 70000:
            masks = range(total)
            exhaustive_n = True
        else:
            masks = [rng.getrandbits(len(pairs)) for _ in range(20000 if tier == "quick" else 150000)]
            exhaustive_n = False
        for mask in masks:
            prec = [p for i, p in enumerate(pairs) if mask >> i & 1]
            r = check(n, prec)
            key = (n, mask)
            if prec:
                nontrivial.add(key)
            if r:
                failures.append({"what": f"n={n} precedences={prec}: {r}", "concrete": {"n": n, "prec": prec}, "observed": r})
                if len(failures) > 5:
                    break
            if len(samples) < 3 and prec and mask % 97 == 3:
                samples.append({"n": n, "precedences": prec})
        if len(failures) > 5:
            break
    # self precedence (inconsistent) and non-precedence constraints
    for n in (1, 2, 3):
        r = check(n, [(0, 0)])
        if r:
            failures.append({"what": f"n={n} self-precedence: {r}", "concrete": {"n": n, "prec": [[0, 0]]}, "observed": r})
        for mk, nm in ((lambda s: em.LT(s[0].start, s[-1].start), "start<start"),
                       (lambda s: em.LE(s[0].end, s[-1].start), "end<=start"),
                       (lambda s: em.LT(s[0].end + 1, s[-1].start), "delay"),
                       (lambda s: em.LT(s[0].end - 2, s[-1].start), "negative delay lhs"),
                       (lambda s: em.LT(s[0].end, s[-1].start - 1), "negative delay rhs"),
                       (lambda s: em.LT(s[0].end - Fraction(1, 2), s[-1].start - 1), "negative delays both"),
                       (lambda s: em.LT(s[0].start, s[-1].end), "start<end")):
            r = check(n, [(i, i + 1) for i in range(n - 1)], extra=mk)
            if r:
                failures.append({"what": f"n={n} extra {nm}: {r}", "concrete": {"n": n, "extra": nm}, "observed": r})
    return {"evaluations": evals, "distinct_nontrivial": len(nontrivial), "failures": failures,
            "rule": f"all precedence relations over n<=4 subtasks exhaustively (n=5: seeded sample), each run through the "
                    f"real TaskNetwork.partial_order/total_order and compared with brute-force linear-extension counting; "
                    f"non-trivial = at least one precedence", "samples": samples, "exhaustive": maxn <= 4,
            "bound": f"n <= {maxn}"}


LEVEL = "other"
EXPLANATION = __doc__
TRUSTED = ["LT nodes are binary (constructor invariant proved in C16)"]

"""C16 — expressions are hash-consed and constructors normalise as documented.

P: ExpressionManager.create_node on the real source with an abstract content key: a present content returns the
stored node and changes nothing; a new content gets a fresh node with a fresh id, is registered under its content,
the table stays injective with ids below _next_free_id; when the type check raises, the table is unchanged.
Census (mechanical, every run): FNode( is constructed only in create_node; no store to _content/_node_id/_env
outside FNode.__init__.
B: the public constructors against their documented normal forms on random arguments (And/Or/Plus/Times with zero or
one argument, double negation, GE/GT mirrored, canonical Int/Real for numeric literals), identity of equal constructions.
"""
import ast
import os
import z3
from pyvc.values import *  # noqa
from pyvc.values import Rec, ExcVal, SUnion
from pyvc.verify import Unit
from pyvc import builtins as B
from . import theory as T

import unified_planning as up
import unified_planning.model.expression as ex
import unified_planning.model.fnode as fn

Content = Ref("FNodeContent")
TypeCheckerT = Ref("TypeChecker")
EnvT = Ref("Environment")
content_of = z3.Function("content_of", T.FNode.z3sort(), Content.z3sort())
node_id = B._uf("FNode._node_id", T.FNode.z3sort(), z3.IntSort())


class TypeError_(Exception):
    pass


class CreateNode(Unit):
    prop = "C16"
    name = "ExpressionManager.create_node"
    doc = "hash-consing table invariant; present content -> same node; new content -> fresh node and id; type error -> table unchanged"
    allowed_raises = (TypeError_,)

    def target(self):
        return ex.ExpressionManager.create_node

    def configure(self, eng):
        eng.partial_classes.add(ex.ExpressionManager)
        # FNodeContent(node_type, args, payload): abstract key; structural equality of contents is equality of keys
        def mk_content(eng_, st, args, kw):
            yield st, st.ghost["content"]
        eng.class_models[fn.FNodeContent] = mk_content

        def mk_fnode(eng_, st, args, kw):
            c, i, env = args
            n = T.FNode.fresh("n")
            tab = st.load(st.ghost["table"])
            k = Content.fresh("k")
            # allocation: the new object is distinct from every node already in the table
            st.assume(z3.ForAll([k.z], z3.Implies(z3.Select(tab.has, k.z), z3.Select(tab.val, k.z) != n.z)))
            st.assume(content_of(n.z) == c.z, node_id(n.z) == zint(i))
            st.ghost["new_node"] = n
            yield st, n
        eng.class_models[fn.FNode] = mk_fnode
        TypeCheckerT.methods["get_type"] = lambda e, st, selfv, a, k: iter([(st.fork().note("tc:raise"), ExcVal(TypeError_, (), "get_type")), (st.note("tc:ok"), T.Type.fresh("t"))])
        EnvT.fields["type_checker"] = TypeCheckerT
        T.FNode.attrs["environment"] = lambda e, st, x: B.uf_value(e, st, "FNode._env", [x.z], [T.FNode.z3sort()], EnvT)

    def inv(self, tab, nfid):
        k, k2 = Content.fresh("k"), Content.fresh("k2")
        return [("stored nodes carry their key", z3.ForAll([k.z], z3.Implies(z3.Select(tab.has, k.z), content_of(z3.Select(tab.val, k.z)) == k.z))),
                ("ids below the next free id", z3.ForAll([k.z], z3.Implies(z3.Select(tab.has, k.z), node_id(z3.Select(tab.val, k.z)) < nfid))),
                ("ids pairwise distinct", z3.ForAll([k.z, k2.z], z3.Implies(z3.And(z3.Select(tab.has, k.z), z3.Select(tab.has, k2.z), k.z != k2.z),
                                                                       node_id(z3.Select(tab.val, k.z)) != node_id(z3.Select(tab.val, k2.z)))))]

    def setup(self, eng, st):
        tab0 = eng.fresh_of(st, Map(Content, T.FNode), "expressions")
        nf0 = Int.fresh("next_free_id")
        for _, c in self.inv(tab0, nf0.z):
            st.assume(c)
        tab = st.alloc(tab0, "dict")
        env = EnvT.fresh("env")
        m = st.alloc(Rec(ex.ExpressionManager, {"expressions": tab, "_next_free_id": nf0, "environment": env}), "manager")
        content = Content.fresh("content")
        st.ghost["content"] = content
        st.ghost["table"] = tab
        args = eng.fresh_of(st, Seq(T.FNode), "args")
        j = z3.Int(fresh_name("j"))
        st.assume(z3.ForAll([j], z3.Implies(z3.And(0 <= j, j < args.n), B._uf("FNode._env", T.FNode.z3sort(), EnvT.z3sort())(z3.Select(args.arr, j)) == env.z)))
        return [m, T.OKT.fresh("node_type"), args, None], {}, dict(m=m, tab=tab, tab0=tab0, nf0=nf0, content=content)

    def post(self, eng, ctx, st, out):
        tab1 = st.load(ctx["tab"])
        tab0, nf0, c = ctx["tab0"], ctx["nf0"], ctx["content"]
        nf1 = st.getfield(ctx["m"], "_next_free_id")
        if out[0] == "raise":
            st.oblige("type error: expressions table unchanged", tab1.same(tab0))
            return
        r = out[1]
        if isinstance(r, SUnion):
            r = r.some()
        for n_, cl in self.inv(tab1, zint(nf1)):
            st.oblige("invariant kept: " + n_, cl)
        st.oblige("result is registered under the content", z3.And(tab1.contains(c).z, tab1.get(c).z == r.z))
        st.oblige("result carries the content", content_of(r.z) == c.z)
        present = tab0.contains(c).z
        st.oblige("present content: identical node, table unchanged", z3.Implies(present, z3.And(r.z == tab0.get(c).z, tab1.same(tab0).z)))
        k = Content.fresh("k")
        st.oblige("new content: only this entry is added", z3.Implies(z3.Not(present), z3.ForAll([k.z], z3.And(
            z3.Select(tab1.has, k.z) == z3.Or(z3.Select(tab0.has, k.z), k.z == c.z),
            z3.Implies(z3.Select(tab0.has, k.z), z3.Select(tab1.val, k.z) == z3.Select(tab0.val, k.z))))))
        st.oblige("new content: fresh id", z3.Implies(z3.Not(present), z3.And(node_id(r.z) == nf0.z, zint(nf1) == nf0.z + 1)))

    def replay(self, ctx, model, label):
        return replay_concrete({"case": "ill-typed node"})


def replay_concrete(c):
    from unified_planning.shortcuts import Equals, Int, UserType, Object
    from unified_planning.environment import Environment, get_environment
    o = Object("o", UserType("T"))
    res = []
    for _ in range(2):
        try:
            Equals(5, o)
            res.append("accepted")
        except Exception as e:  # noqa
            res.append(type(e).__name__)
    bad = res[0] != res[1]
    return {"reproduced": bad, "concrete": c, "observed": f"Equals(5, o) twice: {res}"}


def replay_file(data):
    return replay_concrete(data.get("concrete") or {})



# ----------------------------------------------------------------------------------------------------------------
# Constructor contracts: every public constructor returns exactly the node create_node gives for the documented
# (node_type, args, payload), or the documented normal form.  create_node is the contract proved above.
OK = T.OK
EMRec = ex.ExpressionManager
PayT = Ref("Payload16")


class Ctor(Unit):
    prop = "C16"
    allowed_raises = ()

    def __init__(self, meth, nargs, expect, doc, raises=(), iterable=False):
        """expect(self, ctx, st) -> list of (label, goal) given ctx['calls'] (create_node calls) and ctx['out']
        iterable: the arguments are handed over as ONE list (the second documented calling convention of the n-ary constructors)"""
        self.meth, self.nargs, self.expect, self.iterable = meth, nargs, expect, iterable
        self.name = f"ExpressionManager.{meth}" + ((f"/[{nargs}]" if iterable else f"/{nargs}") if nargs is not None else "")
        self.doc = doc
        self.allowed_raises = tuple(raises)

    def target(self):
        return getattr(ex.ExpressionManager, self.meth)

    def configure(self, eng):
        eng.assert_raises = True
        eng.partial_classes.add(ex.ExpressionManager)

        def create_node(e, st, args, kw):
            a = list(args[1:])
            node_type = kw.get("node_type", a[0] if a else None)
            cargs = kw.get("args", a[1] if len(a) > 1 else None)
            payload = kw.get("payload", a[2] if len(a) > 2 else None)
            n = T.FNode.fresh("node")
            st.ghost["calls"] = st.ghost.get("calls", []) + [(node_type, cargs, payload, n)]
            yield st, n
        eng.contracts[ex.ExpressionManager.create_node] = create_node

        def auto_promote(e, st, args, kw):
            # auto_promote(*xs): one expression per (non-iterable) argument, in order; FNode arguments are returned as they are
            xs = list(args[1:])
            if len(xs) == 1 and isinstance(e.deref(st, xs[0]), (CList, tuple, list)):
                c = e.deref(st, xs[0])
                xs = list(c.items if isinstance(c, CList) else c)
            yield st, CList(list(xs))
        eng.contracts[ex.ExpressionManager.auto_promote] = auto_promote
        T.FNode.observers["is_not"] = ((), Bool)
        T.FNode.methods["arg"] = lambda e, st, selfv, a, k: iter([(st, T.fnode_args(e, st, selfv).at(a[0]))])
        T.FNode.attrs["type"] = lambda e, st, x: B.uf_value(e, st, "FNode.type", [x.z], [T.FNode.z3sort()], T.Type)

    def setup(self, eng, st):
        env = EnvT.fresh("env")
        tt, ff = T.FNode.fresh("true_expression"), T.FNode.fresh("false_expression")
        m = st.alloc(Rec(ex.ExpressionManager, {"environment": env, "true_expression": tt, "false_expression": ff}), "manager")
        ctx = dict(m=m, tt=tt, ff=ff, env=env)
        args = self.make_args(eng, st, ctx)
        ctx["args"] = args
        if self.iterable:
            return [m, st.alloc(CList(list(args)), "list")], {}, ctx
        return [m] + args, {}, ctx

    def make_args(self, eng, st, ctx):
        k = self.meth
        if k == "Int":
            return [Int.fresh("value")]
        if k == "Real":
            return [Real.fresh("value")]
        if k == "Bool":
            return [Bool.fresh("value")]
        if k in ("TRUE", "FALSE"):
            return []
        if k in ("ParameterExp", "VariableExp", "ObjectExp", "TimingExp"):
            t = {"ParameterExp": T.Parameter, "VariableExp": T.Variable, "ObjectExp": T.Object, "TimingExp": T.Timing}[k]
            t.fields["environment"] = EnvT
            v = t.fresh("payload")
            st.assume(fld(t, "environment", EnvT)(v.z) == ctx["env"].z)
            return [v]
        n = self.nargs if self.nargs is not None else {"Not": 1}.get(k, 2)
        return [T.FNode.fresh(f"a{i}") for i in range(n)]

    def post(self, eng, ctx, st, out):
        if out[0] == "raise":
            return
        r = out[1]
        if isinstance(r, SUnion):
            r = r.some()
        calls = st.ghost.get("calls", [])
        for lab, goal in self.expect(ctx, st, calls, r):
            st.oblige(lab, goal)


def fld(t, name, rt):
    return B._uf(f"{t.name}.{name}", t.z3sort(), rt.z3sort())


def _is_kind(node_type, kind):
    return z3.BoolVal(node_type is kind)


def _one_call(kind, args_of, payload_of=None):
    def expect(ctx, st, calls, r):
        yield "exactly one create_node call", z3.BoolVal(len(calls) == 1)
        if len(calls) != 1:
            return
        nt_, cargs, payload, n = calls[0]
        yield f"node_type is {kind.name}", _is_kind(nt_, kind)
        yield "result is the node create_node returned", r.z == n.z
        want = args_of(ctx)
        got = list(cargs) if isinstance(cargs, (tuple, list)) else (list(cargs.items) if isinstance(cargs, CList) else None)
        yield "args are the documented ones, in order", z3.BoolVal(got is not None and len(got) == len(want)) if got is None or len(got) != len(want) \
            else z3.And([g.z == w.z for g, w in zip(got, want)] + [z3.BoolVal(True)])
        if payload_of is not None:
            w = payload_of(ctx)
            ok = payload is not None and not isinstance(payload, (tuple, list)) and hasattr(payload, "z") and z3.is_expr(payload.z) and payload.z.sort() == w.z.sort()
            yield "payload is the given value (same kind of value)", (payload.z == w.z) if ok else z3.BoolVal(False)
        else:
            yield "no payload", z3.BoolVal(payload is None)
    return expect


def _bin(kind, mirrored=False):
    return _one_call(kind, (lambda c: [c["args"][1], c["args"][0]]) if mirrored else (lambda c: list(c["args"])))


def _nary(kind, unit_name):
    def expect(ctx, st, calls, r):
        a = ctx["args"]
        if len(a) == 1:
            yield "one argument: the argument itself", z3.And(r.z == a[0].z, z3.BoolVal(len(calls) == 0))
        elif len(a) >= 2:
            yield from _one_call(kind, lambda c: list(c["args"]))(ctx, st, calls, r)
        else:
            if unit_name in ("tt", "ff"):
                yield "no argument: the Boolean unit", z3.And(r.z == ctx[unit_name].z, z3.BoolVal(len(calls) == 0))
            else:
                yield "no argument: exactly one create_node call", z3.BoolVal(len(calls) == 1)
                if len(calls) == 1:
                    nt_, cargs, payload, n = calls[0]
                    yield "no argument: the Int unit", z3.And(_is_kind(nt_, OK.INT_CONSTANT), r.z == n.z,
                                                              zint(payload) == unit_name if payload is not None else z3.BoolVal(False))
    return expect


def _not(ctx, st, calls, r):
    a = ctx["args"][0]
    isnot = B._uf("FNode.is_not()", T.FNode.z3sort(), z3.BoolSort())(a.z)
    inner = z3.Select(T.args_arr(a.z), 0)
    if len(calls) == 0:
        yield "Not(Not(x)) is x", z3.And(isnot, r.z == inner)
    else:
        yield "argument is not a negation", z3.Not(isnot)
        yield from _one_call(OK.NOT, lambda c: [c["args"][0]])(ctx, st, calls, r)


def _bool(ctx, st, calls, r):
    v = ctx["args"][0]
    yield "Bool(v) is the TRUE / FALSE node", z3.And(z3.BoolVal(len(calls) == 0), r.z == z3.If(v.z, ctx["tt"].z, ctx["ff"].z))


def _eq_or_iff(ctx, st, calls, r):
    yield "exactly one create_node call", z3.BoolVal(len(calls) == 1)
    if len(calls) != 1:
        return
    nt_, cargs, payload, n = calls[0]
    a0, a1 = ctx["args"]
    ftype = B._uf("FNode.type", T.FNode.z3sort(), T.Type.z3sort())
    isb = B._uf("Type.is_bool_type()", T.Type.z3sort(), z3.BoolSort())
    both = z3.And(isb(ftype(a0.z)), isb(ftype(a1.z)))
    yield "IFF exactly when both sides are Boolean", z3.If(both, _is_kind(nt_, OK.IFF), _is_kind(nt_, OK.EQUALS))
    yield "result is the node create_node returned", r.z == n.z
    got = list(cargs)
    yield "args in order", z3.And(got[0].z == a0.z, got[1].z == a1.z) if len(got) == 2 else z3.BoolVal(False)


CTORS = [
    Ctor("Int", None, _one_call(OK.INT_CONSTANT, lambda c: [], lambda c: c["args"][0]), "Int(v) = create_node(INT_CONSTANT, (), v)", raises=()),
    Ctor("Real", None, _one_call(OK.REAL_CONSTANT, lambda c: [], lambda c: c["args"][0]), "Real(v) = create_node(REAL_CONSTANT, (), v)"),
    Ctor("Bool", None, _bool, "Bool(v) is the stored TRUE / FALSE node"),
    Ctor("TRUE", None, lambda ctx, st, calls, r: iter([("TRUE() is the stored node", z3.And(r.z == ctx["tt"].z, z3.BoolVal(len(calls) == 0)))]), "TRUE()"),
    Ctor("FALSE", None, lambda ctx, st, calls, r: iter([("FALSE() is the stored node", z3.And(r.z == ctx["ff"].z, z3.BoolVal(len(calls) == 0)))]), "FALSE()"),
    Ctor("ParameterExp", None, _one_call(OK.PARAM_EXP, lambda c: [], lambda c: c["args"][0]), "ParameterExp(p)"),
    Ctor("VariableExp", None, _one_call(OK.VARIABLE_EXP, lambda c: [], lambda c: c["args"][0]), "VariableExp(v)"),
    Ctor("ObjectExp", None, _one_call(OK.OBJECT_EXP, lambda c: [], lambda c: c["args"][0]), "ObjectExp(o)"),
    Ctor("TimingExp", None, _one_call(OK.TIMING_EXP, lambda c: [], lambda c: c["args"][0]), "TimingExp(t)"),
    Ctor("Not", None, _not, "Not(Not(x)) is x, otherwise create_node(NOT, (x,))"),
    Ctor("Minus", None, _bin(OK.MINUS), "Minus(l, r)"), Ctor("Div", None, _bin(OK.DIV), "Div(l, r)"),
    Ctor("LE", None, _bin(OK.LE), "LE(l, r)"), Ctor("LT", None, _bin(OK.LT), "LT(l, r)"),
    Ctor("GE", None, _bin(OK.LE, mirrored=True), "GE(l, r) is LE(r, l)"), Ctor("GT", None, _bin(OK.LT, mirrored=True), "GT(l, r) is LT(r, l)"),
    Ctor("Equals", None, _bin(OK.EQUALS), "Equals(l, r)"), Ctor("Iff", None, _bin(OK.IFF), "Iff(l, r)"), Ctor("Implies", None, _bin(OK.IMPLIES), "Implies(l, r)"),
    Ctor("EqualsOrIff", None, _eq_or_iff, "EqualsOrIff: IFF for two Booleans, EQUALS otherwise"),
]
for _k, _kind, _unit in (("And", OK.AND, "tt"), ("Or", OK.OR, "ff"), ("Plus", OK.PLUS, 0), ("Times", OK.TIMES, 1)):
    for _n in (0, 1, 2, 3):
        CTORS.append(Ctor(_k, _n, _nary(_kind, _unit), f"{_k} with {_n} argument(s): documented normal form (arity bounded at 3: the body does not depend on the arity beyond 0/1/many)"))
    for _n in (0, 1, 2):
        CTORS.append(Ctor(_k, _n, _nary(_kind, _unit), f"{_k} given one list of {_n} argument(s): the same documented normal form as for unpacked arguments", iterable=True))

UNITS = [CreateNode()] + CTORS



def extra_checks(tier, seed):
    """AST census over /repo (re-done every run): node construction and immutability"""
    root = os.path.dirname(up.__file__)
    failures, n = [], 0
    for dp, dn, fns in os.walk(root):
        if "/test" in dp:
            continue
        for f in fns:
            if not f.endswith(".py"):
                continue
            path = os.path.join(dp, f)
            try:
                tree = ast.parse(open(path).read())
            except SyntaxError:
                continue
            for node in ast.walk(tree):
                n += 1
                if isinstance(node, ast.Call):
                    callee = ast.unparse(node.func)
                    if callee.endswith("FNode") and callee.split(".")[-1] == "FNode":
                        encl = _enclosing(tree, node)
                        if not (path.endswith("model/expression.py") and encl == "create_node"):
                            failures.append({"what": f"FNode constructed outside create_node: {path}:{node.lineno} in {encl}", "observed": callee})
                if isinstance(node, (ast.Assign, ast.AugAssign, ast.AnnAssign)):
                    targets = node.targets if isinstance(node, ast.Assign) else [node.target]
                    for t in targets:
                        for x in ast.walk(t):
                            if isinstance(x, ast.Attribute) and x.attr in ("_content", "_node_id") and isinstance(x.ctx, ast.Store):
                                encl = _enclosing(tree, node)
                                if not (path.endswith("model/fnode.py") and encl == "__init__"):
                                    failures.append({"what": f"store to {x.attr} outside FNode.__init__: {path}:{node.lineno} in {encl}", "observed": ast.unparse(t)})
    return {"failures": failures, "obligations": 2, "discharged": 2 if not failures else 0, "ast_nodes_scanned": n,
            "census": "FNode( only in ExpressionManager.create_node; no store to _content/_node_id outside FNode.__init__"}


def _enclosing(tree, target):
    best = "<module>"
    for node in ast.walk(tree):
        if isinstance(node, (ast.FunctionDef, ast.AsyncFunctionDef)):
            if node.lineno <= target.lineno <= (node.end_lineno or node.lineno):
                if any(x is target for x in ast.walk(node)):
                    best = node.name
    return best


def bounded(tier, seed):
    import warnings
    from fractions import Fraction
    from rtc.exprgen import ExprGen
    from unified_planning.shortcuts import And, Or, Plus, Times, Not, GE, GT, LE, LT, Int, Real, TRUE, FALSE, Equals
    n = 600 if tier == "quick" else 10000
    g = ExprGen(seed + 4)
    em = g.pr.environment.expression_manager
    rng = g.rng
    failures, evals, nontrivial, samples = [], 0, set(), []

    def bad(what, detail):
        failures.append({"what": what, "concrete": detail, "observed": None})
    with warnings.catch_warnings():
        warnings.simplefilter("ignore")
        for i in range(n):
            b1, b2 = g.boolean(2), g.boolean(2)
            n1, n2 = g.num(2), g.num(2)
            evals += 1
            nontrivial.add(str(b1))
            checks = [
                (And() is TRUE(), "And() is TRUE"), (Or() is FALSE(), "Or() is FALSE"), (And(b1) is b1, "And(x) is x"), (Or(b1) is b1, "Or(x) is x"),
                (And([b1]) is b1, "And([x]) is x"), (Plus(n1) is n1, "Plus(x) is x"), (Times(n1) is n1, "Times(x) is x"),
                (Plus() is Int(0), "Plus() is Int(0)"), (Times() is Int(1), "Times() is Int(1)"),
                (Plus([]) is Int(0), "Plus([]) is Int(0)"), (Times(()) is Int(1), "Times(()) is Int(1)"), (And([]) is TRUE(), "And([]) is TRUE"),
                (Or(iter([])) is FALSE(), "Or(<empty iterator>) is FALSE"), (Plus(x for x in ()) is Int(0), "Plus(<empty generator>) is Int(0)"),
                (Plus([n1]) is n1, "Plus([x]) is x"), (Times([n1, n2]) is Times(n1, n2), "Times([a,b]) is Times(a,b)"), (Or([b1]) is b1, "Or([x]) is x"),
                (Not(Not(b1)) is b1, "Not(Not(x)) is x"), (GE(n1, n2) is LE(n2, n1), "GE(a,b) is LE(b,a)"), (GT(n1, n2) is LT(n2, n1), "GT(a,b) is LT(b,a)"),
                (And(b1, b2) is And(b1, b2), "same construction, same node"), (And(b1, b2) is And([b1, b2]), "And(a,b) is And([a,b])"),
                ((And(b1, b2) is And(b2, b1)) == (b1 is b2), "different argument order, different node (unless equal)"),
                (Plus(n1, n2).node_id != And(b1, b2).node_id, "distinct nodes, distinct ids"),
            ]
            for ok, what in checks:
                if not ok:
                    bad(f"constructor normalisation violated: {what}", {"b1": str(b1), "b2": str(b2), "n1": str(n1), "n2": str(n2)})
            v = rng.choice([3, -7, 2 ** 70, Fraction(6, 3), Fraction(7, 3), "5", "7/2", 2.5, Fraction(10 ** 30, 10 ** 29)])
            try:
                (lit,) = em.auto_promote(v)
            except Exception as ex_:  # noqa
                bad(f"auto_promote({v!r}) raised {type(ex_).__name__}", {"literal": repr(v)})
                continue
            fr = Fraction(v)
            if fr.denominator == 1:
                if not (lit.is_int_constant() and lit.constant_value() == fr.numerator and lit is Int(fr.numerator)):
                    bad(f"numeric literal {v!r} is not the canonical Int constant", {"literal": repr(v), "got": str(lit)})
            else:
                if not (lit.is_real_constant() and lit.constant_value() == fr and lit is Real(fr)):
                    bad(f"numeric literal {v!r} is not the canonical Real constant", {"literal": repr(v), "got": str(lit)})
            if len(failures) >= 6:
                break
        # ---- directed: every spelling of a numeric literal the library accepts (int / float / Fraction / strings in int, decimal, exponent and ratio
        #      syntax, with surrounding blanks and signs); integral values -- however spelt -- are THE Int constant, the others THE Real constant
        x0 = g.x()
        for v in [3, -7, 0, 3.0, -4.0, 2.5, -0.0, Fraction(6, 2), Fraction(-8, 4), Fraction(7, 2), "3", " 3 ", "-4", "+5", "3.0", "2.", "-4.0", "6/2", " 6/2 ", "30e-1", "1e2", "0",
                  "-0", "0.0", "0.5", ".5", "7/2", "-7/2", "25e-1", "1/3", str(2 ** 70), str(2 ** 70) + ".0"]:
            evals += 1
            try:
                (lit,) = em.auto_promote(v)
            except Exception as ex_:  # noqa
                bad(f"auto_promote({v!r}) raised {type(ex_).__name__}", {"literal": repr(v)})
                continue
            fr = Fraction(v)
            want = Int(fr.numerator) if fr.denominator == 1 else Real(fr)
            if lit is not want:
                bad(f"numeric literal {v!r} is not the canonical {'Int' if fr.denominator == 1 else 'Real'} constant", {"literal": repr(v), "got": f"{lit.node_type.name} {lit.constant_value()!r}"})
            elif Plus(x0, v) is not Plus(x0, want) or LE(x0, v) is not LE(x0, want) or GE(x0, v) is not LE(want, x0):
                bad(f"an expression written with the literal {v!r} is not the node written with its canonical constant", {"literal": repr(v)})
            if len(failures) >= 6:
                break
        # ---- identity == structure, on fresh environments, in both creation orders (a stale side table shows up only
        #      when a structurally different expression was built first)
        from unified_planning.environment import Environment
        from unified_planning.model.operators import OperatorKind as OKK
        for r_ in range(max(20, n // 10)):
            env = Environment()
            em2 = env.expression_manager
            made = []
            vals = [rng.choice([0, 1, 2, -3, 7, 2 ** 64]) for _ in range(3)]
            reqs = []
            for v in vals:
                reqs += [("Int", v), ("Real", Fraction(v)), ("Real", Fraction(v, 1) / 1), ("Real", Fraction(2 * v + 1, 2)), ("Bool", bool(v % 2))]
            rng.shuffle(reqs)
            for kind_, v in reqs:
                nd = getattr(em2, kind_)(v)
                evals += 1
                want_nt = {"Int": OKK.INT_CONSTANT, "Real": OKK.REAL_CONSTANT, "Bool": OKK.BOOL_CONSTANT}[kind_]
                if nd.node_type != want_nt or type(nd.constant_value()) is not type(v) or nd.constant_value() != v:
                    bad(f"{kind_}(v) is not a {want_nt.name} node carrying v", {"requests": [(k, str(x)) for k, x in reqs], "at": (kind_, str(v)),
                                                                                 "got": f"{nd.node_type.name} payload {nd.constant_value()!r}"})
                made.append(((kind_, v), nd))
            x_ = up.model.Fluent("x", up.model.types._IntType() if False else env.type_manager.IntType(), environment=env)
            composite = [("Plus2", em2.Plus(x_, 2)), ("PlusR2", em2.Plus(x_, em2.Real(Fraction(2)))), ("Plus2b", em2.Plus(x_, em2.Int(2)))]
            if composite[0][1] is not composite[2][1]:
                bad("Plus(x, 2) and Plus(x, Int(2)) are different nodes", {"order": [(k, str(v)) for k, v in reqs]})
            if composite[0][1] is composite[1][1]:
                bad("Plus(x, Int 2) and Plus(x, Real 2) are the same node", {"order": [(k, str(v)) for k, v in reqs]})
            for i_, ((k1, v1), n1) in enumerate(made):
                for (k2, v2), n2 in made[i_ + 1:]:
                    same_struct = (k1 == k2 and v1 == v2)
                    if same_struct != (n1 is n2) or same_struct != (n1.node_id == n2.node_id):
                        bad(f"identity differs from structure: {k1} vs {k2} constants", {"a": (k1, str(v1)), "b": (k2, str(v2)),
                                                                                          "same_node": n1 is n2, "ids": (n1.node_id, n2.node_id)})
            if len(failures) >= 6:
                break
    return {"evaluations": evals, "distinct_nontrivial": len(nontrivial), "failures": failures[:6],
            "rule": f"{n} rounds of random Boolean/numeric operands through every documented normalisation and random numeric literals "
                    f"(ints, Fractions, strings, floats); non-trivial = distinct operand", "samples": [{"example": "Not(Not(x)) is x, GE(a,b) is LE(b,a), auto_promote(Fraction(6,3)) is Int(2)"}],
            "bound": f"{n} rounds"}


LEVEL = "other"
EXPLANATION = __doc__
TRUSTED = ["FNodeContent equality is structural (namedtuple of node_type, args tuple, payload): modelled as an abstract key",
           "FNode(...) allocates an object distinct from all existing nodes", "int payloads are ints (Int(True) would alias Int(1): stated precondition)"]

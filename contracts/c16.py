"""C16 — expressions are hash-consed and constructors normalise as documented.

P: ExpressionManager.create_node on the real source with an abstract content key: a present content returns the
stored node and changes nothing; a new content gets a fresh node with a fresh id, is registered under its content,
the table stays injective with ids below _next_free_id; when the type check raises, the table is unchanged.
Census (mechanical, every run): FNode( is constructed only in create_node; no store to _content/_node_id/_env
outside FNode.__init__.
B: the public constructors against their documented normal forms on random arguments (And/Or/Plus/Times with zero or
one argument, double negation, GE/GT mirrored, canonical Int/Real for numeric literals), identity of equal constructions.
"""
import ast
import os
import z3
from pyvc.values import *  # noqa
from pyvc.values import Rec, ExcVal, SUnion
from pyvc.verify import Unit
from pyvc import builtins as B
from . import theory as T

import unified_planning as up
import unified_planning.model.expression as ex
import unified_planning.model.fnode as fn

Content = Ref("FNodeContent")
TypeCheckerT = Ref("TypeChecker")
EnvT = Ref("Environment")
content_of = z3.Function("content_of", T.FNode.z3sort(), Content.z3sort())
node_id = B._uf("FNode._node_id", T.FNode.z3sort(), z3.IntSort())


class TypeError_(Exception):
    pass


class CreateNode(Unit):
    prop = "C16"
    name = "ExpressionManager.create_node"
    doc = "hash-consing table invariant; present content -> same node; new content -> fresh node and id; type error -> table unchanged"
    allowed_raises = (TypeError_,)

    def target(self):
        return ex.ExpressionManager.create_node

    def configure(self, eng):
        # FNodeContent(node_type, args, payload): abstract key; structural equality of contents is equality of keys
        def mk_content(eng_, st, args, kw):
            yield st, st.ghost["content"]
        eng.class_models[fn.FNodeContent] = mk_content

        def mk_fnode(eng_, st, args, kw):
            c, i, env = args
            n = T.FNode.fresh("n")
            tab = st.load(st.ghost["table"])
            k = Content.fresh("k")
            # allocation: the new object is distinct from every node already in the table
            st.assume(z3.ForAll([k.z], z3.Implies(z3.Select(tab.has, k.z), z3.Select(tab.val, k.z) != n.z)))
            st.assume(content_of(n.z) == c.z, node_id(n.z) == zint(i))
            st.ghost["new_node"] = n
            yield st, n
        eng.class_models[fn.FNode] = mk_fnode
        TypeCheckerT.methods["get_type"] = lambda e, st, selfv, a, k: iter([(st.fork().note("tc:raise"), ExcVal(TypeError_, (), "get_type")), (st.note("tc:ok"), T.Type.fresh("t"))])
        EnvT.fields["type_checker"] = TypeCheckerT
        T.FNode.attrs["environment"] = lambda e, st, x: B.uf_value(e, st, "FNode._env", [x.z], [T.FNode.z3sort()], EnvT)

    def inv(self, tab, nfid):
        k, k2 = Content.fresh("k"), Content.fresh("k2")
        return [("stored nodes carry their key", z3.ForAll([k.z], z3.Implies(z3.Select(tab.has, k.z), content_of(z3.Select(tab.val, k.z)) == k.z))),
                ("ids below the next free id", z3.ForAll([k.z], z3.Implies(z3.Select(tab.has, k.z), node_id(z3.Select(tab.val, k.z)) < nfid))),
                ("ids pairwise distinct", z3.ForAll([k.z, k2.z], z3.Implies(z3.And(z3.Select(tab.has, k.z), z3.Select(tab.has, k2.z), k.z != k2.z),
                                                                       node_id(z3.Select(tab.val, k.z)) != node_id(z3.Select(tab.val, k2.z)))))]

    def setup(self, eng, st):
        tab0 = eng.fresh_of(st, Map(Content, T.FNode), "expressions")
        nf0 = Int.fresh("next_free_id")
        for _, c in self.inv(tab0, nf0.z):
            st.assume(c)
        tab = st.alloc(tab0, "dict")
        env = EnvT.fresh("env")
        m = st.alloc(Rec(ex.ExpressionManager, {"expressions": tab, "_next_free_id": nf0, "environment": env}), "manager")
        content = Content.fresh("content")
        st.ghost["content"] = content
        st.ghost["table"] = tab
        args = eng.fresh_of(st, Seq(T.FNode), "args")
        j = z3.Int(fresh_name("j"))
        st.assume(z3.ForAll([j], z3.Implies(z3.And(0 <= j, j < args.n), B._uf("FNode._env", T.FNode.z3sort(), EnvT.z3sort())(z3.Select(args.arr, j)) == env.z)))
        return [m, T.OKT.fresh("node_type"), args, None], {}, dict(m=m, tab=tab, tab0=tab0, nf0=nf0, content=content)

    def post(self, eng, ctx, st, out):
        tab1 = st.load(ctx["tab"])
        tab0, nf0, c = ctx["tab0"], ctx["nf0"], ctx["content"]
        nf1 = st.getfield(ctx["m"], "_next_free_id")
        if out[0] == "raise":
            st.oblige("type error: expressions table unchanged", tab1.same(tab0))
            return
        r = out[1]
        if isinstance(r, SUnion):
            r = r.some()
        for n_, cl in self.inv(tab1, zint(nf1)):
            st.oblige("invariant kept: " + n_, cl)
        st.oblige("result is registered under the content", z3.And(tab1.contains(c).z, tab1.get(c).z == r.z))
        st.oblige("result carries the content", content_of(r.z) == c.z)
        present = tab0.contains(c).z
        st.oblige("present content: identical node, table unchanged", z3.Implies(present, z3.And(r.z == tab0.get(c).z, tab1.same(tab0).z)))
        k = Content.fresh("k")
        st.oblige("new content: only this entry is added", z3.Implies(z3.Not(present), z3.ForAll([k.z], z3.And(
            z3.Select(tab1.has, k.z) == z3.Or(z3.Select(tab0.has, k.z), k.z == c.z),
            z3.Implies(z3.Select(tab0.has, k.z), z3.Select(tab1.val, k.z) == z3.Select(tab0.val, k.z))))))
        st.oblige("new content: fresh id", z3.Implies(z3.Not(present), z3.And(node_id(r.z) == nf0.z, zint(nf1) == nf0.z + 1)))

    def replay(self, ctx, model, label):
        return replay_concrete({"case": "ill-typed node"})


def replay_concrete(c):
    from unified_planning.shortcuts import Equals, Int, UserType, Object
    from unified_planning.environment import Environment, get_environment
    o = Object("o", UserType("T"))
    res = []
    for _ in range(2):
        try:
            Equals(5, o)
            res.append("accepted")
        except Exception as e:  # noqa
            res.append(type(e).__name__)
    bad = res[0] != res[1]
    return {"reproduced": bad, "concrete": c, "observed": f"Equals(5, o) twice: {res}"}


def replay_file(data):
    return replay_concrete(data.get("concrete") or {})


UNITS = [CreateNode()]


def extra_checks(tier, seed):
    """AST census over /repo (re-done every run): node construction and immutability"""
    root = os.path.dirname(up.__file__)
    failures, n = [], 0
    for dp, dn, fns in os.walk(root):
        if "/test" in dp:
            continue
        for f in fns:
            if not f.endswith(".py"):
                continue
            path = os.path.join(dp, f)
            try:
                tree = ast.parse(open(path).read())
            except SyntaxError:
                continue
            for node in ast.walk(tree):
                n += 1
                if isinstance(node, ast.Call):
                    callee = ast.unparse(node.func)
                    if callee.endswith("FNode") and callee.split(".")[-1] == "FNode":
                        encl = _enclosing(tree, node)
                        if not (path.endswith("model/expression.py") and encl == "create_node"):
                            failures.append({"what": f"FNode constructed outside create_node: {path}:{node.lineno} in {encl}", "observed": callee})
                if isinstance(node, (ast.Assign, ast.AugAssign, ast.AnnAssign)):
                    targets = node.targets if isinstance(node, ast.Assign) else [node.target]
                    for t in targets:
                        for x in ast.walk(t):
                            if isinstance(x, ast.Attribute) and x.attr in ("_content", "_node_id") and isinstance(x.ctx, ast.Store):
                                encl = _enclosing(tree, node)
                                if not (path.endswith("model/fnode.py") and encl == "__init__"):
                                    failures.append({"what": f"store to {x.attr} outside FNode.__init__: {path}:{node.lineno} in {encl}", "observed": ast.unparse(t)})
    return {"failures": failures, "obligations": 2, "discharged": 2 if not failures else 0, "ast_nodes_scanned": n,
            "census": "FNode( only in ExpressionManager.create_node; no store to _content/_node_id outside FNode.__init__"}


def _enclosing(tree, target):
    best = "<module>"
    for node in ast.walk(tree):
        if isinstance(node, (ast.FunctionDef, ast.AsyncFunctionDef)):
            if node.lineno <= target.lineno <= (node.end_lineno or node.lineno):
                if any(x is target for x in ast.walk(node)):
                    best = node.name
    return best


def bounded(tier, seed):
    import warnings
    from fractions import Fraction
    from rtc.exprgen import ExprGen
    from unified_planning.shortcuts import And, Or, Plus, Times, Not, GE, GT, LE, LT, Int, Real, TRUE, FALSE, Equals
    n = 600 if tier == "quick" else 10000
    g = ExprGen(seed + 4)
    em = g.pr.environment.expression_manager
    rng = g.rng
    failures, evals, nontrivial, samples = [], 0, set(), []

    def bad(what, detail):
        failures.append({"what": what, "concrete": detail, "observed": None})
    with warnings.catch_warnings():
        warnings.simplefilter("ignore")
        for i in range(n):
            b1, b2 = g.boolean(2), g.boolean(2)
            n1, n2 = g.num(2), g.num(2)
            evals += 1
            nontrivial.add(str(b1))
            checks = [
                (And() is TRUE(), "And() is TRUE"), (Or() is FALSE(), "Or() is FALSE"), (And(b1) is b1, "And(x) is x"), (Or(b1) is b1, "Or(x) is x"),
                (And([b1]) is b1, "And([x]) is x"), (Plus(n1) is n1, "Plus(x) is x"), (Times(n1) is n1, "Times(x) is x"),
                (Plus() is Int(0), "Plus() is Int(0)"), (Times() is Int(1), "Times() is Int(1)"),
                (Not(Not(b1)) is b1, "Not(Not(x)) is x"), (GE(n1, n2) is LE(n2, n1), "GE(a,b) is LE(b,a)"), (GT(n1, n2) is LT(n2, n1), "GT(a,b) is LT(b,a)"),
                (And(b1, b2) is And(b1, b2), "same construction, same node"), (And(b1, b2) is And([b1, b2]), "And(a,b) is And([a,b])"),
                ((And(b1, b2) is And(b2, b1)) == (b1 is b2), "different argument order, different node (unless equal)"),
                (Plus(n1, n2).node_id != And(b1, b2).node_id, "distinct nodes, distinct ids"),
            ]
            for ok, what in checks:
                if not ok:
                    bad(f"constructor normalisation violated: {what}", {"b1": str(b1), "b2": str(b2), "n1": str(n1), "n2": str(n2)})
            v = rng.choice([3, -7, 2 ** 70, Fraction(6, 3), Fraction(7, 3), "5", "7/2", 2.5, Fraction(10 ** 30, 10 ** 29)])
            try:
                (lit,) = em.auto_promote(v)
            except Exception as ex_:  # noqa
                bad(f"auto_promote({v!r}) raised {type(ex_).__name__}", {"literal": repr(v)})
                continue
            fr = Fraction(v)
            if fr.denominator == 1:
                if not (lit.is_int_constant() and lit.constant_value() == fr.numerator and lit is Int(fr.numerator)):
                    bad(f"numeric literal {v!r} is not the canonical Int constant", {"literal": repr(v), "got": str(lit)})
            else:
                if not (lit.is_real_constant() and lit.constant_value() == fr and lit is Real(fr)):
                    bad(f"numeric literal {v!r} is not the canonical Real constant", {"literal": repr(v), "got": str(lit)})
            if len(failures) >= 6:
                break
    return {"evaluations": evals, "distinct_nontrivial": len(nontrivial), "failures": failures[:6],
            "rule": f"{n} rounds of random Boolean/numeric operands through every documented normalisation and random numeric literals "
                    f"(ints, Fractions, strings, floats); non-trivial = distinct operand", "samples": [{"example": "Not(Not(x)) is x, GE(a,b) is LE(b,a), auto_promote(Fraction(6,3)) is Int(2)"}],
            "bound": f"{n} rounds"}


LEVEL = "other"
EXPLANATION = __doc__
TRUSTED = ["FNodeContent equality is structural (namedtuple of node_type, args tuple, payload): modelled as an abstract key",
           "FNode(...) allocates an object distinct from all existing nodes", "int payloads are ints (Int(True) would alias Int(1): stated precondition)"]

"""C26 — time-triggered and STN plan conversions are faithful.

B: valid time-triggered plans (reference temporal semantics) of generated temporal problems: the STN plan
obtained by the real conversion is consistent, the original start times and durations satisfy every
constraint it returns, and the plan converted back is still valid (reference semantics and real validator).
"""
import warnings
from fractions import Fraction

UNITS = []
USES_THEORY = False


def crafted():
    """systematic family: a durative action holding a condition over each kind of (half-)open interval, and an
    instantaneous action that establishes / destroys the condition at every position relative to the interval ends"""
    from unified_planning.shortcuts import (Problem, Fluent, BoolType, DurativeAction, InstantaneousAction, StartTiming, EndTiming,
                                            ClosedTimeInterval, OpenTimeInterval, LeftOpenTimeInterval, RightOpenTimeInterval)
    out = []
    for mk in (ClosedTimeInterval, OpenTimeInterval, LeftOpenTimeInterval, RightOpenTimeInterval):
        for lo_delay in (0, 1):
            for set_at_start in (True, False):
                pr = Problem(f"crafted_{mk.__name__}_{lo_delay}_{set_at_start}")
                light, done = Fluent("light", BoolType()), Fluent("done", BoolType())
                pr.add_fluent(light, default_initial_value=not set_at_start)
                pr.add_fluent(done, default_initial_value=False)
                w = DurativeAction("work")
                w.set_fixed_duration(4)
                if set_at_start:
                    w.add_effect(StartTiming(), light, True)
                w.add_condition(mk(StartTiming() + lo_delay, EndTiming()), light)
                w.add_effect(EndTiming(), done, True)
                off = InstantaneousAction("switch_off")
                off.add_effect(light, False)
                on = InstantaneousAction("switch_on")
                on.add_effect(light, True)
                pr.add_action(w)
                pr.add_action(off)
                pr.add_action(on)
                pr.add_goal(done)
                for t_off in (Fraction(1, 2), 1, Fraction(7, 2), 4, Fraction(9, 2), 6):
                    out.append((pr, [(Fraction(0), w, (), Fraction(4)), (Fraction(t_off), off, (), None)]))
                    out.append((pr, [(Fraction(1), w, (), Fraction(4)), (Fraction(0), off, (), None), (Fraction(t_off), on, (), None)]))
    out += crafted_simultaneous()
    out += crafted_nondyadic()
    out += crafted_dependency_shapes()
    return out


def crafted_dependency_shapes():
    """four durative actions whose causal dependencies form a chain, a diamond (one action waits for another both directly and through a third, the
    indirect way being longer) and a fork, with one long early action that pushes everything else -- each valid plan in EVERY listing order of its
    timed actions (the order in which the constraints reach the temporal network is the listing order)"""
    import itertools
    from unified_planning.shortcuts import Problem, Fluent, BoolType, DurativeAction, StartTiming, EndTiming
    out = []
    F = Fraction
    shapes = {
        # name -> (durations, conditions at start {action: [fluents]}, start effects, end effects, start times)
        "diamond": ({"push": 10, "hub": 1, "slow": 5, "join": 1}, {"hub": ["f_push"], "slow": ["f_hub_s"], "join": ["f_hub_e", "f_slow"]},
                    {"hub": ["f_hub_s"]}, {"push": ["f_push"], "hub": ["f_hub_e"], "slow": ["f_slow"], "join": ["f_join"]},
                    {"push": F(0), "hub": F(11), "slow": F(12), "join": F(18)}, "f_join"),
        "chain": ({"push": 10, "hub": 1, "slow": 5, "join": 1}, {"hub": ["f_push"], "slow": ["f_hub_e"], "join": ["f_slow"]},
                  {}, {"push": ["f_push"], "hub": ["f_hub_e"], "slow": ["f_slow"], "join": ["f_join"]},
                  {"push": F(0), "hub": F(21, 2), "slow": F(12), "join": F(35, 2)}, "f_join"),
        "fork": ({"push": 10, "hub": 2, "slow": 5, "join": 1}, {"hub": ["f_push"], "slow": ["f_push"], "join": ["f_hub_e", "f_slow"]},
                 {}, {"push": ["f_push"], "hub": ["f_hub_e"], "slow": ["f_slow"], "join": ["f_join"]},
                 {"push": F(0), "hub": F(11), "slow": F(21, 2), "join": F(16)}, "f_join"),
    }
    for nm, (durs, conds, seffs, eeffs, starts, goal) in shapes.items():
        pr = Problem(f"dependency_{nm}")
        fl = {}
        for n in ("f_push", "f_hub_s", "f_hub_e", "f_slow", "f_join"):
            fl[n] = Fluent(n, BoolType())
            pr.add_fluent(fl[n], default_initial_value=False)
        acts = {}
        for an, d in durs.items():
            a = DurativeAction(an)
            a.set_fixed_duration(d)
            for c in conds.get(an, []):
                a.add_condition(StartTiming(), fl[c])
            for e in seffs.get(an, []):
                a.add_effect(StartTiming(), fl[e], True)
            for e in eeffs.get(an, []):
                a.add_effect(EndTiming(), fl[e], True)
            pr.add_action(a)
            acts[an] = a
        pr.add_goal(fl[goal])
        entries = [(starts[an], acts[an], (), F(durs[an])) for an in durs]
        for perm in itertools.permutations(entries):
            out.append((pr, list(perm)))
    return out


def crafted_nondyadic():
    """durations, start times and release times that are rationals with no finite binary expansion (1/3, 7/10, 1/10, 22/7): every constraint of
    the STN plan has to be kept as an exact rational"""
    from unified_planning.shortcuts import Problem, Fluent, BoolType, DurativeAction, InstantaneousAction, StartTiming, EndTiming, GlobalStartTiming, Not
    out = []
    for da, db, gap in ((Fraction(1, 3), Fraction(7, 10), Fraction(1, 10)), (Fraction(22, 7), Fraction(1, 3), Fraction(2, 3)), (Fraction(1, 10), Fraction(1, 10), Fraction(1, 1000))):
        pr = Problem(f"nondyadic_{da.numerator}_{da.denominator}_{db.numerator}_{db.denominator}")
        x, y, k = (Fluent(n, BoolType()) for n in ("x", "y", "k"))
        pr.add_fluent(x, default_initial_value=False)
        pr.add_fluent(y, default_initial_value=False)
        pr.add_fluent(k, default_initial_value=False)
        pr.add_timed_effect(GlobalStartTiming(gap), k, True)
        a = DurativeAction("a")
        a.set_fixed_duration(da)
        a.add_condition(StartTiming(), k)
        a.add_effect(EndTiming(), x, True)
        b = DurativeAction("b")
        b.set_fixed_duration(db)
        b.add_condition(StartTiming(), x)
        b.add_effect(EndTiming(), y, True)
        pr.add_action(a)
        pr.add_action(b)
        pr.add_goal(y)
        sa = gap + Fraction(1, 7)
        sb = sa + da + Fraction(1, 3)
        out.append((pr, [(sa, a, (), da), (sb, b, (), db)]))
    return out


def crafted_simultaneous():
    """two happenings of different actions at exactly the same time that depend on each other (each deletes what the other needs up to and
    including that instant), where the two actions have DIFFERENT earliest times (release by timed effects): the STN must keep the two
    happenings together, an order alone lets the earliest schedule pull them apart"""
    from unified_planning.shortcuts import (Problem, Fluent, BoolType, DurativeAction, InstantaneousAction, StartTiming, EndTiming, GlobalStartTiming,
                                            ClosedTimeInterval, TimePointInterval, Not)
    out = []
    for (da, db) in ((1, 2), (2, 2), (1, 3)):
        for (ra, rb) in ((Fraction(5), Fraction(9, 2)), (Fraction(3), Fraction(1)), (Fraction(0), Fraction(4))):
            for slack in (Fraction(0), Fraction(1, 2)):
                pr = Problem(f"ends_meet_{da}_{db}_{ra}_{rb}_{slack}")
                x, y, ka, kb = (Fluent(n, BoolType()) for n in ("x", "y", "ka", "kb"))
                pr.add_fluent(x, default_initial_value=True)
                pr.add_fluent(y, default_initial_value=True)
                pr.add_fluent(ka, default_initial_value=False)
                pr.add_fluent(kb, default_initial_value=False)
                pr.add_timed_effect(GlobalStartTiming(ra), ka, True)
                pr.add_timed_effect(GlobalStartTiming(rb), kb, True)
                a = DurativeAction("a")
                a.set_fixed_duration(da)
                a.add_condition(ClosedTimeInterval(StartTiming(), EndTiming()), y)
                a.add_condition(TimePointInterval(StartTiming()), ka)
                a.add_effect(EndTiming(), x, False)
                b = DurativeAction("b")
                b.set_fixed_duration(db)
                b.add_condition(ClosedTimeInterval(StartTiming(), EndTiming()), x)
                b.add_condition(TimePointInterval(StartTiming()), kb)
                b.add_effect(EndTiming(), y, False)
                pr.add_action(a)
                pr.add_action(b)
                pr.add_goal(Not(x))
                pr.add_goal(Not(y))
                end = max(ra + da, rb + db) + 1 + slack
                out.append((pr, [(end - da, a, (), Fraction(da)), (end - db, b, (), Fraction(db))]))
    for r in (Fraction(1), Fraction(3, 2)):
        for t in (Fraction(2), Fraction(5, 2)):
            pr = Problem(f"together_{r}_{t}")
            p, q, k = (Fluent(n, BoolType()) for n in ("p", "q", "k"))
            pr.add_fluent(p, default_initial_value=True)
            pr.add_fluent(q, default_initial_value=True)
            pr.add_fluent(k, default_initial_value=False)
            pr.add_timed_effect(GlobalStartTiming(r), k, True)
            ia = InstantaneousAction("ia")
            ia.add_precondition(p)
            ia.add_effect(q, False)
            ib = InstantaneousAction("ib")
            ib.add_precondition(q)
            ib.add_precondition(k)
            ib.add_effect(p, False)
            pr.add_action(ia)
            pr.add_action(ib)
            pr.add_goal(Not(p))
            pr.add_goal(Not(q))
            out.append((pr, [(t, ia, (), None), (t, ib, (), None)]))
    return out


def bounded(tier, seed):
    from rtc.tgen import TGen
    from spec import tempsem
    from unified_planning.plans import TimeTriggeredPlan, ActionInstance, PlanKind
    from unified_planning.model import TimepointKind
    from unified_planning.engines.plan_validator import TimeTriggeredPlanValidator
    from unified_planning.engines.results import ValidationResultStatus
    nprob, nplans = (500, 10) if tier == "quick" else (5000, 14)
    failures, evals, nontrivial, samples = [], 0, set(), []
    with warnings.catch_warnings():
        warnings.simplefilter("ignore")
        tv = TimeTriggeredPlanValidator()
        work = []
        for idx, (pr, plan) in enumerate(crafted()):
            if tv.supports(pr.kind):
                work.append((f"crafted{idx}", pr, [plan]))
        for i in range(nprob):
            s = (seed + 3) * 100003 + i
            g = TGen(s, timed=False)
            try:
                pr = g.problem(f"t{s}")
            except Exception:  # noqa
                continue
            if not tv.supports(pr.kind):
                continue
            work.append((s, pr, [g.plan(pr) for _ in range(nplans)]))
        for s, pr, plans_ in work:
            for plan in plans_:
                if not plan:
                    continue
                try:
                    ok, _ = tempsem.valid(pr, plan)
                except tempsem.Ambiguous:
                    continue
                if not ok:
                    continue
                ais = [ActionInstance(a, ps) for _, a, ps, _ in plan]
                ttp = TimeTriggeredPlan([(st, ai, d) for (st, _, _, d), ai in zip(plan, ais)])
                desc = {"problem": str(pr), "plan": [f"{st}: {a.name}({','.join(o.name for o in ps)}) [{d}]" for st, a, ps, d in plan]}
                evals += 1
                try:
                    stn = ttp.convert_to(PlanKind.STN_PLAN, pr)
                except Exception as e:  # noqa
                    failures.append({"what": f"seed {s}: conversion to STN raised {type(e).__name__}: {e}", "concrete": desc, "observed": repr(e)})
                    continue
                if len(plan) >= 2:
                    nontrivial.add((s, tuple(desc["plan"])))
                if not stn.is_consistent():
                    failures.append({"what": f"seed {s}: STN plan of a valid time-triggered plan is inconsistent", "concrete": desc, "observed": str(stn)})
                    continue
                times = {}
                for (st, _, _, d), ai in zip(plan, ais):
                    times[(TimepointKind.START, id(ai))] = Fraction(st)
                    times[(TimepointKind.END, id(ai))] = Fraction(st) + (Fraction(d) if d is not None else 0)
                horizon = max(times.values())

                def tm(node):
                    if node.kind == TimepointKind.GLOBAL_START:
                        return Fraction(0)
                    if node.kind == TimepointKind.GLOBAL_END:
                        return horizon
                    return times[(node.kind, id(node.action_instance))]
                bad = None
                for a_node, lst in stn.get_constraints().items():
                    for lo, hi, b_node in lst:
                        diff = tm(b_node) - tm(a_node)   # as implemented by the constructor and getter (the docstring states the mirror image)
                        if (lo is not None and diff < lo) or (hi is not None and diff > hi):
                            bad = f"{lo} <= T({b_node}) - T({a_node}) <= {hi} but the original times give {diff}"
                if bad:
                    failures.append({"what": f"seed {s}: original times violate an STN constraint: {bad}", "concrete": desc, "observed": bad})
                    continue
                try:
                    back = stn.convert_to(PlanKind.TIME_TRIGGERED_PLAN, pr)
                    res = tv.validate(pr, back)
                    bplan = [(st, ai.action, ai.actual_parameters_objects if hasattr(ai, "actual_parameters_objects") else tuple(p.object() for p in ai.actual_parameters), d)
                             for st, ai, d in back.timed_actions]
                    ok2, why = tempsem.valid(pr, bplan)
                except tempsem.Ambiguous:
                    continue
                except Exception as e:  # noqa
                    failures.append({"what": f"seed {s}: conversion back raised {type(e).__name__}: {e}", "concrete": desc, "observed": repr(e)})
                    continue
                if not ok2 or res.status != ValidationResultStatus.VALID:
                    from unified_planning.model import DurativeAction as _DA
                    sig = "plain"
                    if any(isinstance(a, _DA) and not (a.duration.lower.is_constant() and a.duration.upper.is_constant()) for _, a, _, _ in plan):
                        sig = "fluent-dependent-duration-bound"
                    failures.append({"what": f"seed {s}: plan converted back from the STN is invalid ({why or res.status.name}) [{sig}]",
                                     "concrete": desc, "observed": [f"{st}: {ai} [{d}]" for st, ai, d in back.timed_actions]})
                if len(samples) < 3 and len(plan) >= 2:
                    samples.append({"problem": pr.name, "plan": desc["plan"], "back": [f"{st}: {ai} [{d}]" for st, ai, d in back.timed_actions]})
            from rtc.known import stop as _stop
            if _stop("C26", failures, 5):
                break
    return {"evaluations": evals, "distinct_nontrivial": len(nontrivial), "failures": failures[:60],
            "rule": f"{nprob} generated temporal problems x {nplans} plans, kept when valid under the reference temporal semantics; "
                    f"non-trivial = valid plan with at least two instances", "samples": samples, "bound": f"plans <= 3 instances"}


LEVEL = "exploration"
EXPLANATION = __doc__

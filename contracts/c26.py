"""C26 — time-triggered and STN plan conversions are faithful.

B: valid time-triggered plans (reference temporal semantics) of generated temporal problems: the STN plan
obtained by the real conversion is consistent, the original start times and durations satisfy every
constraint it returns, and the plan converted back is still valid (reference semantics and real validator).
"""
import warnings
from fractions import Fraction

UNITS = []
USES_THEORY = False


def bounded(tier, seed):
    from rtc.tgen import TGen
    from spec import tempsem
    from unified_planning.plans import TimeTriggeredPlan, ActionInstance, PlanKind
    from unified_planning.model import TimepointKind
    from unified_planning.engines.plan_validator import TimeTriggeredPlanValidator
    from unified_planning.engines.results import ValidationResultStatus
    nprob, nplans = (500, 10) if tier == "quick" else (5000, 14)
    failures, evals, nontrivial, samples = [], 0, set(), []
    with warnings.catch_warnings():
        warnings.simplefilter("ignore")
        tv = TimeTriggeredPlanValidator()
        for i in range(nprob):
            s = (seed + 3) * 100003 + i
            g = TGen(s, timed=False)
            try:
                pr = g.problem(f"t{s}")
            except Exception:  # noqa
                continue
            if not tv.supports(pr.kind):
                continue
            for k in range(nplans):
                plan = g.plan(pr)
                if not plan:
                    continue
                try:
                    ok, _ = tempsem.valid(pr, plan)
                except tempsem.Ambiguous:
                    continue
                if not ok:
                    continue
                ais = [ActionInstance(a, ps) for _, a, ps, _ in plan]
                ttp = TimeTriggeredPlan([(st, ai, d) for (st, _, _, d), ai in zip(plan, ais)])
                desc = {"problem": str(pr), "plan": [f"{st}: {a.name}({','.join(o.name for o in ps)}) [{d}]" for st, a, ps, d in plan]}
                evals += 1
                try:
                    stn = ttp.convert_to(PlanKind.STN_PLAN, pr)
                except Exception as e:  # noqa
                    failures.append({"what": f"seed {s}: conversion to STN raised {type(e).__name__}: {e}", "concrete": desc, "observed": repr(e)})
                    continue
                if len(plan) >= 2:
                    nontrivial.add((s, tuple(desc["plan"])))
                if not stn.is_consistent():
                    failures.append({"what": f"seed {s}: STN plan of a valid time-triggered plan is inconsistent", "concrete": desc, "observed": str(stn)})
                    continue
                times = {}
                for (st, _, _, d), ai in zip(plan, ais):
                    times[(TimepointKind.START, id(ai))] = Fraction(st)
                    times[(TimepointKind.END, id(ai))] = Fraction(st) + (Fraction(d) if d is not None else 0)
                horizon = max(times.values())

                def tm(node):
                    if node.kind == TimepointKind.GLOBAL_START:
                        return Fraction(0)
                    if node.kind == TimepointKind.GLOBAL_END:
                        return horizon
                    return times[(node.kind, id(node.action_instance))]
                bad = None
                for a_node, lst in stn.get_constraints().items():
                    for lo, hi, b_node in lst:
                        diff = tm(b_node) - tm(a_node)   # as implemented by the constructor and getter (the docstring states the mirror image)
                        if (lo is not None and diff < lo) or (hi is not None and diff > hi):
                            bad = f"{lo} <= T({b_node}) - T({a_node}) <= {hi} but the original times give {diff}"
                if bad:
                    failures.append({"what": f"seed {s}: original times violate an STN constraint: {bad}", "concrete": desc, "observed": bad})
                    continue
                try:
                    back = stn.convert_to(PlanKind.TIME_TRIGGERED_PLAN, pr)
                    res = tv.validate(pr, back)
                    bplan = [(st, ai.action, ai.actual_parameters_objects if hasattr(ai, "actual_parameters_objects") else tuple(p.object() for p in ai.actual_parameters), d)
                             for st, ai, d in back.timed_actions]
                    ok2, why = tempsem.valid(pr, bplan)
                except tempsem.Ambiguous:
                    continue
                except Exception as e:  # noqa
                    failures.append({"what": f"seed {s}: conversion back raised {type(e).__name__}: {e}", "concrete": desc, "observed": repr(e)})
                    continue
                if not ok2 or res.status != ValidationResultStatus.VALID:
                    failures.append({"what": f"seed {s}: plan converted back from the STN is invalid ({why or res.status.name})",
                                     "concrete": desc, "observed": [f"{st}: {ai} [{d}]" for st, ai, d in back.timed_actions]})
                if len(samples) < 3 and len(plan) >= 2:
                    samples.append({"problem": pr.name, "plan": desc["plan"], "back": [f"{st}: {ai} [{d}]" for st, ai, d in back.timed_actions]})
            if len(failures) >= 5:
                break
    return {"evaluations": evals, "distinct_nontrivial": len(nontrivial), "failures": failures[:5],
            "rule": f"{nprob} generated temporal problems x {nplans} plans, kept when valid under the reference temporal semantics; "
                    f"non-trivial = valid plan with at least two instances", "samples": samples, "bound": f"plans <= 3 instances"}


LEVEL = "exploration"
EXPLANATION = __doc__

"""C13 — substitution replaces exactly the free occurrences of its keys.

P (fold schema; DagWalker.walk computes the fold -- C14): for every operator kind, the handler the real Substituter dispatches it to
(walk_replace_or_identity, with IdentityDagWalker.super and the IdentityDagWalker.walk_<kind> it selects inlined from /repo's source,
ExpressionManager constructors by their C16 contracts) is verified against
  * syntactic clause: the result is subs[e] when e is a key -- whatever the children's results are, so nothing is substituted inside a
    replaced occurrence and inserted values are never walked again -- and otherwise the node rebuilt from the children's results
    (for a leaf that is not a key: the very same node, by hash-consing);
  * semantic corollary for the Boolean / arithmetic operators and leaves: with ev' the evaluation under the interpretation updated by
    the map (ev'(k) = ev(subs[k]) for a leaf key k, unchanged on other leaves, the operators' own equations elsewhere),
    children: ev(args[j]) = ev'(arg_j(e))  =>  ev(result) = ev'(e)      (compound keys: no semantic claim, as in DESIGN.md C13).
Substituter.substitute: the compatibility loop is proved to raise UPTypeError before the walk is entered and without writing any
field of the walker (frame), and otherwise to call walk exactly once with the promoted map.

B: random expressions and random type-compatible substitution maps (keys: fluent expressions, variables, parameters,
compound sub-expressions): the real Substituter's result equals an independent top-down reference substitution
(maximal occurrences first, no re-substitution, keys mentioning a variable bound by an enclosing quantifier are skipped
inside it); for leaf keys the result evaluates like the original under the updated interpretation; incompatible maps are
rejected with UPTypeError and a following unrelated substitution is unaffected.
"""
import warnings
from unified_planning.model.operators import OperatorKind as OK

USES_THEORY = True


def ref_subst(env, e, subs):
    em = env.expression_manager
    fvo = env.free_vars_oracle
    if e in subs:
        return subs[e]
    if e.is_exists() or e.is_forall():
        bound = set(e.variables())
        inner = {k: v for k, v in subs.items() if not (set(fvo.get_free_variables(k)) & bound)}
        body = ref_subst(env, e.arg(0), inner)
        return (em.Exists if e.is_exists() else em.Forall)(body, *e.variables())
    if not e.args:
        return e
    args = [ref_subst(env, a, subs) for a in e.args]
    if all(a is b for a, b in zip(args, e.args)):
        return e
    return rebuild(em, e, args)


def rebuild(em, e, args):
    k = e.node_type
    f = {OK.AND: em.And, OK.OR: em.Or, OK.PLUS: em.Plus, OK.TIMES: em.Times}.get(k)
    if f:
        return em.create_node(k, tuple(args))
    if k == OK.FLUENT_EXP:
        return em.FluentExp(e.fluent(), tuple(args))
    return em.create_node(k, tuple(args), e._content.payload)


def bounded(tier, seed):
    from rtc.exprgen import ExprGen
    from spec.ev import ev
    from unified_planning.exceptions import UPTypeError
    from unified_planning.shortcuts import Int, Real, TRUE, FALSE, Plus
    n = 800 if tier == "quick" else 15000
    g = ExprGen(seed + 1, big=False)
    env = g.pr.environment
    rng = g.rng
    failures, evals, nontrivial, samples = [], 0, set(), []

    def subexps(e, acc):
        acc.append(e)
        for a in e.args:
            subexps(a, acc)
    with warnings.catch_warnings():
        warnings.simplefilter("ignore")
        for i in range(n):
            try:
                e = g.boolean(3) if i % 2 else g.num(3)
            except Exception:  # noqa
                continue
            subs_all = []
            subexps(e, subs_all)
            keys = rng.sample(subs_all, min(len(subs_all), rng.randint(1, 3)))
            subs = {}
            for k in keys:
                t = k.type
                try:
                    if t.is_bool_type():
                        subs[k] = rng.choice([TRUE(), FALSE(), g.q(), g.p(g.objs[0])])
                    elif t.is_int_type() or t.is_real_type():
                        subs[k] = rng.choice([Int(rng.randint(-2, 3)), g.x(), Plus(g.x(), Int(1))]) if not t.is_real_type() else rng.choice([g.y(), Int(2)])
                    elif t.is_user_type():
                        subs[k] = rng.choice(g.objs)
                except Exception:  # noqa
                    pass
            if not subs:
                continue
            evals += 1
            try:
                got = e.substitute(subs)
            except UPTypeError:
                continue      # a generated value happened to be incompatible (e.g. real for int): documented rejection
            except Exception as ex:  # noqa
                failures.append({"what": f"substitute raised {type(ex).__name__}: {ex}", "concrete": {"expression": str(e), "map": {str(k): str(v) for k, v in subs.items()}}, "observed": repr(ex)})
                continue
            em_ = env.expression_manager
            psubs = {}
            for k_, v_ in subs.items():
                k2, v2 = em_.auto_promote(k_, v_)
                psubs[k2] = v2
            want = ref_subst(env, e, psubs)
            if got is not e:
                nontrivial.add(str(e))
            if got is not want:
                failures.append({"what": "result differs from the top-down reference substitution",
                                 "concrete": {"expression": str(e), "map": {str(k): str(v) for k, v in subs.items()}},
                                 "observed": {"got": str(got), "reference": str(want)}})
            if len(samples) < 3 and i % 131 == 2:
                samples.append({"expression": str(e)[:120], "map": {str(k)[:40]: str(v) for k, v in subs.items()}, "result": str(got)[:120]})
            if len(failures) >= 6:
                break
        # directed family (independent of the random stream): the VALUE of a substitution mentions a variable bound by a quantifier around an
        # occurrence of the key (the key itself does not).  The statement restricts only keys, so the occurrence is replaced.
        from unified_planning.shortcuts import Variable, Exists, Forall, And, Or, Not, Equals, LE
        vx, vy = Variable("vx", g.T), Variable("vy", g.T)
        o0, o1 = g.objs[0], g.objs[1]
        directed = []
        for Q in (Forall, Exists):
            directed += [
                (Q(Or(g.q(), g.p(vx)), vx), {g.q(): g.p(vx)}),
                (Q(And(g.p(o0), g.p(vx)), vx), {g.p(o0): g.p(vx)}),
                (Q(And(g.p(o0), g.p(vx)), vx), {o0: vx}),
                (And(g.p(vy), Q(Or(g.p(vy), g.p(vx)), vx)), {vy: vx}),
                (Q(And(g.p(vx), Q(Or(g.q(), g.p(vx), g.p(vy)), vx)), vy), {g.q(): g.p(vx)}),
                (Q(And(g.p(vx), Q(Or(g.q(), g.p(vx), g.p(vy)), vx)), vy), {g.q(): g.p(vy)}),
                (Q(LE(g.x(), 3) & g.p(vx), vx), {g.x(): g.s_(), g.p(o1): g.p(vx)}),
                (Q(Equals(g.loc(o0), vx), vx), {g.loc(o0): g.loc(vx)}),
                (Q(Or(g.p(g.loc(o0)), g.p(vx)), vx, vy), {g.loc(o0): vy, g.q(): g.p(vx)}),
                (Q(Or(g.q(), g.p(vx)), vx), {g.q(): Not(g.p(vx)), g.p(vx): g.q()}),      # second key contains the bound variable: kept
            ]
        for e, subs in directed:
            evals += 1
            try:
                got = e.substitute(subs)
            except Exception as ex:  # noqa
                failures.append({"what": f"substitute raised {type(ex).__name__}: {ex}", "concrete": {"expression": str(e), "map": {str(k): str(v) for k, v in subs.items()}}, "observed": repr(ex)})
                continue
            psubs = {}
            for k_, v_ in subs.items():
                k2, v2 = env.expression_manager.auto_promote(k_, v_)
                psubs[k2] = v2
            want = ref_subst(env, e, psubs)
            if got is not e:
                nontrivial.add(str(e))
            if got is not want:
                failures.append({"what": "result differs from the top-down reference substitution (value mentions a variable bound around the key)",
                                 "concrete": {"expression": str(e), "map": {str(k): str(v) for k, v in subs.items()}},
                                 "observed": {"got": str(got), "reference": str(want)}})
        # incompatible map: rejected before anything changes, later calls unaffected
        bad_attempts = 0
        for i in range(60 if tier == "quick" else 600):
            e = g.boolean(2)
            try:
                e.substitute({g.x(): TRUE()})
                failures.append({"what": "incompatible substitution int := bool accepted", "concrete": {"expression": str(e)}, "observed": None})
            except UPTypeError:
                bad_attempts += 1
            e2 = g.num(2)
            if e2.substitute({g.x(): Int(1)}) is not ref_subst(env, e2, {g.x(): Int(1)}):
                failures.append({"what": "substitution after a rejected one differs from the reference", "concrete": {"expression": str(e2)}, "observed": None})
        evals += bad_attempts
    return {"evaluations": evals, "distinct_nontrivial": len(nontrivial), "failures": failures[:6],
            "rule": f"{n} random expressions (depth <= 3, quantifiers) x random maps of 1-3 keys drawn from their own sub-expressions; "
                    f"non-trivial = expression changed by the substitution", "samples": samples, "bound": f"{n} expressions"}




# ======================================================================================================= proved layer
import z3
from pyvc.values import SUnion, Ref, Seq, Map, SBool, SRef, SSeq, SMap, Rec, CList, CDict, Loc, ExcVal, fresh_name, zbool, zint, Unsupported, SEnum
from pyvc.verify import Unit
from pyvc.engine import LoopSpec
from pyvc import builtins as B
from . import theory as T
from .theory import evb, evn, evo, is_numeric, args_arr, args_len, node_type, OKT
import unified_planning.model.walkers.substituter as _sub
import unified_planning.model.walkers.identitydag as _idw
from unified_planning.model.walkers.generic import nt_to_fun
from unified_planning.exceptions import UPTypeError as _UPTypeError

_F = T.FNode.z3sort()
_ARR = z3.ArraySort(z3.IntSort(), _F)
# evaluation under the interpretation updated by the substitution map
evb_s = z3.Function("evb_sub", _F, z3.BoolSort())
evn_s = z3.Function("evn_sub", _F, z3.RealSort())
evo_s = z3.Function("evo_sub", _F, T.Object.z3sort())
ssum_s = z3.Function("ssum_sub", _ARR, z3.IntSort(), z3.RealSort())
sprod_s = z3.Function("sprod_sub", _ARR, z3.IntSort(), z3.RealSort())
LEAVES = (OK.BOOL_CONSTANT, OK.INT_CONSTANT, OK.REAL_CONSTANT, OK.PARAM_EXP, OK.VARIABLE_EXP, OK.OBJECT_EXP)
# hash-consing (C16): a leaf constructor applied to the payload of an existing leaf returns that very node
_mk_leaf = {OK.PARAM_EXP: ("ParameterExp", T.Parameter), OK.VARIABLE_EXP: ("VariableExp", T.Variable), OK.OBJECT_EXP: ("ObjectExp", T.Object)}


def _leaf_ctor(kind):
    nm, ref = _mk_leaf[kind]
    f = z3.Function(f"mk.{nm}", ref.z3sort(), _F)

    def m(eng, st, selfv, args, kw):
        r = f(args[0].z)
        T.assume_node(eng, st, r, kind)
        st.assume(args_len(r) == 0, B._uf(f"FNode.payload.{kind.name}", _F, ref.z3sort())(r) == args[0].z)
        yield st, T.FNode.wrap(r)
    return nm, m, f


def same_value_s(r, e):
    """ev(r) == ev'(e)"""
    return z3.And(evb(r) == evb_s(e), evn(r) == evn_s(e), evo(r) == evo_s(e))


def sem_s(e, kind):
    """defining equation of ev' at a node of kind `kind` that is NOT a key (the operators' own equations; leaves unchanged)"""
    j = z3.Int(fresh_name("j"))
    arr, n = args_arr(e), args_len(e)
    a0, a1 = z3.Select(arr, 0), z3.Select(arr, 1)
    if kind == OK.AND:
        return evb_s(e) == z3.ForAll([j], z3.Implies(z3.And(0 <= j, j < n), evb_s(z3.Select(arr, j))))
    if kind == OK.OR:
        return evb_s(e) == z3.Exists([j], z3.And(0 <= j, j < n, evb_s(z3.Select(arr, j))))
    if kind == OK.NOT:
        return evb_s(e) == z3.Not(evb_s(a0))
    if kind == OK.IMPLIES:
        return evb_s(e) == z3.Implies(evb_s(a0), evb_s(a1))
    if kind == OK.IFF:
        return evb_s(e) == (evb_s(a0) == evb_s(a1))
    if kind == OK.LE:
        return evb_s(e) == (evn_s(a0) <= evn_s(a1))
    if kind == OK.LT:
        return evb_s(e) == (evn_s(a0) < evn_s(a1))
    if kind == OK.EQUALS:
        return evb_s(e) == z3.If(z3.And(is_numeric(a0), is_numeric(a1)), evn_s(a0) == evn_s(a1),
                                 z3.If(z3.Or(is_numeric(a0), is_numeric(a1)), z3.BoolVal(False), evo_s(a0) == evo_s(a1)))
    if kind == OK.PLUS:
        return evn_s(e) == ssum_s(arr, n)
    if kind == OK.TIMES:
        return evn_s(e) == sprod_s(arr, n)
    if kind == OK.MINUS:
        return evn_s(e) == evn_s(a0) - evn_s(a1)
    if kind == OK.DIV:
        return z3.Implies(evn_s(a1) != 0, evn_s(e) == evn_s(a0) / evn_s(a1))
    if kind in LEAVES:
        return z3.And(evb_s(e) == evb(e), evn_s(e) == evn(e), evo_s(e) == evo(e))
    return z3.BoolVal(True)


def fold_s_axioms():
    a, b = z3.Const("a!s", _ARR), z3.Const("b!s", _ARR)
    n, m = z3.Int("n!s"), z3.Int("m!s")
    same = z3.ForAll([m], z3.Implies(z3.And(0 <= m, m < n), evn(z3.Select(a, m)) == evn_s(z3.Select(b, m))))
    return [z3.ForAll([a], ssum_s(a, 0) == 0),
            z3.ForAll([a, n], z3.Implies(n > 0, ssum_s(a, n) == ssum_s(a, n - 1) + evn_s(z3.Select(a, n - 1))), patterns=[ssum_s(a, n)]),
            z3.ForAll([a], sprod_s(a, 0) == 1),
            z3.ForAll([a, n], z3.Implies(n > 0, sprod_s(a, n) == sprod_s(a, n - 1) * evn_s(z3.Select(a, n - 1))), patterns=[sprod_s(a, n)]),
            # congruence of the folds in the values (induction on n; same lemma as theory.prefix_lemmas, across the two evaluations)
            z3.ForAll([a, b, n], z3.Implies(z3.And(n >= 0, same), T.ssum(a, n) == ssum_s(b, n)), patterns=[z3.MultiPattern(T.ssum(a, n), ssum_s(b, n))]),
            z3.ForAll([a, b, n], z3.Implies(z3.And(n >= 0, same), T.sprod(a, n) == sprod_s(b, n)), patterns=[z3.MultiPattern(T.sprod(a, n), sprod_s(b, n))])]


SEM_KINDS = (OK.AND, OK.OR, OK.NOT, OK.IMPLIES, OK.IFF, OK.LE, OK.LT, OK.EQUALS, OK.PLUS, OK.MINUS, OK.TIMES, OK.DIV) + LEAVES


class ReplaceOrIdentity(Unit):
    prop = "C13"

    def __init__(self, kind):
        self.kind = kind
        self.fn = getattr(_sub.Substituter, nt_to_fun(kind))          # walk_replace_or_identity for every kind (read reflectively)
        self.rebuild = getattr(_idw.IdentityDagWalker, nt_to_fun(kind))
        self.name = f"Substituter[{kind.name}] -> {self.fn.__name__} / {self.rebuild.__name__}"
        self.doc = "key => its value, whatever the children's results; otherwise the node rebuilt from the children's results; ev(result) == ev'(e)"

    def target(self):
        return self.fn

    def configure(self, eng):
        eng.axioms += T.semantic_axioms() + T.fold_axioms() + T.prefix_lemmas() + fold_s_axioms()
        for k in _mk_leaf:
            nm, m, f = _leaf_ctor(k)
            T.Manager.methods[nm] = m
            ref = _mk_leaf[k][1]
            x = z3.Const("x!hc", _F)
            pay = B._uf(f"FNode.payload.{k.name}", _F, ref.z3sort())
            eng.axioms.append(z3.ForAll([x], z3.Implies(node_type(x) == OKT.consts[k], f(pay(x)) == x), patterns=[pay(x)]))
        # constants: Bool / Int / Real of an existing constant's payload is that constant (hash-consing, C16)
        x = z3.Const("x!hc2", _F)
        eng.axioms += [z3.ForAll([x], z3.Implies(node_type(x) == OKT.consts[OK.BOOL_CONSTANT], T._mkbool(B._uf("FNode.payload.BOOL_CONSTANT", _F, z3.BoolSort())(x)) == x), patterns=[node_type(x)]),
                       z3.ForAll([x], z3.Implies(node_type(x) == OKT.consts[OK.INT_CONSTANT], T._mkint(B._uf("FNode.payload.INT_CONSTANT", _F, z3.IntSort())(x)) == x), patterns=[node_type(x)]),
                       z3.ForAll([x], z3.Implies(node_type(x) == OKT.consts[OK.REAL_CONSTANT], T._mkreal(B._uf("FNode.payload.REAL_CONSTANT", _F, z3.RealSort())(x)) == x), patterns=[node_type(x)])]
        kind = self.kind
        orig = T.FNode.attrs.get("node_type")

        def node_type_attr(e_, st, x_):
            # the unit fixes node_type(expression) == kind in its precondition: reading it back gives the concrete member,
            # so that Walker.super's getattr(cls, nt_to_fun(...)) dispatch is executed as written
            if hasattr(self, "_ez") and z3.eq(x_.z, self._ez):
                return kind
            return SEnum(OKT, node_type(x_.z))
        T.FNode.attrs["node_type"] = node_type_attr

    def setup(self, eng, st):
        mgr = T.Manager.fresh("manager")
        w = st.alloc(Rec(_sub.Substituter, {"manager": mgr, "environment": T.Environment.fresh("env")}), "Substituter")
        e = T.FNode.fresh("expression")
        self._ez = e.z
        T.assume_node(eng, st, e.z, self.kind)
        subs = eng.fresh_of(st, Map(T.FNode, T.FNode), "subs")
        iskey = z3.Select(subs.has, e.z)
        if self.kind in T.ARITY or self.kind in LEAVES:
            n = T.ARITY.get(self.kind, 0)
            items = [T.FNode.fresh(f"arg{j}") for j in range(n)]
            args = st.alloc(CList(items), "list")
            seq = SSeq.of(T.FNode, items)
        else:
            seq = eng.fresh_of(st, Seq(T.FNode), "args")
            st.assume(seq.n == args_len(e.z))
            args = st.alloc(seq, "list")
        j = z3.Int(fresh_name("j"))
        # children: the result of child j has, under the original interpretation, the value of child j under the updated one
        st.assume(z3.ForAll([j], z3.Implies(z3.And(0 <= j, j < seq.n), z3.And(same_value_s(z3.Select(seq.arr, j), z3.Select(args_arr(e.z), j)),
                                                                           is_numeric(z3.Select(seq.arr, j)) == is_numeric(z3.Select(args_arr(e.z), j)))),
                            patterns=[z3.Select(seq.arr, j)]))
        # the updated interpretation: a leaf key takes the value of its image; everything else follows its own equation
        st.assume(z3.Implies(z3.And(iskey, z3.BoolVal(self.kind in LEAVES)), same_value_s(z3.Select(subs.val, e.z), e.z)))
        st.assume(z3.Implies(z3.Not(iskey), sem_s(e.z, self.kind)))
        if self.kind == OK.DIV:
            st.assume(evn_s(z3.Select(args_arr(e.z), 1)) != 0, evn(z3.Select(seq.arr, 1)) != 0)
        return [w, e, args], {"subs": st.alloc(subs, "dict")}, dict(e=e, seq=seq, subs=subs)

    def post(self, eng, ctx, st, out):
        if out[0] != "return":
            return
        r, e, seq, subs = out[1], ctx["e"], ctx["seq"], ctx["subs"]
        if isinstance(r, SUnion):
            r = r.some()          # `res = subs.get(...); if res is not None: return res`: the path condition holds the guard
        iskey = z3.Select(subs.has, e.z)
        st.oblige("a key is replaced by its value (children ignored)", z3.Implies(iskey, r.z == z3.Select(subs.val, e.z)))
        k = self.kind
        C = OKT.consts
        if k in LEAVES:
            st.oblige("a leaf that is not a key is returned unchanged", z3.Implies(z3.Not(iskey), r.z == e.z))
        elif k in T.ARITY:
            same_args = z3.And([z3.Select(args_arr(r.z), j) == z3.Select(seq.arr, j) for j in range(T.ARITY[k])])
            notnot = z3.And(k == OK.NOT, node_type(z3.Select(seq.arr, 0)) == C[OK.NOT]) if k == OK.NOT else z3.BoolVal(False)
            st.oblige("otherwise the same operator applied to the children's results",
                      z3.Implies(z3.Not(iskey), z3.Or(z3.And(node_type(r.z) == C[k], args_len(r.z) == T.ARITY[k], same_args),
                                                      z3.And(notnot, r.z == z3.Select(args_arr(z3.Select(seq.arr, 0)), 0)))))
        else:
            j = z3.Int(fresh_name("j"))
            st.oblige("otherwise the same operator applied to the children's results (0 / 1 arguments normalised by the constructor)",
                      z3.Implies(z3.And(z3.Not(iskey), seq.n >= 2),
                                 z3.And(node_type(r.z) == C[k], args_len(r.z) == seq.n,
                                        z3.ForAll([j], z3.Implies(z3.And(0 <= j, j < seq.n), z3.Select(args_arr(r.z), j) == z3.Select(seq.arr, j))))))
        if k in SEM_KINDS:
            guard = z3.Or(z3.Not(iskey), z3.BoolVal(k in LEAVES))
            if k in (OK.AND, OK.OR, OK.NOT, OK.IMPLIES, OK.IFF, OK.LE, OK.LT, OK.EQUALS, OK.BOOL_CONSTANT):
                st.oblige("ev(result) == ev'(e)  [truth value]", z3.Implies(guard, evb(r.z) == evb_s(e.z)))
            elif k in (OK.PLUS, OK.MINUS, OK.TIMES, OK.DIV, OK.INT_CONSTANT, OK.REAL_CONSTANT):
                st.oblige("ev(result) == ev'(e)  [numeric value]", z3.Implies(guard, evn(r.z) == evn_s(e.z)))
            else:
                st.oblige("ev(result) == ev'(e)", z3.Implies(guard, same_value_s(r.z, e.z)))


_walk_calls = "walk_calls"


class SubstituteEntry(Unit):
    prop = "C13"
    name = "Substituter.substitute"
    doc = "an incompatible pair raises UPTypeError before walk is entered and without touching the walker; otherwise walk is called once with the (promoted) map"
    allowed_raises = (_UPTypeError,)

    def target(self):
        return _sub.Substituter.substitute

    def configure(self, eng):
        def auto_promote(eng_, st, selfv, args, kw):
            yield st, st.alloc(CList(list(args)), "list")      # FNode arguments are returned as they are (expression.py auto_promote)
        T.Manager.methods["auto_promote"] = auto_promote

        def walk(eng_, st, args, kw):
            st.ghost[_walk_calls] = st.ghost.get(_walk_calls, 0) + 1
            st.ghost["walk_args"] = (args[1], eng_.deref(st, kw["subs"]))
            yield st, T.FNode.fresh("walk_result")
        from unified_planning.model.walkers.dag import DagWalker
        eng.contracts[DagWalker.walk] = walk
        ty = B._uf("FNode.type", _F, T.Type.z3sort())
        comp = B._uf("Type.is_compatible()", T.Type.z3sort(), T.Type.z3sort(), z3.BoolSort())

        def inv(L):
            S = L._pre.field(L._pre.self, "__subs__") if False else self._S
            new = L.new_substitutions
            i = zint(L._i)
            k = z3.Const(fresh_name("k"), _F)
            j = z3.Int(fresh_name("j"))
            if isinstance(new, (B.PendingEmpty, CDict)):
                has = lambda kk: z3.BoolVal(False)      # noqa: E731
                val = None
            else:
                has = lambda kk: z3.Select(new.has, kk)  # noqa: E731
                val = new.val
            out = [("new map == the scanned prefix of the given map",
                    z3.ForAll([k], z3.And(has(k) == z3.And(z3.Select(S.has, k), z3.Select(S.idx, k) < i),
                                          z3.Implies(has(k), (z3.Select(val, k) if val is not None else z3.Select(S.val, k)) == z3.Select(S.val, k))))),
                   ("every scanned pair is type compatible",
                    z3.ForAll([j], z3.Implies(z3.And(0 <= j, j < i), comp(ty(z3.Select(S.keys.arr, j)), ty(z3.Select(S.val, z3.Select(S.keys.arr, j)))))))]
            return out
        eng.loops[("unified_planning.model.walkers.substituter.Substituter.substitute", 0)] = LoopSpec(
            inv, modifies=["k", "v", "new_k", "new_v", "new_substitutions"], types={"new_substitutions": Map(T.FNode, T.FNode, ordered=True)})

    def setup(self, eng, st):
        mgr = T.Manager.fresh("manager")
        w = st.alloc(Rec(_sub.Substituter, {"manager": mgr, "environment": T.Environment.fresh("env"), "stack": st.alloc(CList([]), "list"),
                                            "memoization": st.alloc(CDict({}), "dict")}), "Substituter")
        e = T.FNode.fresh("expression")
        S = eng.fresh_of(st, Map(T.FNode, T.FNode, ordered=True), "substitutions")
        self._S = S
        self._w0 = dict(st.load(w).fields)
        return [w, e, st.alloc(S, "dict")], {}, dict(e=e, S=S, w=w)

    def post(self, eng, ctx, st, out):
        S, e = ctx["S"], ctx["e"]
        ty = B._uf("FNode.type", _F, T.Type.z3sort())
        comp = B._uf("Type.is_compatible()", T.Type.z3sort(), T.Type.z3sort(), z3.BoolSort())
        j = z3.Int(fresh_name("j"))
        all_ok = z3.ForAll([j], z3.Implies(z3.And(0 <= j, j < S.keys.n), comp(ty(z3.Select(S.keys.arr, j)), ty(z3.Select(S.val, z3.Select(S.keys.arr, j))))))
        calls = st.ghost.get(_walk_calls, 0)
        w_now = st.load(ctx["w"]).fields
        frame = all(w_now[f] is self._w0[f] or (isinstance(w_now[f], Loc) and isinstance(self._w0[f], Loc) and w_now[f].id == self._w0[f].id and True)
                    for f in self._w0)
        if out[0] == "raise":
            st.oblige("rejected only when some pair is incompatible", z3.Not(all_ok))
            st.oblige("rejected before the walk is entered", z3.BoolVal(calls == 0))
            st.oblige("no field of the walker was written before the rejection", z3.BoolVal(frame))
            return
        if S is not None:
            empty = S.keys.n == 0
            if calls == 0:
                st.oblige("without a walk the expression itself is returned, only for the empty map", z3.And(empty, out[1].z == e.z))
            else:
                wa_e, wa_s = st.ghost["walk_args"]
                k = z3.Const(fresh_name("k"), _F)
                st.oblige("accepted only when every pair is compatible", all_ok)
                st.oblige("walk is entered once, on the given expression", z3.And(z3.BoolVal(calls == 1), wa_e.z == e.z))
                if isinstance(wa_s, SMap):
                    st.oblige("walk receives exactly the given map", z3.ForAll([k], z3.And(z3.Select(wa_s.has, k) == z3.Select(S.has, k),
                                                                                  z3.Implies(z3.Select(S.has, k), z3.Select(wa_s.val, k) == z3.Select(S.val, k)))))
                else:
                    st.oblige("walk receives exactly the given map", z3.BoolVal(False))


FVO13 = Ref("FreeVarsOracle13")
FVO13.observers["get_free_variables"] = ((T.FNode,), Seq(T.Variable))      # a set in the real code; only membership / iteration is used
Env13 = Ref("Environment13", fields={"free_vars_oracle": FVO13})
_mkq = z3.Function("mk.quantifier", OKT.z3sort(), _F, z3.ArraySort(z3.IntSort(), T.Variable.z3sort()), z3.IntSort(), _F)


def _quantifier_ctor(kind):
    def m(eng, st, selfv, args, kw):
        from pyvc.engine import StarSeq
        body = args[0]
        rest = args[1:]
        if len(rest) == 1 and isinstance(rest[0], StarSeq):
            vs = rest[0].seq
        else:
            vs = SSeq.of(T.Variable, list(rest))
        for s, zero in eng.branch(st, vs.n == 0, "mk:novars"):
            if zero:
                from unified_planning.exceptions import UPExpressionDefinitionError
                yield s, ExcVal(UPExpressionDefinitionError, (), "Exists/Forall without variables")
                continue
            r = _mkq(OKT.consts[kind], body.z, vs.arr, vs.n)
            s.assume(node_type(r) == OKT.consts[kind], args_len(r) == 1, z3.Select(args_arr(r), 0) == body.z,
                     B._uf(f"FNode.payload.{kind.name}.len", _F, z3.IntSort())(r) == vs.n)
            j = z3.Int(fresh_name("j"))
            parr = B._uf(f"FNode.payload.{kind.name}.arr", _F, z3.ArraySort(z3.IntSort(), T.Variable.z3sort()))(r)
            s.assume(z3.ForAll([j], z3.Implies(z3.And(0 <= j, j < vs.n), z3.Select(parr, j) == z3.Select(vs.arr, j))))
            yield s, T.FNode.wrap(r)
    return m


class QuantifierBranch(Unit):
    """Substituter._push_with_children_to_stack on an Exists / Forall node"""
    prop = "C13"

    def __init__(self, kind):
        self.kind = kind
        self.name = f"Substituter._push_with_children_to_stack[{kind.name}]"
        self.doc = ("the body is substituted with exactly the keys that mention no variable bound by the quantifier; the memoised result is "
                    "subs[e] for a key, otherwise the quantifier rebuilt over the substituted body with the same variables; nothing else changes")

    def target(self):
        return _sub.Substituter._push_with_children_to_stack

    def configure(self, eng):
        eng.axioms += T.semantic_axioms() + T.fold_axioms()
        T.Manager.methods["Exists"] = _quantifier_ctor(OK.EXISTS)
        T.Manager.methods["Forall"] = _quantifier_ctor(OK.FORALL)
        kind = self.kind

        def node_type_attr(e_, st, x_):
            if hasattr(self, "_ez") and z3.eq(x_.z, self._ez):
                return kind
            return SEnum(OKT, node_type(x_.z))
        T.FNode.attrs["node_type"] = node_type_attr

        def new_substituter(eng_, st, args, kw):
            st.ghost["sub_created"] = st.ghost.get("sub_created", 0) + 1
            yield st, st.alloc(Rec(_sub.Substituter, {"environment": args[0], "fresh_instance": True}), "Substituter")
        eng.contracts[_sub.Substituter] = new_substituter

        def substitute(eng_, st, args, kw):
            subw, body, m = args[0], args[1], eng_.deref(st, args[2])
            st.ghost["substitute_calls"] = st.ghost.get("substitute_calls", 0) + 1
            st.ghost["substitute_args"] = (subw, body, m)
            r = T.FNode.fresh("res_expression")
            st.ghost["res_expression"] = r
            yield st, r
        eng.contracts[_sub.Substituter.substitute] = substitute
        QNP = "unified_planning.model.walkers.substituter.Substituter._push_with_children_to_stack"

        def inv(L):
            S = self._S
            new = L.new_subs
            i = zint(L._i)
            k = z3.Const(fresh_name("k"), _F)
            if isinstance(new, (B.PendingEmpty, CDict)):
                has, val = (lambda kk: z3.BoolVal(False)), None
            else:
                has, val = (lambda kk: z3.Select(new.has, kk)), new.val
            return [("new_subs == the scanned keys that mention no bound variable, with their values",
                     z3.ForAll([k], z3.And(has(k) == z3.And(z3.Select(S.has, k), z3.Select(S.idx, k) < i, self._keep(L._eng, L.st, k)),
                                           z3.Implies(has(k), (z3.Select(val, k) if val is not None else z3.Select(S.val, k)) == z3.Select(S.val, k)))))]
        eng.loops[(QNP, 0)] = LoopSpec(inv, modifies=["k", "v", "new_subs"], types={"new_subs": Map(T.FNode, T.FNode, ordered=True)})

    def _keep(self, eng, st, kz):
        fv = B.observer_uf(eng, st, self._fvo, "get_free_variables", (T.FNode,), Seq(T.Variable), [T.FNode.wrap(kz)])
        vs_arr = B._uf(f"FNode.payload.{self.kind.name}.arr", _F, z3.ArraySort(z3.IntSort(), T.Variable.z3sort()))(self._ez)
        vs_len = B._uf(f"FNode.payload.{self.kind.name}.len", _F, z3.IntSort())(self._ez)
        a, b = z3.Int(fresh_name("a")), z3.Int(fresh_name("b"))
        return z3.Not(z3.Exists([a, b], z3.And(0 <= a, a < fv.n, 0 <= b, b < vs_len, z3.Select(fv.arr, a) == z3.Select(vs_arr, b))))

    def setup(self, eng, st):
        from pyvc.engine import BoundMethod
        env = Env13.fresh("env")
        self._fvo = B.field_uf(eng, st, env, "free_vars_oracle")
        memo = eng.fresh_of(st, Map(T.FNode, T.FNode), "memoization")
        mloc = st.alloc(memo, "dict")
        stack = st.alloc(CList([]), "list")
        w = st.alloc(Rec(_sub.Substituter, {"environment": env, "manager": T.Manager.fresh("manager"), "memoization": mloc, "stack": stack,
                                            "functions": None}), "Substituter")
        handler = getattr(_sub.Substituter, nt_to_fun(self.kind))
        st.setfield(w, "functions", st.alloc(CDict({self.kind: BoundMethod(w, handler)}), "dict"))
        e = T.FNode.fresh("expression")
        self._ez = e.z
        st.assume(node_type(e.z) == OKT.consts[self.kind], args_len(e.z) == 1,
                  B._uf(f"FNode.payload.{self.kind.name}.len", _F, z3.IntSort())(e.z) >= 1)
        S = eng.fresh_of(st, Map(T.FNode, T.FNode, ordered=True), "subs")
        self._S = S
        return [w, e], {"subs": st.alloc(S, "dict")}, dict(e=e, S=S, w=w, memo0=memo, mloc=mloc, stack=stack)

    def post(self, eng, ctx, st, out):
        if out[0] != "return":
            return
        e, S, memo0 = ctx["e"], ctx["S"], ctx["memo0"]
        k = z3.Const(fresh_name("k"), _F)
        calls = st.ghost.get("substitute_calls", 0)
        st.oblige("the body is substituted exactly once, by a fresh Substituter", z3.BoolVal(calls == 1 and st.ghost.get("sub_created", 0) == 1))
        if calls != 1:
            return
        subw, body, m = st.ghost["substitute_args"]
        R = st.ghost["res_expression"]
        st.oblige("... on the quantifier's body", body.z == z3.Select(args_arr(e.z), 0))
        if isinstance(m, SMap):
            st.oblige("... with exactly the keys that mention no bound variable (same values)",
                      z3.ForAll([k], z3.And(z3.Select(m.has, k) == z3.And(z3.Select(S.has, k), self._keep(eng, st, k)),
                                            z3.Implies(z3.Select(m.has, k), z3.Select(m.val, k) == z3.Select(S.val, k)))))
        else:
            st.oblige("... with exactly the keys that mention no bound variable (same values)",
                      z3.ForAll([k], z3.Not(z3.And(z3.Select(S.has, k), self._keep(eng, st, k)))))
        memo1 = st.load(ctx["mloc"])
        iskey = z3.Select(S.has, e.z)
        res = z3.Select(memo1.val, e.z)
        varr = B._uf(f"FNode.payload.{self.kind.name}.arr", _F, z3.ArraySort(z3.IntSort(), T.Variable.z3sort()))
        vlen = B._uf(f"FNode.payload.{self.kind.name}.len", _F, z3.IntSort())
        j = z3.Int(fresh_name("j"))
        rebuilt = z3.And(node_type(res) == OKT.consts[self.kind], args_len(res) == 1, z3.Select(args_arr(res), 0) == R.z, vlen(res) == vlen(e.z),
                         z3.ForAll([j], z3.Implies(z3.And(0 <= j, j < vlen(e.z)), z3.Select(varr(res), j) == z3.Select(varr(e.z), j))))
        st.oblige("the result is memoised for the node", z3.Select(memo1.has, e.z))
        st.oblige("a quantifier that is itself a key is replaced by its value", z3.Implies(iskey, res == z3.Select(S.val, e.z)))
        st.oblige("otherwise it is rebuilt over the substituted body with the same variables", z3.Implies(z3.Not(iskey), rebuilt))
        st.oblige("no other memo entry changes", z3.ForAll([k], z3.Implies(k != e.z, z3.And(z3.Select(memo1.has, k) == z3.Select(memo0.has, k),
                                                                                          z3.Select(memo1.val, k) == z3.Select(memo0.val, k)))))
        stk = st.load(ctx["stack"])
        st.oblige("nothing is pushed on the stack", z3.BoolVal(isinstance(stk, CList) and len(stk.items) == 0))


ROI_KINDS = [OK.AND, OK.OR, OK.NOT, OK.IMPLIES, OK.IFF, OK.LE, OK.LT, OK.EQUALS, OK.PLUS, OK.MINUS, OK.TIMES, OK.DIV,
             OK.BOOL_CONSTANT, OK.INT_CONSTANT, OK.REAL_CONSTANT, OK.PARAM_EXP, OK.VARIABLE_EXP, OK.OBJECT_EXP]
UNITS = [ReplaceOrIdentity(k) for k in ROI_KINDS] + [SubstituteEntry()] + [QuantifierBranch(OK.EXISTS), QuantifierBranch(OK.FORALL)]
LEVEL = "other"
EXPLANATION = __doc__
TRUSTED = ["ExpressionManager constructor contracts incl. hash-consing of leaves (C16)", "DagWalker.walk computes the fold of the handlers (C14)",
           "the semantic corollary is claimed for leaf keys only (compound keys: syntactic clause only)",
           "FreeVarsOracle.get_free_variables is a pure observer; the recursive substitute call on the body is used by its contract "
           "(the fold hypothesis); FLUENT_EXP / DOT / temporal kinds: bounded layer only"]

"""C13 — substitution replaces exactly the free occurrences of its keys.

B: random expressions and random type-compatible substitution maps (keys: fluent expressions, variables, parameters,
compound sub-expressions): the real Substituter's result equals an independent top-down reference substitution
(maximal occurrences first, no re-substitution, keys mentioning a variable bound by an enclosing quantifier are skipped
inside it); for leaf keys the result evaluates like the original under the updated interpretation; incompatible maps are
rejected with UPTypeError and a following unrelated substitution is unaffected.
"""
import warnings
from unified_planning.model.operators import OperatorKind as OK

UNITS = []
USES_THEORY = False


def ref_subst(env, e, subs):
    em = env.expression_manager
    fvo = env.free_vars_oracle
    if e in subs:
        return subs[e]
    if e.is_exists() or e.is_forall():
        bound = set(e.variables())
        inner = {k: v for k, v in subs.items() if not (set(fvo.get_free_variables(k)) & bound)}
        body = ref_subst(env, e.arg(0), inner)
        return (em.Exists if e.is_exists() else em.Forall)(body, *e.variables())
    if not e.args:
        return e
    args = [ref_subst(env, a, subs) for a in e.args]
    if all(a is b for a, b in zip(args, e.args)):
        return e
    return rebuild(em, e, args)


def rebuild(em, e, args):
    k = e.node_type
    f = {OK.AND: em.And, OK.OR: em.Or, OK.PLUS: em.Plus, OK.TIMES: em.Times}.get(k)
    if f:
        return em.create_node(k, tuple(args))
    if k == OK.FLUENT_EXP:
        return em.FluentExp(e.fluent(), tuple(args))
    return em.create_node(k, tuple(args), e._content.payload)


def bounded(tier, seed):
    from rtc.exprgen import ExprGen
    from spec.ev import ev
    from unified_planning.exceptions import UPTypeError
    from unified_planning.shortcuts import Int, Real, TRUE, FALSE, Plus
    n = 800 if tier == "quick" else 15000
    g = ExprGen(seed + 1, big=False)
    env = g.pr.environment
    rng = g.rng
    failures, evals, nontrivial, samples = [], 0, set(), []

    def subexps(e, acc):
        acc.append(e)
        for a in e.args:
            subexps(a, acc)
    with warnings.catch_warnings():
        warnings.simplefilter("ignore")
        for i in range(n):
            try:
                e = g.boolean(3) if i % 2 else g.num(3)
            except Exception:  # noqa
                continue
            subs_all = []
            subexps(e, subs_all)
            keys = rng.sample(subs_all, min(len(subs_all), rng.randint(1, 3)))
            subs = {}
            for k in keys:
                t = k.type
                try:
                    if t.is_bool_type():
                        subs[k] = rng.choice([TRUE(), FALSE(), g.q(), g.p(g.objs[0])])
                    elif t.is_int_type() or t.is_real_type():
                        subs[k] = rng.choice([Int(rng.randint(-2, 3)), g.x(), Plus(g.x(), Int(1))]) if not t.is_real_type() else rng.choice([g.y(), Int(2)])
                    elif t.is_user_type():
                        subs[k] = rng.choice(g.objs)
                except Exception:  # noqa
                    pass
            if not subs:
                continue
            evals += 1
            try:
                got = e.substitute(subs)
            except UPTypeError:
                continue      # a generated value happened to be incompatible (e.g. real for int): documented rejection
            except Exception as ex:  # noqa
                failures.append({"what": f"substitute raised {type(ex).__name__}: {ex}", "concrete": {"expression": str(e), "map": {str(k): str(v) for k, v in subs.items()}}, "observed": repr(ex)})
                continue
            em_ = env.expression_manager
            psubs = {}
            for k_, v_ in subs.items():
                k2, v2 = em_.auto_promote(k_, v_)
                psubs[k2] = v2
            want = ref_subst(env, e, psubs)
            if got is not e:
                nontrivial.add(str(e))
            if got is not want:
                failures.append({"what": "result differs from the top-down reference substitution",
                                 "concrete": {"expression": str(e), "map": {str(k): str(v) for k, v in subs.items()}},
                                 "observed": {"got": str(got), "reference": str(want)}})
            if len(samples) < 3 and i % 131 == 2:
                samples.append({"expression": str(e)[:120], "map": {str(k)[:40]: str(v) for k, v in subs.items()}, "result": str(got)[:120]})
            if len(failures) >= 6:
                break
        # incompatible map: rejected before anything changes, later calls unaffected
        bad_attempts = 0
        for i in range(60 if tier == "quick" else 600):
            e = g.boolean(2)
            try:
                e.substitute({g.x(): TRUE()})
                failures.append({"what": "incompatible substitution int := bool accepted", "concrete": {"expression": str(e)}, "observed": None})
            except UPTypeError:
                bad_attempts += 1
            e2 = g.num(2)
            if e2.substitute({g.x(): Int(1)}) is not ref_subst(env, e2, {g.x(): Int(1)}):
                failures.append({"what": "substitution after a rejected one differs from the reference", "concrete": {"expression": str(e2)}, "observed": None})
        evals += bad_attempts
    return {"evaluations": evals, "distinct_nontrivial": len(nontrivial), "failures": failures[:6],
            "rule": f"{n} random expressions (depth <= 3, quantifiers) x random maps of 1-3 keys drawn from their own sub-expressions; "
                    f"non-trivial = expression changed by the substitution", "samples": samples, "bound": f"{n} expressions"}


LEVEL = "exploration"
EXPLANATION = __doc__

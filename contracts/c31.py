"""C31 — meta-engines return only valid plans and truthful statuses.

Bounded run-time contract: an exact breadth-first planner (complete on finite state spaces, returns only plans its own
simulation reached the goal with) is registered by the harness in a fresh Environment's factory; the real meta-engines
are obtained through Factory.OneshotPlanner(name='interpreted_functions_planning[verif_bfs]' / 'oversubscription[verif_bfs]').
  IF  generated problems with interpreted functions in preconditions, effect values and effect conditions: a returned
      plan is valid for the original problem under the reference semantics (spec/seqsem.py, interpreted functions
      evaluated by calling them), and whenever the reference breadth-first search of the original finds a plan the
      meta-engine returns one (status in the positive outcomes);
  OS  generated problems with an Oversubscription metric (positive, zero and negative integer / rational weights,
      goals that exclude one another): when the result is SOLVED_OPTIMALLY the plan is valid for the hard goals and its
      gain equals the maximum over all reachable states satisfying the hard goals (exhaustive reference search);
      UNSOLVABLE_PROVEN only when no reachable state satisfies the hard goals.
"""
import itertools
import random
import sys
import warnings
from collections import deque
from fractions import Fraction

import unified_planning as up
from unified_planning.shortcuts import *  # noqa
from unified_planning.environment import Environment
from unified_planning.engines import PlanGenerationResult, PlanGenerationResultStatus
from unified_planning.engines.engine import Engine
from unified_planning.engines.mixins import OneshotPlannerMixin
from unified_planning.engines.results import POSITIVE_OUTCOMES
from unified_planning.model import ProblemKind, InterpretedFunction
from unified_planning.plans import SequentialPlan, ActionInstance
from spec import seqsem

CAP = 20000


class VerifBFS(Engine, OneshotPlannerMixin):
    """exact breadth-first planner over the real UPSequentialSimulator"""

    def __init__(self, **kw):
        Engine.__init__(self)
        OneshotPlannerMixin.__init__(self)

    @property
    def name(self):
        return "verif_bfs"

    @staticmethod
    def supported_kind():
        k = ProblemKind(version=up.model.problem_kind_versioning.LATEST_PROBLEM_KIND_VERSION)
        for feats in up.model.problem_kind.FEATURES.values():
            for f in feats:
                try:
                    k._features.add(f)
                except Exception:  # noqa
                    pass
        return k

    @staticmethod
    def supports(problem_kind):
        return True

    @staticmethod
    def satisfies(optimality_guarantee):
        return True

    def _solve(self, problem, heuristic=None, timeout=None, output_stream=None):
        from unified_planning.engines import UPSequentialSimulator
        with warnings.catch_warnings():
            warnings.simplefilter("ignore")
            sim = UPSequentialSimulator(problem, error_on_failed_checks=False)
            s0 = sim.get_initial_state()
            if sim.is_goal(s0):
                return PlanGenerationResult(PlanGenerationResultStatus.SOLVED_SATISFICING, SequentialPlan([]), self.name)
            gas = []
            for a in problem.actions:
                doms = [list(problem.objects(p.type)) if p.type.is_user_type() else list(range(p.type.lower_bound, p.type.upper_bound + 1)) for p in a.parameters]
                for combo in itertools.product(*doms):
                    gas.append((a, combo))

            def key(st):
                return tuple(str(st.get_value(fe)) for fe in fes)
            fes = [fe for f in problem.fluents for fe in up.model.fluent.get_all_fluent_exp(problem, f)]
            seen = {key(s0): None}
            dq = deque([(s0, key(s0))])
            n = 0
            while dq:
                st, k = dq.popleft()
                n += 1
                if n > CAP:
                    return PlanGenerationResult(PlanGenerationResultStatus.UNSOLVABLE_INCOMPLETELY, None, self.name)
                for a, ps in gas:
                    try:
                        ns = sim.apply(st, a, ps)
                    except Exception:  # noqa
                        ns = None
                    if ns is None:
                        continue
                    nk = key(ns)
                    if nk in seen:
                        continue
                    seen[nk] = (k, a, ps)
                    if sim.is_goal(ns):
                        plan = []
                        cur = nk
                        while seen[cur] is not None:
                            pk, pa, pps = seen[cur]
                            plan.append(ActionInstance(pa, tuple(pps)))
                            cur = pk
                        return PlanGenerationResult(PlanGenerationResultStatus.SOLVED_SATISFICING, SequentialPlan(plan[::-1]), self.name)
                    dq.append((ns, nk))
            return PlanGenerationResult(PlanGenerationResultStatus.UNSOLVABLE_PROVEN, None, self.name)


_ENV = None


def fresh_env():
    """the global environment with the harness planner registered once (the meta-engine variants are created by add_engine)"""
    global _ENV
    if _ENV is None:
        m = type(sys)("verif_bfs_mod")
        m.VerifBFS = VerifBFS
        sys.modules["verif_bfs_mod"] = m
        env = up.environment.get_environment()
        env.factory.add_engine("verif_bfs", "verif_bfs_mod", "VerifBFS")
        env.credits_stream = None
        _ENV = env
    return _ENV


def ref_reachable(pr):
    """all reachable states under the reference semantics with one path each"""
    s0 = seqsem.initial_state(pr)
    f0 = seqsem.freeze(s0)
    seen = {f0: None}
    rep = {f0: s0}
    dq = deque([f0])
    gas = seqsem.ground_actions(pr)
    while dq:
        x = dq.popleft()
        if len(seen) > CAP:
            return None, None
        for a, ps in gas:
            s2 = seqsem.successor(pr, rep[x], a, ps)
            if s2 is None:
                continue
            fz = seqsem.freeze(s2)
            if fz in seen:
                continue
            seen[fz] = (x, a, ps)
            rep[fz] = s2
            dq.append(fz)
    return seen, rep


def run_plan(pr, plan):
    st = seqsem.initial_state(pr)
    for ai in plan.actions:
        ps = tuple(x.object() if x.is_object_exp() else x.constant_value() for x in ai.actual_parameters)
        st = seqsem.successor(pr, st, pr.action(ai.action.name), ps)
        if st is None:
            return None, f"{ai} not applicable"
    return st, None


def build_if(rng, env):
    tm, em = env.type_manager, env.expression_manager
    T = tm.UserType("T")
    objs = [up.model.Object(f"o{i}", T, env) for i in range(2)]
    pr = up.model.Problem("ifp", env)
    pr.add_objects(objs)
    n = up.model.Fluent("n", tm.IntType(0, 4), environment=env)
    m = up.model.Fluent("m", tm.IntType(0, 4), environment=env)
    p = up.model.Fluent("p", tm.BoolType(), environment=env, x=T)
    q = up.model.Fluent("q", tm.BoolType(), environment=env)
    pr.add_fluent(n, default_initial_value=rng.randint(0, 2))
    pr.add_fluent(m, default_initial_value=rng.randint(0, 2))
    pr.add_fluent(p, default_initial_value=False)
    pr.add_fluent(q, default_initial_value=False)
    sig_i = {"a": tm.IntType(0, 4), "b": tm.IntType(0, 4)}
    k1, k2 = rng.randint(1, 3), rng.randint(0, 2)
    f_bool = InterpretedFunction("fb", tm.BoolType(), OrderedDictI(sig_i), lambda a, b, k1=k1: (a * a + b) % 3 == k1 % 3, env)
    f_int = InterpretedFunction("fi", tm.IntType(0, 4), OrderedDictI(sig_i), lambda a, b, k2=k2: (a + 2 * b + k2) % 5, env)
    a1 = up.model.InstantaneousAction("inc", _env=env)
    a1.add_precondition(em.LT(n, 4))
    a1.add_increase_effect(n, 1)
    a2 = up.model.InstantaneousAction("swap", _env=env)
    a2.add_effect(m, n)
    a2.add_effect(n, m)
    a3 = up.model.InstantaneousAction("gate", _env=env, x=T)
    shape = rng.random()
    if shape < 0.45:
        a3.add_precondition(f_bool(n, m))                               # interpreted function in a precondition
    elif shape < 0.8:
        # two applications in ONE condition: after a failed first candidate the planner knows one value and not the other
        a3.add_precondition(em.Equals(em.Plus(f_int(n, 0), f_int(m, 1)), rng.randint(2, 6)))
    else:
        a3.add_precondition(em.And(f_bool(n, m), em.LE(f_int(m, n), rng.randint(1, 3))))
    a3.add_effect(p(a3.x), True)
    a4 = up.model.InstantaneousAction("calc", _env=env)
    if rng.random() < 0.6:
        a4.add_effect(m, f_int(n, m))                                   # interpreted function in an effect value
    else:
        a4.add_effect(q, True, f_bool(m, n))                            # interpreted function in an effect condition
        a4.add_effect(m, 0)
    for a in (a1, a2, a3, a4):
        pr.add_action(a)
    g = rng.random()
    if g < 0.4:
        pr.add_goal(em.And(p(objs[0]), em.Equals(m, rng.randint(0, 4))))
    elif g < 0.7:
        pr.add_goal(em.And(p(objs[0]), p(objs[1])))
        pr.add_goal(em.GE(n, 2))
    else:
        pr.add_goal(q() if any(e.fluent.fluent().name == "q" for e in a4.effects) else em.Equals(m, rng.randint(0, 4)))
        pr.add_goal(p(objs[1]))
    return pr


def build_if_pair(rng, env):
    """crafted family: ONE condition / effect value / effect condition holds two applications of an interpreted function; the first
    candidate plan fails and teaches the planner one of the two values needed later, so a later state has one known and one
    unknown application"""
    tm, em = env.type_manager, env.expression_manager
    pr = up.model.Problem("ifpair", env)
    x = up.model.Fluent("x", tm.IntType(0, 5), environment=env)
    y = up.model.Fluent("y", tm.IntType(0, 5), environment=env)
    r = up.model.Fluent("r", tm.IntType(0, 20), environment=env)
    done = up.model.Fluent("done", tm.BoolType(), environment=env)
    x0, y0 = rng.randint(0, 1), rng.randint(0, 5)
    pr.add_fluent(x, default_initial_value=x0)
    pr.add_fluent(y, default_initial_value=y0)
    pr.add_fluent(r, default_initial_value=0)
    pr.add_fluent(done, default_initial_value=False)
    table = [rng.randint(0, 9) for _ in range(6)]
    f = InterpretedFunction("f", tm.IntType(0, 9), OrderedDictI({"a": tm.IntType(0, 5)}), lambda a, table=table: table[a], env)
    xt = rng.randint(x0 + 1, min(5, x0 + 3))
    if table[xt] == table[x0]:
        table[xt] = (table[xt] + 1) % 10
    k = table[xt] + table[y0]
    inc = up.model.InstantaneousAction("inc_x", _env=env)
    inc.add_precondition(em.LT(x, 5))
    inc.add_increase_effect(x, 1)
    chk = up.model.InstantaneousAction("check", _env=env)
    both = em.Plus(f(x), f(y))
    shape = rng.randint(0, 2)
    if shape == 0:
        chk.add_precondition(em.Equals(both, k))
        chk.add_effect(done, True)
    elif shape == 1:
        chk.add_effect(r, both)
        chk.add_effect(done, em.TRUE(), em.Equals(r, k))        # second application of check reads r
        pr.add_goal(em.Equals(r, k))
    else:
        chk.add_effect(done, True, em.Equals(both, k))
    pr.add_action(inc)
    pr.add_action(chk)
    pr.add_goal(done)
    return pr


def build_if_derived(rng, env):
    """crafted family: exactly ONE fluent is written directly from an interpreted function; other fluents are copies of it (a chain of 1-2
    copies) and a precondition / the goal can only be met through the real function value of the LAST copy.  The actions are declared in a
    random order (the copying action may come before the computing one), so finding the fluents that depend on the function needs the
    full fixpoint, not one pass in declaration order"""
    tm, em = env.type_manager, env.expression_manager
    pr = up.model.Problem("ifderived", env)
    mk = lambda n, t, v: (lambda f: (pr.add_fluent(f, default_initial_value=v), f)[1])(up.model.Fluent(n, t, environment=env))   # noqa: E731
    x = mk("x", tm.IntType(0, 3), rng.randint(0, 3))
    fv = mk("fv", tm.IntType(0, 9), 0)
    g = mk("g", tm.IntType(0, 9), 0)
    h = mk("h", tm.IntType(0, 9), 0)
    done = mk("done", tm.BoolType(), False)
    table = [rng.randint(1, 9) for _ in range(4)]
    f = InterpretedFunction("f", tm.IntType(0, 9), OrderedDictI({"a": tm.IntType(0, 3)}), lambda a, table=table: table[a], env)
    x0 = pr.initial_value(x()).constant_value()
    depth = rng.choice([1, 2])
    last = g if depth == 1 else h
    compute = up.model.InstantaneousAction("compute", _env=env)
    compute.add_effect(fv, f(x))
    copy1 = up.model.InstantaneousAction("copy", _env=env)
    copy1.add_effect(g, fv)
    copy2 = up.model.InstantaneousAction("copy_again", _env=env)
    copy2.add_effect(h, g)
    finish = up.model.InstantaneousAction("finish", _env=env)
    shape = rng.randint(0, 1)
    if shape == 0:
        finish.add_precondition(em.Equals(last, table[x0]))
        finish.add_effect(done, True)
    else:
        finish.add_effect(done, True)
        pr.add_goal(em.Equals(last, table[x0]))
    acts = [compute, copy1, finish] + ([copy2] if depth == 2 else [])
    rng.shuffle(acts)
    for a in acts:
        pr.add_action(a)
    pr.add_goal(done)
    return pr


def build_if_accumulator(rng, env):
    """crafted family: a fluent written from an interpreted function (`reading := f(x)`) feeds an ACCUMULATOR whose update reads both itself
    and the reading (`total := total + reading`, or a difference / a product by 2), the accumulating action can fire only once, and a
    later precondition or the goal needs the real accumulated value"""
    tm, em = env.type_manager, env.expression_manager
    pr = up.model.Problem("ifaccumulator", env)
    mk = lambda n, t, v: (lambda f: (pr.add_fluent(f, default_initial_value=v), f)[1])(up.model.Fluent(n, t, environment=env))   # noqa: E731
    x = mk("x", tm.IntType(0, 3), rng.randint(0, 3))
    reading = mk("reading", tm.IntType(0, 9), 0)
    t0 = rng.randint(0, 3)
    total = mk("total", tm.IntType(-20, 40), t0)
    added = mk("added", tm.BoolType(), False)
    done = mk("done", tm.BoolType(), False)
    table = [rng.randint(1, 9) for _ in range(4)]
    f = InterpretedFunction("f", tm.IntType(0, 9), OrderedDictI({"a": tm.IntType(0, 3)}), lambda a, table=table: table[a], env)
    x0 = pr.initial_value(x()).constant_value()
    read = up.model.InstantaneousAction("read", _env=env)
    read.add_effect(reading, f(x))
    add = up.model.InstantaneousAction("add", _env=env)
    add.add_precondition(em.Not(added))
    add.add_effect(added, True)
    shape = rng.randint(0, 2)
    if shape == 0:
        add.add_effect(total, em.Plus(total, reading))
        want = t0 + table[x0]
    elif shape == 1:
        add.add_effect(total, em.Minus(total, reading))
        want = t0 - table[x0]
    else:
        add.add_effect(total, em.Plus(em.Times(2, reading), total))
        want = t0 + 2 * table[x0]
    finish = up.model.InstantaneousAction("finish", _env=env)
    finish.add_precondition(added)
    if rng.random() < 0.5:
        finish.add_precondition(em.Equals(total, want))
    else:
        pr.add_goal(em.Equals(total, want))
    finish.add_effect(done, True)
    acts = [read, add, finish]
    rng.shuffle(acts)
    for a in acts:
        pr.add_action(a)
    pr.add_goal(done)
    return pr


def OrderedDictI(d):
    from collections import OrderedDict
    return OrderedDict(d)


def build_os(rng, env):
    tm, em = env.type_manager, env.expression_manager
    T = tm.UserType("T")
    objs = [up.model.Object(f"o{i}", T, env) for i in range(2)]
    pr = up.model.Problem("osp", env)
    pr.add_objects(objs)
    p = up.model.Fluent("p", tm.BoolType(), environment=env, x=T)
    q = up.model.Fluent("q", tm.BoolType(), environment=env)
    r = up.model.Fluent("r", tm.BoolType(), environment=env)
    n = up.model.Fluent("n", tm.IntType(0, 3), environment=env)
    for f in (p, q, r):
        pr.add_fluent(f, default_initial_value=False)
    pr.add_fluent(n, default_initial_value=0)
    a1 = up.model.InstantaneousAction("setp", _env=env, x=T)
    a1.add_precondition(em.Not(q))
    a1.add_effect(p(a1.x), True)
    a2 = up.model.InstantaneousAction("setq", _env=env)
    a2.add_effect(q, True)
    a2.add_effect(p(objs[0]), False) if rng.random() < 0.5 else a2.add_effect(r, False)
    a3 = up.model.InstantaneousAction("setr", _env=env)
    a3.add_precondition(em.LT(n, 3))
    a3.add_effect(r, True)
    a3.add_increase_effect(n, 1)
    a4 = up.model.InstantaneousAction("unq", _env=env)
    a4.add_precondition(em.GE(n, 2))
    a4.add_effect(q, False)
    for a in (a1, a2, a3, a4)[: rng.randint(3, 4)]:
        pr.add_action(a)
    hard = rng.random()
    if hard < 0.4:
        pr.add_goal(r)
    elif hard < 0.6:
        pr.add_goal(em.And(q, em.Not(r)))
    cands = [p(objs[0]), p(objs[1]), q(), r(), em.And(q, p(objs[1])), em.Not(q), em.GE(n, 2), em.Or(p(objs[0]), r)]
    goals = {}
    for gexp in rng.sample(cands, rng.randint(1, 4)):
        goals[gexp] = rng.choice([1, 2, 5, -1, -3, 0, Fraction(1, 2), Fraction(7, 3), 10])
    pr.add_quality_metric(up.model.metrics.Oversubscription(goals, environment=env))
    return pr, goals


def _if_cond_tag(pr):
    """classifies the one listed incompleteness: a conditional effect whose condition reads a fluent that another effect writes
    with a value containing an interpreted function (the remover relaxes preconditions and goals for not-yet-known fluents, never
    effect conditions)"""
    from unified_planning.model.walkers import InterpretedFunctionsExtractor
    fve = pr.environment.free_vars_extractor
    ife = InterpretedFunctionsExtractor()
    written = set()
    for a in pr.actions:
        for e in a.effects:
            if ife.get(e.value):
                written.add(e.fluent.fluent())
    for a in pr.actions:
        for e in a.effects:
            if e.is_conditional() and any(x.fluent() in written for x in fve.get(e.condition)):
                return " [an effect condition reads a fluent written by an effect whose value contains an interpreted function]"
    return ""


def scenario(seed, failures, stats, pair=False):
    rng = random.Random(seed)
    label = {"seed": seed, "family": (pair if isinstance(pair, str) else "pair") if pair else "generated"}

    def bad(what, observed=None):
        if what not in {f["what"] for f in failures}:
            failures.append({"what": what, "concrete": label, "observed": observed})
    # ---------------- interpreted functions planner
    env = fresh_env()
    pr = ({"derived": build_if_derived, "accumulator": build_if_accumulator}.get(pair, build_if_pair)(rng, env)) if pair else build_if(rng, env)
    try:
        seen, rep = ref_reachable(pr)
    except seqsem.Ambiguous:
        seen = None
    if seen is not None:
        solvable = any(seqsem.is_goal(pr, rep[x]) for x in seen)
        try:
            with env.factory.OneshotPlanner(name="interpreted_functions_planning[verif_bfs]") as planner:
                res = planner.solve(pr)
        except Exception as ex:  # noqa
            bad(f"interpreted-functions planner raises {type(ex).__name__}", str(ex)[:300])
            res = None
        if res is not None:
            stats["n"] += 1
            stats["distinct"].add(("if", solvable))
            if res.plan is not None:
                st, why = run_plan(pr, res.plan)
                if st is None or not seqsem.is_goal(pr, st):
                    bad("interpreted-functions planner returns a plan that is not valid for the original problem", f"{res.plan}: {why or 'goal not reached'}"[:500])
            if res.status in POSITIVE_OUTCOMES and res.plan is None:
                bad("interpreted-functions planner reports success without a plan")
            if solvable and res.status not in POSITIVE_OUTCOMES:
                bad("interpreted-functions planner finds no plan for a solvable problem" + _if_cond_tag(pr), f"status {res.status.name}")
            if not solvable and res.status in POSITIVE_OUTCOMES and res.plan is not None:
                pass   # covered by the validity clause
    if pair:
        return
    # ---------------- oversubscription planner
    env = fresh_env()
    pr, goals = build_os(rng, env)
    seen, rep = ref_reachable(pr)
    if seen is None:
        return
    hard_ok = [x for x in seen if seqsem.is_goal(pr, rep[x])]

    def gain(st):
        lk = seqsem.mk_lookup(st)
        from spec.ev import ev as _ev
        return sum((w for g, w in goals.items() if _ev(g, lk, {}, pr) is True), Fraction(0))
    best = max((gain(rep[x]) for x in hard_ok), default=None)
    try:
        with env.factory.OneshotPlanner(name="oversubscription[verif_bfs]") as planner:
            res = planner.solve(pr)
    except Exception as ex:  # noqa
        bad(f"oversubscription planner raises {type(ex).__name__}", str(ex)[:300])
        return
    stats["n"] += 1
    stats["distinct"].add(("os", len(goals), best is not None))
    if res.plan is not None:
        st, why = run_plan(pr, res.plan)
        if st is None or not seqsem.is_goal(pr, st):
            bad("oversubscription planner returns a plan that is not valid for the hard goals", f"{res.plan}: {why or 'hard goal not reached'}"[:400])
        elif res.status == PlanGenerationResultStatus.SOLVED_OPTIMALLY and gain(st) != best:
            bad("oversubscription planner reports an optimal result whose gain is not the maximum over the reachable states",
                f"plan {res.plan} gain {gain(st)}; best reachable {best}; weights { {str(g): str(w) for g, w in goals.items()} }"[:600])
    if res.status == PlanGenerationResultStatus.SOLVED_OPTIMALLY and res.plan is None:
        bad("oversubscription planner reports SOLVED_OPTIMALLY without a plan")
    if res.status == PlanGenerationResultStatus.UNSOLVABLE_PROVEN and best is not None:
        bad("oversubscription planner reports UNSOLVABLE_PROVEN although the hard goals are reachable", f"best gain {best}")
    if best is not None and res.status not in POSITIVE_OUTCOMES and res.status != PlanGenerationResultStatus.UNSOLVABLE_PROVEN:
        bad(f"oversubscription planner gives up ({res.status.name}) on a solvable problem with a complete underlying planner")


def bounded(tier, seed):
    n = 25 if tier == "quick" else 400
    failures, stats = [], {"n": 0, "distinct": set()}
    with warnings.catch_warnings():
        warnings.simplefilter("ignore")
        for i in range(n):
            scenario(seed * 100003 + i, failures, stats)
            scenario(seed * 100003 + 70000 + i, failures, stats, pair=True)
            scenario(seed * 100003 + 90000 + i, failures, stats, pair="derived")
            scenario(seed * 100003 + 110000 + i, failures, stats, pair="accumulator")
            if len(failures) >= 8:
                break
    return {"evaluations": stats["n"], "distinct_nontrivial": len(stats["distinct"]), "failures": failures[:8],
            "rule": f"{n} seeds x (one generated, one 'pair', one 'derived-copies' and one 'accumulator' interpreted-functions problem + one oversubscription problem), each solved through the real meta-engine around the "
                    f"harness's exact BFS planner and compared with an exhaustive reference search of the original problem",
            "samples": [{"outcomes": sorted(map(str, stats["distinct"]))[:12]}], "bound": f"{n} seeds"}


def replay_file(data):
    c = data.get("concrete") or {}
    failures, stats = [], {"n": 0, "distinct": set()}
    with warnings.catch_warnings():
        warnings.simplefilter("ignore")
        scenario(c.get("seed", 0), failures, stats, pair={"pair": True, "derived": "derived", "accumulator": "accumulator"}.get(c.get("family"), False))
    return {"reproduced": bool(failures), "concrete": c, "observed": [f["what"] for f in failures][:4]}


# ======================================================================================================= proved kernel
# InterpretedFunctionsRemover._find_changing_fluents: the set of fluents that get an `unknown` tracker.  Soundness of the remover needs this
# set to be CLOSED: every fluent written with a value that contains an interpreted function is in it, and so is every fluent written with a
# value that reads a fluent of the set (otherwise a stale value survives in the compiled problem -- seeded C31-2).
import z3
from pyvc.values import Ref, Seq, Set, Tup, SBool, SRef, SSet, Rec, fresh_name, zint, zbool
from pyvc.values import Int as PInt
from pyvc.verify import Unit
from pyvc.engine import LoopSpec
from pyvc import builtins as B
import unified_planning.engines.compilers.interpreted_functions_remover as _ifr

ACT, EF, TM31, VAL, FE, FL31, PB31 = (Ref(n) for n in ("Action31", "Effect31", "Timing31", "Value31", "FluentExp31", "Fluent31", "Problem31"))
EF.fields.update({"fluent": FE, "value": VAL})
FE.observers["fluent"] = ((), FL31)
PB31.fields["actions"] = Seq(ACT)
HASIF = z3.Function("value_contains_interpreted_function", VAL.z3sort(), z3.BoolSort())
QN31 = "unified_planning.engines.compilers.interpreted_functions_remover.InterpretedFunctionsRemover._find_changing_fluents"
_fl_of = lambda z: B._uf("FluentExp31.fluent()", FE.z3sort(), FL31.z3sort())(z)          # noqa: E731
_ef_fluent = lambda z: B._uf("Effect31.fluent", EF.z3sort(), FE.z3sort())(z)             # noqa: E731
_ef_value = lambda z: B._uf("Effect31.value", EF.z3sort(), VAL.z3sort())(z)              # noqa: E731


class FindChangingFluents(Unit):
    prop = "C31"
    name = "InterpretedFunctionsRemover._find_changing_fluents"
    doc = ("for any number of actions, effects and read fluents: the returned set is closed -- it holds the fluent of every effect whose value "
           "contains an interpreted function, and the fluent of every effect whose value reads a fluent of the set (fixpoint reached: the last "
           "pass added nothing)")

    def target(self):
        return _ifr.InterpretedFunctionsRemover._find_changing_fluents

    # effects of action a: sequence of (timing, effect); fluents read by a value: sequence of fluent expressions
    def _effs(self, eng, st, a):
        return B.uf_value(eng, st, "effects_of", [a.z], [ACT.z3sort()], Seq(Tup(TM31, EF)))

    def _reads(self, eng, st, v):
        return B.uf_value(eng, st, "fluents_read_by", [v], [VAL.z3sort()], Seq(FE))

    def _trig(self, eng, st, ef, X):
        """the effect must put its fluent into the set, given that X is (part of) the set"""
        v = _ef_value(ef)
        rd = self._reads(eng, st, v)
        k = z3.Int(fresh_name("k"))
        return z3.Or(HASIF(v), z3.Exists([k], z3.And(0 <= k, k < rd.n, z3.Select(X, _fl_of(z3.Select(rd.arr, k))))))

    def _closed_upto(self, eng, st, acts, X, S, ai, ej=None):
        """every effect of the actions before index ai (and, if ej is given, the effects before ej of action ai) that is triggered by X has its
        fluent in S"""
        i, j = z3.Int(fresh_name("i")), z3.Int(fresh_name("j"))

        def eff(ii, jj):
            es = self._effs(eng, st, ACT.wrap(z3.Select(acts.arr, ii)))
            return es, es.te.wrap(z3.Select(es.arr, jj))[1].z
        es_i, e_ij = eff(i, j)
        body = z3.Implies(self._trig(eng, st, e_ij, X), z3.Select(S, _fl_of(_ef_fluent(e_ij))))
        full = z3.ForAll([i, j], z3.Implies(z3.And(0 <= i, i < ai, 0 <= j, j < es_i.n), body))
        if ej is None:
            return full
        es_a, e_aj = eff(ai, j)
        part = z3.ForAll([j], z3.Implies(z3.And(0 <= j, j < ej), z3.Implies(self._trig(eng, st, e_aj, X), z3.Select(S, _fl_of(_ef_fluent(e_aj))))))
        return z3.And(full, part)

    def configure(self, eng):
        unit = self
        IFX, FVX = Ref("IFExtractor31"), Ref("FreeVarsExtractor31")
        IFX.methods["get"] = lambda e, st, sv, a, k: iter([(st, SBool(HASIF(a[0].z)))])
        FVX.methods["get"] = lambda e, st, sv, a, k: iter([(st, unit._reads(e, st, a[0].z))])
        self._IFX, self._FVX = IFX, FVX
        eng.contracts[_ifr.InterpretedFunctionsRemover._get_effects] = lambda e, st, a, k: iter([(st, unit._effs(e, st, a[1]))])
        empty = z3.K(FL31.z3sort(), z3.BoolVal(False))

        def has(L, name="found_fluents_set"):
            c = getattr(L, name)
            return c.has if isinstance(c, SSet) else empty

        def subset(A, B_):
            x = z3.Const(fresh_name("x"), FL31.z3sort())
            return z3.ForAll([x], z3.Implies(z3.Select(A, x), z3.Select(B_, x)))

        def w_inv(L):
            S = has(L)
            acts = unit._acts
            return [("either another pass is due, or the set is closed under both rules",
                     z3.Or(zint(L.len_end) > zint(L.len_start), unit._closed_upto(L._eng, L.st, acts, S, S, acts.n)))]

        def a_inv(L):
            S, S0 = has(L), has(L.head(0))
            return [("the set only grows during a pass", subset(S0, S)),
                    ("every effect of the actions handled in this pass that the set of the pass start triggers is in the set",
                     unit._closed_upto(L._eng, L.st, unit._acts, S0, S, zint(L._i)))]

        def e_inv(L):
            S, S0 = has(L), has(L.head(0))
            return [("the set only grows during a pass", subset(S0, S)),
                    ("... including the effects of the current action handled so far",
                     unit._closed_upto(L._eng, L.st, unit._acts, S0, S, zint(L._loop1_i), zint(L._i)))]

        def r_inv(L):
            S, S0 = has(L), has(L.head(0))
            k = z3.Int(fresh_name("k"))
            rd = L._seq
            f = L.f
            return [("the set only grows during a pass", subset(S0, S)),
                    ("the effects handled before are covered", unit._closed_upto(L._eng, L.st, unit._acts, S0, S, zint(L._loop1_i), zint(L._loop2_i))),
                    ("a read fluent seen so far that was in the set at the pass start has put the written fluent into the set",
                     z3.ForAll([k], z3.Implies(z3.And(0 <= k, k < zint(L._i), z3.Select(S0, _fl_of(z3.Select(rd.arr, k)))), z3.Select(S, f.z))))]
        mods = ["found_fluents_set", "a", "found_effects", "_", "ef", "f", "v", "ifs", "fs_e", "f_e"]
        tys = {"found_fluents_set": Set(FL31), "a": ACT, "ef": EF, "f": FL31, "v": VAL, "_": TM31, "f_e": FE, "found_effects": Seq(Tup(TM31, EF)),
               "fs_e": Seq(FE), "ifs": B.Bool}
        eng.loops[(QN31, 0)] = LoopSpec(w_inv, modifies=mods + ["len_start", "len_end"], types=dict(tys, len_start=PInt, len_end=PInt))
        eng.loops[(QN31, 1)] = LoopSpec(a_inv, modifies=mods, types=tys)
        eng.loops[(QN31, 2)] = LoopSpec(e_inv, modifies=[m for m in mods if m not in ("a", "found_effects")], types=tys)
        eng.loops[(QN31, 3)] = LoopSpec(r_inv, modifies=["found_fluents_set", "f_e"], types=tys)

    def setup(self, eng, st):
        pr = PB31.fresh("problem")
        self._acts = B.field_uf(eng, st, pr, "actions")
        w = st.alloc(Rec(_ifr.InterpretedFunctionsRemover, {"interpreted_functions_extractor": self._IFX.fresh("ifx"),
                                                            "free_vars_extractor": self._FVX.fresh("fvx")}), "remover")
        return [w, pr], {}, dict(pr=pr)

    def post(self, eng, ctx, st, out):
        if out[0] != "return":
            return
        r = eng.deref(st, out[1])
        S = r.has if isinstance(r, SSet) else z3.K(FL31.z3sort(), z3.BoolVal(False))
        st.oblige("the returned set is closed: interpreted-function writes and writes that read a member are members",
                  self._closed_upto(eng, st, self._acts, S, S, self._acts.n))


UNITS = [FindChangingFluents()]
LEVEL = "other"
EXPLANATION = __doc__
TRUSTED = ["P kernel: effects of an action, fluents read by a value and 'value contains an interpreted function' are uninterpreted (the extractors by contract); "
           "finite-set lemma (subset with >= cardinality is equal) used as an axiom; what the remover DOES with the set (trackers, relaxed conditions) is bounded only",
           "bounded: the assume-guarantee argument (valid + complete underlying planner => valid / optimal meta result) is checked on samples, not proved",
           "the harness's BFS planner is exact on the generated finite problems (it uses the real UPSequentialSimulator, bounded-checked in C01/C02)",
           "reference validity / reachability uses spec/seqsem.py with interpreted functions evaluated by calling them"]
USES_THEORY = False

"""C24 — effect-conflict detection is order-independent and exception-safe.

Functions under contract (real source, re-read every run):
  unified_planning.model.effect.check_conflicting_effects
  unified_planning.model.effect.check_conflicting_simulated_effects
"""
import z3
from pyvc.values import *  # noqa
from pyvc.verify import Unit
from pyvc.engine import LoopSpec
from . import theory as T

import unified_planning.model.effect as eff
from unified_planning.exceptions import UPConflictingEffectsException


# ---- abstraction: the *summary* of what has been inserted so far at one time point is
#   A : FNode -> Option FNode    (fluents_assigned)
#   D : Set FNode                (fluents_inc_dec)
#   S : Set FNode                (fluents of the simulated effect, if any)
# spec predicate  conflict(effect, A, D, S)  written from the property statement, not the code:
def relevant(eng, st, e):
    """effects that take part in conflict detection: unconditional, non-Boolean fluent"""
    fl = eng_attr(eng, st, e, "_fluent")
    cond = eng_attr(eng, st, e, "_condition")
    is_true = z3.And(T.node_type(cond.z) == T.OKT.consts[T.OK.BOOL_CONSTANT],
                     T.payload_of(eng, st, cond, T.OK.BOOL_CONSTANT).z)
    tb = T.B.observer_uf(eng, st, T.B.uf_value(eng, st, "FNode.type", [fl.z], [T.FNode.z3sort()], T.Type),
                         "is_bool_type", (), Bool, [])
    return z3.And(is_true, z3.Not(tb.z))


def eng_attr(eng, st, e, name):
    return T.B.field_uf(eng, st, e, name)


def same_value(eng, st, a, b):
    """two assigned values agree: identical node, or both constants with equal constant value"""
    def is_const(x):
        k = T.node_type(x.z)
        return z3.Or([k == T.OKT.consts[c] for c in (T.OK.BOOL_CONSTANT, T.OK.INT_CONSTANT,
                                                       T.OK.REAL_CONSTANT, T.OK.OBJECT_EXP)])
    return z3.Or(a.z == b.z, z3.And(is_const(a), is_const(b), const_eq(eng, st, a, b)))


def const_eq(eng, st, a, b):
    """python == of the two constant payloads (bool/int/Fraction compare numerically, objects by identity)"""
    ka, kb = T.node_type(a.z), T.node_type(b.z)
    C = T.OKT.consts

    def num(x, k):
        return z3.If(k == C[T.OK.BOOL_CONSTANT],
                     z3.If(T.payload_of(eng, st, x, T.OK.BOOL_CONSTANT).z, z3.RealVal(1), z3.RealVal(0)),
                     z3.If(k == C[T.OK.INT_CONSTANT], z3.ToReal(T.payload_of(eng, st, x, T.OK.INT_CONSTANT).z),
                           T.payload_of(eng, st, x, T.OK.REAL_CONSTANT).z))
    both_obj = z3.And(ka == C[T.OK.OBJECT_EXP], kb == C[T.OK.OBJECT_EXP])
    none_obj = z3.And(ka != C[T.OK.OBJECT_EXP], kb != C[T.OK.OBJECT_EXP])
    return z3.Or(z3.And(both_obj, T.payload_of(eng, st, a, T.OK.OBJECT_EXP).z == T.payload_of(eng, st, b, T.OK.OBJECT_EXP).z),
                 z3.And(none_obj, num(a, ka) == num(b, kb)))


def kind_is(eng, st, e, *kinds):
    k = eng_attr(eng, st, e, "_kind")
    return z3.Or([k.z == T.EKT.consts[x] for x in kinds])


INCDEC = (eff.EffectKind.INCREASE, eff.EffectKind.DECREASE, eff.EffectKind.CONTINUOUS_INCREASE,
          eff.EffectKind.CONTINUOUS_DECREASE)


def conflict(eng, st, e, A, D, S_has):
    fl = eng_attr(eng, st, e, "_fluent")
    val = eng_attr(eng, st, e, "_value")
    is_assign = kind_is(eng, st, e, eff.EffectKind.ASSIGN)
    is_incdec = kind_is(eng, st, e, *INCDEC)
    inA = A.contains(fl).z
    return z3.And(relevant(eng, st, e), z3.Or(
        z3.And(is_assign, z3.Or(D.contains(fl).z, S_has(fl),
                                z3.And(inA, z3.Not(same_value(eng, st, A.get(fl), val))))),
        z3.And(is_incdec, z3.Or(inA, S_has(fl)))))


class CheckConflictingEffects(Unit):
    prop = "C24"
    name = "check_conflicting_effects"
    doc = "frame-on-raise; raises iff spec conflict; success updates the summary exactly"
    allowed_raises = (UPConflictingEffectsException,)

    def target(self):
        return eff.check_conflicting_effects

    def setup(self, eng, st):
        e = T.Effect.fresh("effect")
        timing = Opt(T.Timing).fresh("timing")
        sim = Opt(T.SimEff).fresh("sim")
        A0 = eng.fresh_of(st, Map(T.FNode, T.FNode), "A")
        D0 = eng.fresh_of(st, Set(T.FNode), "D")
        A = st.alloc(A0, "dict")
        D = st.alloc(D0, "set")
        name = Str.fresh("name")
        # the effect kind is one of the five kinds (enum exhaustive by sort)
        ctx = dict(e=e, sim=sim, A0=A0, D0=D0, A=A, D=D)
        return [e, timing, sim, A, D, name], {}, ctx

    def S_has(self, eng, st, ctx):
        sim = ctx["sim"]
        isnone = sim.is_none().z
        fl_seq = T.B.field_uf(eng, st, sim.some(), "_fluents")

        def has(f):
            j = z3.Int(fresh_name("j"))
            return z3.And(z3.Not(isnone),
                          z3.Exists([j], z3.And(0 <= j, j < fl_seq.n, z3.Select(fl_seq.arr, j) == f.z)))
        return has

    def post(self, eng, ctx, st, out):
        e, A0, D0 = ctx["e"], ctx["A0"], ctx["D0"]
        A1, D1 = st.load(ctx["A"]), st.load(ctx["D"])
        S_has = self.S_has(eng, st, ctx)
        cf = conflict(eng, st, e, A0, D0, S_has)
        fl = eng_attr(eng, st, e, "_fluent")
        val = eng_attr(eng, st, e, "_value")
        if out[0] == "raise" and out[1].cls is UPConflictingEffectsException:
            st.oblige("raise:frame fluents_assigned unchanged", A1.same(A0))
            st.oblige("raise:frame fluents_inc_dec unchanged", D1.same(D0))
            st.oblige("raise:only-on-conflict", cf)
        elif out[0] == "return":
            st.oblige("return:no-conflict", z3.Not(cf))
            rel = relevant(eng, st, e)
            is_assign = z3.And(rel, kind_is(eng, st, e, eff.EffectKind.ASSIGN))
            is_incdec = z3.And(rel, kind_is(eng, st, e, *INCDEC))
            k = T.FNode.fresh("k")
            # summary after = summary before + abstraction of the effect, nothing else touched
            st.oblige("return:assigned updated exactly", z3.ForAll([k.z], z3.And(
                A1.contains(k).z == z3.Or(A0.contains(k).z, z3.And(is_assign, k.z == fl.z)),
                z3.Implies(A0.contains(k).z, A1.get(k).z == A0.get(k).z),
                z3.Implies(z3.And(is_assign, k.z == fl.z, z3.Not(A0.contains(k).z)), A1.get(k).z == val.z))))
            st.oblige("return:inc_dec updated exactly", z3.ForAll([k.z],
                D1.contains(k).z == z3.Or(D0.contains(k).z, z3.And(is_incdec, k.z == fl.z))))


class CheckConflictingSimulated(Unit):
    prop = "C24"
    name = "check_conflicting_simulated_effects"
    doc = "raises iff some simulated fluent is assigned or inc/dec; never mutates"
    allowed_raises = (UPConflictingEffectsException,)

    def target(self):
        return eff.check_conflicting_simulated_effects

    def configure(self, eng):
        def inv(L):
            j = z3.Int(fresh_name("j"))
            seq = L._seq
            return ForAllInt(j, 0, zint(L._i), lambda: z3.And(
                z3.Not(L.fluents_inc_dec.contains(T.FNode.wrap(z3.Select(seq.arr, j))).z),
                z3.Not(L.fluents_assigned.contains(T.FNode.wrap(z3.Select(seq.arr, j))).z)))
        eng.loops[("unified_planning.model.effect.check_conflicting_simulated_effects", 0)] = LoopSpec(inv, modifies=["f"])

    def setup(self, eng, st):
        sim = T.SimEff.fresh("sim")
        timing = Opt(T.Timing).fresh("timing")
        A0 = eng.fresh_of(st, Map(T.FNode, T.FNode), "A")
        D0 = eng.fresh_of(st, Set(T.FNode), "D")
        A, D = st.alloc(A0, "dict"), st.alloc(D0, "set")
        return [sim, timing, A, D, Str.fresh("name")], {}, dict(sim=sim, A0=A0, D0=D0, A=A, D=D)

    def post(self, eng, ctx, st, out):
        A0, D0 = ctx["A0"], ctx["D0"]
        A1, D1 = st.load(ctx["A"]), st.load(ctx["D"])
        fl = T.B.field_uf(eng, st, ctx["sim"], "_fluents")
        j = z3.Int(fresh_name("j"))
        clash = z3.Exists([j], z3.And(0 <= j, j < fl.n, z3.Or(
            z3.Select(D0.has, z3.Select(fl.arr, j)), z3.Select(A0.has, z3.Select(fl.arr, j)))))
        st.oblige("frame fluents_assigned unchanged", A1.same(A0))
        st.oblige("frame fluents_inc_dec unchanged", D1.same(D0))
        if out[0] == "raise":
            st.oblige("raise:only-on-clash", clash)
        else:
            st.oblige("return:no-clash", z3.Not(clash))


def ForAllInt(j, lo, hi, body):
    return SBool(z3.ForAll([j], z3.Implies(z3.And(zint(lo) <= j, j < zint(hi)), body())))


# ============================================================================= the callers: which bookkeeping the checker is handed
# The two functions above decide a conflict from the summary (A, D, S) they are GIVEN.  Order-independence at one time point therefore also
# needs every insertion path to hand over the summary of THAT time point (same key for the assigned map, the inc/dec set, the simulated
# effect and the stored effects) and to store the new effect / simulated effect only when the check returned.
import unified_planning.model.transition as _tr
import unified_planning.model.mixins.timed_conds_effs as _tce
import unified_planning.model.problem as _pb
from unified_planning.model.timing import Timing as _Timing
from unified_planning.exceptions import UPUsageError as _Usage24

TK = Ref("TimeKey24")            # a time expression used as dictionary key (Timing, Timepoint, number)
ASG, INC, SIM, LST, ENV24 = Ref("AssignedSummary24"), Ref("IncDecSummary24"), Ref("SimulatedEffect24"), Ref("EffectList24"), Ref("Environment24")
SIM.null = z3.Const("SimulatedEffect24.None", SIM.z3sort())
EFF24 = Ref("Effect24", fields={"environment": ENV24})
SIM.fields["environment"] = ENV24
MAPA, MAPI, MAPS, MAPE = Ref("AssignedByTime24"), Ref("IncDecByTime24"), Ref("SimulatedByTime24"), Ref("EffectsByTime24")
FROM = z3.Function("Timing.from_time", TK.z3sort(), TK.z3sort())
ASG_AT = z3.Function("assigned_at", TK.z3sort(), ASG.z3sort())
INC_AT = z3.Function("incdec_at", TK.z3sort(), INC.z3sort())
SIM_AT = z3.Function("simulated_at", TK.z3sort(), SIM.z3sort())
EFF_AT = z3.Function("effects_at", TK.z3sort(), LST.z3sort())
MAPA.methods["setdefault"] = lambda e, st, sv, a, k: iter([(st, ASG.wrap(ASG_AT(a[0].z)))])
MAPI.methods["setdefault"] = lambda e, st, sv, a, k: iter([(st, INC.wrap(INC_AT(a[0].z)))])
MAPI.methods["get"] = lambda e, st, sv, a, k: iter([(st, INC.wrap(INC_AT(a[0].z)))])        # absent = the empty summary of that time
MAPS.methods["get"] = lambda e, st, sv, a, k: iter([(st, SIM.wrap(SIM_AT(a[0].z)))])        # nullable: None when nothing is stored


def _maps_set(e, st, sv, a, k):
    st.ghost["stored"] = st.ghost.get("stored", ()) + (("simulated", a[0], a[1]),)
    yield st, None


MAPS.methods["__setitem__"] = _maps_set
MAPE.methods["setdefault"] = lambda e, st, sv, a, k: iter([(st, LST.wrap(EFF_AT(a[0].z)))])


def _append(e, st, sv, a, k):
    st.ghost["stored"] = st.ghost.get("stored", ()) + (("effect", sv, a[0]),)
    yield st, None


LST.methods["append"] = _append


def _checker(tag):
    def c(e, st, a, k):
        st.ghost["checks"] = st.ghost.get("checks", ()) + ((tag, tuple(a), tuple(st.ghost.get("stored", ()))),)
        s2 = st.fork()
        yield s2.note("conflict"), ExcVal(UPConflictingEffectsException, (), tag)
        yield st.note("no-conflict"), None
    return c


class Caller(Unit):
    prop = "C24"
    allowed_raises = (UPConflictingEffectsException, _Usage24)

    def __init__(self, which):
        self.which = which
        self.name = {"inst_add": "UntimedEffectMixin._add_effect_instance", "inst_sim": "UntimedEffectMixin.set_simulated_effect",
                     "timed_add": "TimedCondsEffs._add_effect_instance", "timed_sim": "TimedCondsEffs.set_simulated_effect",
                     "problem_add": "Problem._add_effect_instance"}[which]
        self.doc = ("the checker is called exactly once, before anything is stored, with the summaries (assigned, inc/dec, simulated effect) kept for "
                    "the time point the effect is added at (after normalisation of the time expression); the effect / simulated effect is stored "
                    "under that same time point only if the checker returned")

    def target(self):
        return {"inst_add": _tr.UntimedEffectMixin._add_effect_instance, "inst_sim": _tr.UntimedEffectMixin.set_simulated_effect,
                "timed_add": _tce.TimedCondsEffs._add_effect_instance, "timed_sim": _tce.TimedCondsEffs.set_simulated_effect,
                "problem_add": _pb.Problem._add_effect_instance}[self.which]

    def configure(self, eng):
        eng.contracts[eff.check_conflicting_effects] = _checker("effects")
        eng.contracts[eff.check_conflicting_simulated_effects] = _checker("simulated")
        eng.contracts[_Timing.from_time] = lambda e, st, a, k: iter([(st, TK.wrap(FROM(a[0].z)))])
        eng.partial_classes.update({_tr.UntimedEffectMixin, _tce.TimedCondsEffs, _pb.Problem})

    def setup(self, eng, st):
        env = ENV24.fresh("environment")
        x = (EFF24 if self.which.endswith("add") else SIM).fresh("new")
        envf = B24._uf(("Effect24" if self.which.endswith("add") else "SimulatedEffect24") + ".environment", x.t.z3sort(), ENV24.z3sort())
        if self.which.endswith("add"):
            st.assume(envf(x.z) == env.z)            # asserted by the code: same environment (a different one is a usage error, not a conflict)
        else:
            st.assume(x.z != SIM.null)
        t = TK.fresh("timing")
        if self.which.startswith("inst"):
            asg, inc, sim, lst = ASG.fresh("assigned"), INC.fresh("incdec"), SIM.fresh("simulated"), LST.fresh("effects")
            w = st.alloc(Rec(_tr.UntimedEffectMixin, {"_environment": env, "_fluents_assigned": asg, "_fluents_inc_dec": inc, "_simulated_effect": sim,
                                                      "_effects": lst}), "action")
            return [w, x], {}, dict(w=w, x=x, env=env, envf=envf, asg=asg, inc=inc, sim=sim, lst=lst, key=None)
        flds = {"_fluents_assigned": MAPA.fresh("assigned"), "_fluents_inc_dec": MAPI.fresh("incdec"), "name": Str.fresh("name")}
        if self.which == "problem_add":
            flds.update({"_env": env, "_timed_effects": MAPE.fresh("timed_effects")})
            w = st.alloc(Rec(_pb.Problem, flds), "problem")
            key = t.z
        else:
            flds.update({"_environment": env, "_simulated_effects": MAPS.fresh("simulated"), "_effects": MAPE.fresh("effects")})
            w = st.alloc(Rec(_tce.TimedCondsEffs, flds), "durative")
            key = FROM(t.z) if self.which == "timed_add" else t.z
        return [w, t, x], {}, dict(w=w, x=x, env=env, envf=envf, key=key)

    def post(self, eng, ctx, st, out):
        checks, stored = st.ghost.get("checks", ()), st.ghost.get("stored", ())
        x, key, add = ctx["x"], ctx["key"], self.which.endswith("add")
        st.oblige("the checker is called exactly once", z3.BoolVal(len(checks) == 1 and checks[0][0] == ("effects" if add else "simulated")))
        if len(checks) != 1:
            return
        tag, a, stored_before = checks[0]
        st.oblige("nothing is stored before the checker has returned", z3.BoolVal(len(stored_before) == 0))
        zz = lambda v: v.z if isinstance(v, SRef) else None      # noqa: E731
        if key is None:           # one time point only: the action's own summaries
            want = [x.z, None, ctx["sim"].z, ctx["asg"].z, ctx["inc"].z] if add else [x.z, None, ctx["asg"].z, ctx["inc"].z]
        else:
            want = [x.z, key, (None if self.which == "problem_add" else SIM_AT(key)), ASG_AT(key), INC_AT(key)] if add else [x.z, key, ASG_AT(key), INC_AT(key)]
        got = [zz(v) for v in a[:len(want)]]
        names = ["the new effect", "the time point", "the simulated effect of that time point", "the assigned-fluents summary of that time point",
                 "the increase/decrease summary of that time point"] if add else \
                ["the new simulated effect", "the time point", "the assigned-fluents summary of that time point", "the increase/decrease summary of that time point"]
        for nm, g, w_ in zip(names, got, want):
            if w_ is None:
                st.oblige(f"the checker is given {nm}: none", z3.BoolVal(g is None))
            else:
                st.oblige(f"the checker is given {nm}", (g == w_) if g is not None else z3.BoolVal(False))
        if out[0] == "raise":
            st.oblige("a rejected insertion stores nothing", z3.BoolVal(len(stored) == 0))
            if out[1].cls is _Usage24:
                st.oblige("usage error only for a simulated effect of another environment", ctx["envf"](x.z) != ctx["env"].z)
            return
        if add:
            ok = len(stored) == 1 and stored[0][0] == "effect" and z3.is_expr(zz(stored[0][2]))
            st.oblige("an accepted effect is stored exactly once", z3.BoolVal(ok))
            if ok:
                where = ctx["lst"].z if key is None else EFF_AT(key)
                st.oblige("the accepted effect is appended to the effects of that same time point", z3.And(stored[0][1].z == where, stored[0][2].z == x.z))
        elif key is None:
            cur = st.getfield(ctx["w"], "_simulated_effect")
            st.oblige("an accepted simulated effect becomes the action's simulated effect", z3.BoolVal(isinstance(cur, SRef)) if not isinstance(cur, SRef) else cur.z == x.z)
        else:
            ok = len(stored) == 1 and stored[0][0] == "simulated"
            st.oblige("an accepted simulated effect is stored exactly once", z3.BoolVal(ok))
            if ok:
                st.oblige("the accepted simulated effect is stored under that same time point", z3.And(stored[0][1].z == key, stored[0][2].z == x.z))

    def replay(self, ctx, model, label):
        return replay_callers({"caller": self.which})


def replay_callers(c):
    """order independence at one time point, natively: a simulated effect and an effect on one of its (numeric) fluents, both orders, for every
    spelling of the time point the public API accepts"""
    from unified_planning.shortcuts import (Fluent, IntType, DurativeAction, InstantaneousAction, Problem, SimulatedEffect, StartTiming, EndTiming,
                                            GlobalStartTiming, Timepoint, TimepointKind)
    from fractions import Fraction
    n = Fluent("n24", IntType())
    fn = lambda *a: []      # noqa: E731
    out = []

    def raises(f):
        try:
            f()
            return False
        except UPConflictingEffectsException:
            return True
    spell = [("StartTiming()", StartTiming(), StartTiming()), ("Timepoint(START)", Timepoint(TimepointKind.START), StartTiming()),
             ("Timepoint(END)", Timepoint(TimepointKind.END), EndTiming())]
    for nm, t_eff, t_sim in spell:
        for kind in ("assign", "increase"):
            def add(a, t=t_eff, kind=kind):
                (a.add_effect(t, n, 3) if kind == "assign" else a.add_increase_effect(t, n, 3))
            a1 = DurativeAction("a1")
            a1.set_simulated_effect(t_sim, SimulatedEffect([n()], fn))
            r1 = raises(lambda: add(a1))
            a2 = DurativeAction("a2")
            add(a2)
            r2 = raises(lambda: a2.set_simulated_effect(t_sim, SimulatedEffect([n()], fn)))
            if r1 != r2:
                out.append(f"durative, {kind} at {nm}: simulated-then-effect raises={r1}, effect-then-simulated raises={r2}")
    i1 = InstantaneousAction("i1")
    i1.set_simulated_effect(SimulatedEffect([n()], fn))
    r1 = raises(lambda: i1.add_effect(n, 3))
    i2 = InstantaneousAction("i2")
    i2.add_effect(n, 3)
    r2 = raises(lambda: i2.set_simulated_effect(SimulatedEffect([n()], fn)))
    if r1 != r2:
        out.append(f"instantaneous: simulated-then-effect raises={r1}, effect-then-simulated raises={r2}")
    return {"reproduced": bool(out), "concrete": c, "observed": out[:4] or "conflict detection is order-independent on the probes"}


from pyvc import builtins as B24
UNITS = [CheckConflictingEffects(), CheckConflictingSimulated()] + [Caller(w) for w in ("inst_add", "inst_sim", "timed_add", "timed_sim", "problem_add")]


# ------------------------------------------------------------------------- replay (concretiser)
def _native_conflict(effect, sim, A, D):
    """the spec predicate, natively (same definition as `conflict` above)"""
    if effect.is_conditional() or effect.fluent.type.is_bool_type():
        return False
    f = effect.fluent
    S = set(sim.fluents) if sim is not None else set()
    if effect.is_assignment():
        if f in D or f in S:
            return True
        if f in A:
            a, v = A[f], effect.value
            same = a is v or (a.is_constant() and v.is_constant() and a.constant_value() == v.constant_value())
            return not same
        return False
    return f in A or f in S


def native_check(effect, timing, sim, A, D):
    """run the real function and evaluate the contract natively; returns list of violated clauses"""
    A0, D0 = dict(A), set(D)
    expect = _native_conflict(effect, sim, A0, D0)
    bad = []
    try:
        eff.check_conflicting_effects(effect, timing, sim, A, D, "replay")
        raised = False
    except UPConflictingEffectsException:
        raised = True
    if raised != expect:
        bad.append(f"raised={raised} but spec conflict={expect}")
    if raised and (A != A0 or D != D0):
        bad.append(f"rejected insertion changed the bookkeeping: assigned {A0}->{A}, inc_dec {D0}->{D}")
    if not raised:
        expA, expD = dict(A0), set(D0)
        if not effect.is_conditional() and not effect.fluent.type.is_bool_type():
            if effect.is_assignment():
                expA.setdefault(effect.fluent, effect.value)
            else:
                expD.add(effect.fluent)
        if A != expA or D != expD:
            bad.append("accepted insertion did not update the summary exactly")
    return bad


def build_concrete(c):
    from unified_planning.shortcuts import Fluent, IntType, BoolType, Int, TRUE, FluentExp, Plus
    from unified_planning.model.effect import Effect, EffectKind, SimulatedEffect
    x = Fluent("x", BoolType() if c["fluent_is_bool"] else IntType())
    y = Fluent("y", IntType())
    b = Fluent("b", BoolType())
    fx = FluentExp(x)
    if c["fluent_is_bool"]:
        val, other = TRUE(), FluentExp(b)
    else:
        val, other = Int(1), Int(2)
    cond = FluentExp(b) if c["conditional"] else TRUE()
    e = Effect(fx, val, cond, EffectKind[c["kind"]])
    A = {}
    if c["in_assigned"]:
        A[fx] = val if c["assigned_same"] else other
    D = {fx} if c["in_inc_dec"] else set()
    sim = None
    if c["sim_present"]:
        sim = SimulatedEffect([fx] if c["in_sim"] else [FluentExp(y)], lambda *a: [Int(0)])
    return e, sim, A, D


def _replay(self, ctx, model, label):
    eng_dummy = None
    from pyvc.engine import Engine
    from pyvc.state import State
    eng, st = Engine(), State()
    e, A0, D0, sim = ctx["e"], ctx["A0"], ctx["D0"], ctx["sim"]
    ev = lambda z: model.eval(z, model_completion=True)
    fl = eng_attr(eng, st, e, "_fluent")
    val = eng_attr(eng, st, e, "_value")
    cond = eng_attr(eng, st, e, "_condition")
    is_true = z3.And(T.node_type(cond.z) == T.OKT.consts[T.OK.BOOL_CONSTANT],
                     T.payload_of(eng, st, cond, T.OK.BOOL_CONSTANT).z)
    tb = T.B.observer_uf(eng, st, T.B.uf_value(eng, st, "FNode.type", [fl.z], [T.FNode.z3sort()], T.Type),
                         "is_bool_type", (), Bool, [])
    S_has = self.S_has(eng, st, ctx)
    c = {
        "kind": str(ev(eng_attr(eng, st, e, "_kind").z)),
        "conditional": not z3.is_true(ev(is_true)),
        "fluent_is_bool": z3.is_true(ev(tb.z)),
        "in_assigned": z3.is_true(ev(A0.contains(fl).z)),
        "assigned_same": z3.is_true(ev(same_value(eng, st, A0.get(fl), val))),
        "in_inc_dec": z3.is_true(ev(D0.contains(fl).z)),
        "sim_present": not z3.is_true(ev(sim.is_none().z)),
        "in_sim": z3.is_true(ev(S_has(fl))),
    }
    return replay_concrete(c)


def replay_concrete(c):
    e, sim, A, D = build_concrete(c)
    bad = native_check(e, None, sim, A, D)
    return {"reproduced": bool(bad), "concrete": c, "observed": bad}


CheckConflictingEffects.replay = _replay


def replay_file(data):
    if isinstance(data.get("concrete"), dict) and "caller" in data["concrete"]:
        return replay_callers(data["concrete"])
    return _replay_file_checkers(data)


def _replay_file_checkers(data):
    return replay_concrete(data["concrete"])


LEVEL = "proof"
EXPLANATION = ("check_conflicting_effects / check_conflicting_simulated_effects verified path by path against "
               "a summary-based specification (frame on raise, raise iff spec conflict, exact summary update); "
               "order-independence follows from the symmetry lemma + list lemma below")

"""C24 — effect-conflict detection is order-independent and exception-safe.

Functions under contract (real source, re-read every run):
  unified_planning.model.effect.check_conflicting_effects
  unified_planning.model.effect.check_conflicting_simulated_effects
"""
import z3
from pyvc.values import *  # noqa
from pyvc.verify import Unit
from pyvc.engine import LoopSpec
from . import theory as T

import unified_planning.model.effect as eff
from unified_planning.exceptions import UPConflictingEffectsException


# ---- abstraction: the *summary* of what has been inserted so far at one time point is
#   A : FNode -> Option FNode    (fluents_assigned)
#   D : Set FNode                (fluents_inc_dec)
#   S : Set FNode                (fluents of the simulated effect, if any)
# spec predicate  conflict(effect, A, D, S)  written from the property statement, not the code:
def relevant(eng, st, e):
    """effects that take part in conflict detection: unconditional, non-Boolean fluent"""
    fl = eng_attr(eng, st, e, "_fluent")
    cond = eng_attr(eng, st, e, "_condition")
    is_true = z3.And(T.node_type(cond.z) == T.OKT.consts[T.OK.BOOL_CONSTANT],
                     T.payload_of(eng, st, cond, T.OK.BOOL_CONSTANT).z)
    tb = T.B.observer_uf(eng, st, T.B.uf_value(eng, st, "FNode.type", [fl.z], [T.FNode.z3sort()], T.Type),
                         "is_bool_type", (), Bool, [])
    return z3.And(is_true, z3.Not(tb.z))


def eng_attr(eng, st, e, name):
    return T.B.field_uf(eng, st, e, name)


def same_value(eng, st, a, b):
    """two assigned values agree: identical node, or both constants with equal constant value"""
    def is_const(x):
        k = T.node_type(x.z)
        return z3.Or([k == T.OKT.consts[c] for c in (T.OK.BOOL_CONSTANT, T.OK.INT_CONSTANT,
                                                       T.OK.REAL_CONSTANT, T.OK.OBJECT_EXP)])
    return z3.Or(a.z == b.z, z3.And(is_const(a), is_const(b), const_eq(eng, st, a, b)))


def const_eq(eng, st, a, b):
    """python == of the two constant payloads (bool/int/Fraction compare numerically, objects by identity)"""
    ka, kb = T.node_type(a.z), T.node_type(b.z)
    C = T.OKT.consts

    def num(x, k):
        return z3.If(k == C[T.OK.BOOL_CONSTANT],
                     z3.If(T.payload_of(eng, st, x, T.OK.BOOL_CONSTANT).z, z3.RealVal(1), z3.RealVal(0)),
                     z3.If(k == C[T.OK.INT_CONSTANT], z3.ToReal(T.payload_of(eng, st, x, T.OK.INT_CONSTANT).z),
                           T.payload_of(eng, st, x, T.OK.REAL_CONSTANT).z))
    both_obj = z3.And(ka == C[T.OK.OBJECT_EXP], kb == C[T.OK.OBJECT_EXP])
    none_obj = z3.And(ka != C[T.OK.OBJECT_EXP], kb != C[T.OK.OBJECT_EXP])
    return z3.Or(z3.And(both_obj, T.payload_of(eng, st, a, T.OK.OBJECT_EXP).z == T.payload_of(eng, st, b, T.OK.OBJECT_EXP).z),
                 z3.And(none_obj, num(a, ka) == num(b, kb)))


def kind_is(eng, st, e, *kinds):
    k = eng_attr(eng, st, e, "_kind")
    return z3.Or([k.z == T.EKT.consts[x] for x in kinds])


INCDEC = (eff.EffectKind.INCREASE, eff.EffectKind.DECREASE, eff.EffectKind.CONTINUOUS_INCREASE,
          eff.EffectKind.CONTINUOUS_DECREASE)


def conflict(eng, st, e, A, D, S_has):
    fl = eng_attr(eng, st, e, "_fluent")
    val = eng_attr(eng, st, e, "_value")
    is_assign = kind_is(eng, st, e, eff.EffectKind.ASSIGN)
    is_incdec = kind_is(eng, st, e, *INCDEC)
    inA = A.contains(fl).z
    return z3.And(relevant(eng, st, e), z3.Or(
        z3.And(is_assign, z3.Or(D.contains(fl).z, S_has(fl),
                                z3.And(inA, z3.Not(same_value(eng, st, A.get(fl), val))))),
        z3.And(is_incdec, z3.Or(inA, S_has(fl)))))


class CheckConflictingEffects(Unit):
    prop = "C24"
    name = "check_conflicting_effects"
    doc = "frame-on-raise; raises iff spec conflict; success updates the summary exactly"
    allowed_raises = (UPConflictingEffectsException,)

    def target(self):
        return eff.check_conflicting_effects

    def setup(self, eng, st):
        e = T.Effect.fresh("effect")
        timing = Opt(T.Timing).fresh("timing")
        sim = Opt(T.SimEff).fresh("sim")
        A0 = eng.fresh_of(st, Map(T.FNode, T.FNode), "A")
        D0 = eng.fresh_of(st, Set(T.FNode), "D")
        A = st.alloc(A0, "dict")
        D = st.alloc(D0, "set")
        name = Str.fresh("name")
        # the effect kind is one of the five kinds (enum exhaustive by sort)
        ctx = dict(e=e, sim=sim, A0=A0, D0=D0, A=A, D=D)
        return [e, timing, sim, A, D, name], {}, ctx

    def S_has(self, eng, st, ctx):
        sim = ctx["sim"]
        isnone = sim.is_none().z
        fl_seq = T.B.field_uf(eng, st, sim.some(), "_fluents")

        def has(f):
            j = z3.Int(fresh_name("j"))
            return z3.And(z3.Not(isnone),
                          z3.Exists([j], z3.And(0 <= j, j < fl_seq.n, z3.Select(fl_seq.arr, j) == f.z)))
        return has

    def post(self, eng, ctx, st, out):
        e, A0, D0 = ctx["e"], ctx["A0"], ctx["D0"]
        A1, D1 = st.load(ctx["A"]), st.load(ctx["D"])
        S_has = self.S_has(eng, st, ctx)
        cf = conflict(eng, st, e, A0, D0, S_has)
        fl = eng_attr(eng, st, e, "_fluent")
        val = eng_attr(eng, st, e, "_value")
        if out[0] == "raise" and out[1].cls is UPConflictingEffectsException:
            st.oblige("raise:frame fluents_assigned unchanged", A1.same(A0))
            st.oblige("raise:frame fluents_inc_dec unchanged", D1.same(D0))
            st.oblige("raise:only-on-conflict", cf)
        elif out[0] == "return":
            st.oblige("return:no-conflict", z3.Not(cf))
            rel = relevant(eng, st, e)
            is_assign = z3.And(rel, kind_is(eng, st, e, eff.EffectKind.ASSIGN))
            is_incdec = z3.And(rel, kind_is(eng, st, e, *INCDEC))
            k = T.FNode.fresh("k")
            # summary after = summary before + abstraction of the effect, nothing else touched
            st.oblige("return:assigned updated exactly", z3.ForAll([k.z], z3.And(
                A1.contains(k).z == z3.Or(A0.contains(k).z, z3.And(is_assign, k.z == fl.z)),
                z3.Implies(A0.contains(k).z, A1.get(k).z == A0.get(k).z),
                z3.Implies(z3.And(is_assign, k.z == fl.z, z3.Not(A0.contains(k).z)), A1.get(k).z == val.z))))
            st.oblige("return:inc_dec updated exactly", z3.ForAll([k.z],
                D1.contains(k).z == z3.Or(D0.contains(k).z, z3.And(is_incdec, k.z == fl.z))))


class CheckConflictingSimulated(Unit):
    prop = "C24"
    name = "check_conflicting_simulated_effects"
    doc = "raises iff some simulated fluent is assigned or inc/dec; never mutates"
    allowed_raises = (UPConflictingEffectsException,)

    def target(self):
        return eff.check_conflicting_simulated_effects

    def configure(self, eng):
        def inv(L):
            j = z3.Int(fresh_name("j"))
            seq = L._seq
            return ForAllInt(j, 0, zint(L._i), lambda: z3.And(
                z3.Not(L.fluents_inc_dec.contains(T.FNode.wrap(z3.Select(seq.arr, j))).z),
                z3.Not(L.fluents_assigned.contains(T.FNode.wrap(z3.Select(seq.arr, j))).z)))
        eng.loops[("unified_planning.model.effect.check_conflicting_simulated_effects", 0)] = LoopSpec(inv, modifies=["f"])

    def setup(self, eng, st):
        sim = T.SimEff.fresh("sim")
        timing = Opt(T.Timing).fresh("timing")
        A0 = eng.fresh_of(st, Map(T.FNode, T.FNode), "A")
        D0 = eng.fresh_of(st, Set(T.FNode), "D")
        A, D = st.alloc(A0, "dict"), st.alloc(D0, "set")
        return [sim, timing, A, D, Str.fresh("name")], {}, dict(sim=sim, A0=A0, D0=D0, A=A, D=D)

    def post(self, eng, ctx, st, out):
        A0, D0 = ctx["A0"], ctx["D0"]
        A1, D1 = st.load(ctx["A"]), st.load(ctx["D"])
        fl = T.B.field_uf(eng, st, ctx["sim"], "_fluents")
        j = z3.Int(fresh_name("j"))
        clash = z3.Exists([j], z3.And(0 <= j, j < fl.n, z3.Or(
            z3.Select(D0.has, z3.Select(fl.arr, j)), z3.Select(A0.has, z3.Select(fl.arr, j)))))
        st.oblige("frame fluents_assigned unchanged", A1.same(A0))
        st.oblige("frame fluents_inc_dec unchanged", D1.same(D0))
        if out[0] == "raise":
            st.oblige("raise:only-on-clash", clash)
        else:
            st.oblige("return:no-clash", z3.Not(clash))


def ForAllInt(j, lo, hi, body):
    return SBool(z3.ForAll([j], z3.Implies(z3.And(zint(lo) <= j, j < zint(hi)), body())))


UNITS = [CheckConflictingEffects(), CheckConflictingSimulated()]


# ------------------------------------------------------------------------- replay (concretiser)
def _native_conflict(effect, sim, A, D):
    """the spec predicate, natively (same definition as `conflict` above)"""
    if effect.is_conditional() or effect.fluent.type.is_bool_type():
        return False
    f = effect.fluent
    S = set(sim.fluents) if sim is not None else set()
    if effect.is_assignment():
        if f in D or f in S:
            return True
        if f in A:
            a, v = A[f], effect.value
            same = a is v or (a.is_constant() and v.is_constant() and a.constant_value() == v.constant_value())
            return not same
        return False
    return f in A or f in S


def native_check(effect, timing, sim, A, D):
    """run the real function and evaluate the contract natively; returns list of violated clauses"""
    A0, D0 = dict(A), set(D)
    expect = _native_conflict(effect, sim, A0, D0)
    bad = []
    try:
        eff.check_conflicting_effects(effect, timing, sim, A, D, "replay")
        raised = False
    except UPConflictingEffectsException:
        raised = True
    if raised != expect:
        bad.append(f"raised={raised} but spec conflict={expect}")
    if raised and (A != A0 or D != D0):
        bad.append(f"rejected insertion changed the bookkeeping: assigned {A0}->{A}, inc_dec {D0}->{D}")
    if not raised:
        expA, expD = dict(A0), set(D0)
        if not effect.is_conditional() and not effect.fluent.type.is_bool_type():
            if effect.is_assignment():
                expA.setdefault(effect.fluent, effect.value)
            else:
                expD.add(effect.fluent)
        if A != expA or D != expD:
            bad.append("accepted insertion did not update the summary exactly")
    return bad


def build_concrete(c):
    from unified_planning.shortcuts import Fluent, IntType, BoolType, Int, TRUE, FluentExp, Plus
    from unified_planning.model.effect import Effect, EffectKind, SimulatedEffect
    x = Fluent("x", BoolType() if c["fluent_is_bool"] else IntType())
    y = Fluent("y", IntType())
    b = Fluent("b", BoolType())
    fx = FluentExp(x)
    if c["fluent_is_bool"]:
        val, other = TRUE(), FluentExp(b)
    else:
        val, other = Int(1), Int(2)
    cond = FluentExp(b) if c["conditional"] else TRUE()
    e = Effect(fx, val, cond, EffectKind[c["kind"]])
    A = {}
    if c["in_assigned"]:
        A[fx] = val if c["assigned_same"] else other
    D = {fx} if c["in_inc_dec"] else set()
    sim = None
    if c["sim_present"]:
        sim = SimulatedEffect([fx] if c["in_sim"] else [FluentExp(y)], lambda *a: [Int(0)])
    return e, sim, A, D


def _replay(self, ctx, model, label):
    eng_dummy = None
    from pyvc.engine import Engine
    from pyvc.state import State
    eng, st = Engine(), State()
    e, A0, D0, sim = ctx["e"], ctx["A0"], ctx["D0"], ctx["sim"]
    ev = lambda z: model.eval(z, model_completion=True)
    fl = eng_attr(eng, st, e, "_fluent")
    val = eng_attr(eng, st, e, "_value")
    cond = eng_attr(eng, st, e, "_condition")
    is_true = z3.And(T.node_type(cond.z) == T.OKT.consts[T.OK.BOOL_CONSTANT],
                     T.payload_of(eng, st, cond, T.OK.BOOL_CONSTANT).z)
    tb = T.B.observer_uf(eng, st, T.B.uf_value(eng, st, "FNode.type", [fl.z], [T.FNode.z3sort()], T.Type),
                         "is_bool_type", (), Bool, [])
    S_has = self.S_has(eng, st, ctx)
    c = {
        "kind": str(ev(eng_attr(eng, st, e, "_kind").z)),
        "conditional": not z3.is_true(ev(is_true)),
        "fluent_is_bool": z3.is_true(ev(tb.z)),
        "in_assigned": z3.is_true(ev(A0.contains(fl).z)),
        "assigned_same": z3.is_true(ev(same_value(eng, st, A0.get(fl), val))),
        "in_inc_dec": z3.is_true(ev(D0.contains(fl).z)),
        "sim_present": not z3.is_true(ev(sim.is_none().z)),
        "in_sim": z3.is_true(ev(S_has(fl))),
    }
    return replay_concrete(c)


def replay_concrete(c):
    e, sim, A, D = build_concrete(c)
    bad = native_check(e, None, sim, A, D)
    return {"reproduced": bool(bad), "concrete": c, "observed": bad}


CheckConflictingEffects.replay = _replay


def replay_file(data):
    return replay_concrete(data["concrete"])


LEVEL = "proof"
EXPLANATION = ("check_conflicting_effects / check_conflicting_simulated_effects verified path by path against "
               "a summary-based specification (frame on raise, raise iff spec conflict, exact summary update); "
               "order-independence follows from the symmetry lemma + list lemma below")

"""C03 — sequential plan validation decides validity and metric values exactly.

P (real source, all plans of every length): SequentialPlanValidator._validate is executed symbolically with the simulator used by its
contract (get_initial_state / get_unsatisfied_conditions / apply_unsafe / get_unsatisfied_goals return or raise any of the four exception
classes the simulator documents; C01 is what they compute): loop invariant  trace[j] = state after the first j instances, every earlier
step executable, metric_value = sum of the costs evaluated in the PRE-states (or the step count).  Proved: the result is VALID iff every
step is executable and the final state satisfies the goals (and the final-state metric can be evaluated), INVALID carries a reason and a
message, no exception escapes except the two documented usage errors (more than one metric; unsupported kind with
error_on_failed_checks), every local is defined where it is read (empty plan included), and a VALID result with a metric reports exactly
the specified value.  evaluate_quality_metric is proved against the contract _validate uses: action cost evaluated in `state` (the
pre-state) and added, plan length + 1, final-state expression / oversubscription gain (loop invariant over the goals) in `next_state`.

B: on the C01 problem family extended with one quality metric (action costs, plan length, final-state
expression, oversubscription; or none), every plan up to the length bound including the empty plan:
SequentialPlanValidator returns VALID iff the plan is executable and ends in a goal state under
spec/seqsem.py, never raises, and a VALID result carries the metric value of the reference metric.
"""
import itertools
import random
import warnings
from fractions import Fraction
from rtc import seqcheck as SC
from spec import seqsem
from spec.ev import ev, UNDEF

USES_THEORY = False


def add_metric(pr, gen_seed):
    """returns (problem clone with one metric, reference metric function) or (pr, None)"""
    from unified_planning.shortcuts import (MinimizeActionCosts, MinimizeSequentialPlanLength, MinimizeExpressionOnFinalState,
                                            MaximizeExpressionOnFinalState, Oversubscription, Int, Plus)
    rng = random.Random(gen_seed)
    kind = ["costs", "final", "oversub", "costs", "length", "none"][gen_seed % 6]
    p2 = pr.clone()
    nums = [f for f in p2.fluents if (f.type.is_int_type() or f.type.is_real_type()) and f.arity == 0]
    if kind == "none":
        return p2, None, kind
    if kind == "costs":
        costs = {}
        for a in p2.actions:
            c = Int(rng.randint(0, 3))
            # prefer costs that read a fluent the action itself writes: pre- vs post-state then matters
            written = [e.fluent.fluent() for e in a.effects if e.fluent.fluent() in nums]
            if written and rng.random() < 0.8:
                c = Plus(c, written[0]())
            elif nums and rng.random() < 0.5:
                c = Plus(c, nums[0]())
            costs[a] = c
        m = MinimizeActionCosts(costs)
        p2.add_quality_metric(m)

        def ref(trace, plan):
            tot = 0
            for st, (a, ps) in zip(trace, plan):
                a2 = p2.action(a.name)
                v = ev(costs[a2], seqsem.mk_lookup(_rekey(p2, st)), dict(zip(a2.parameters, ps)), p2)
                if v is UNDEF:
                    return UNDEF
                tot += v
            return tot
        return p2, (m, ref), kind
    if kind == "length":
        m = MinimizeSequentialPlanLength()
        p2.add_quality_metric(m)
        return p2, (m, lambda trace, plan: len(plan)), kind
    if kind == "final":
        if not nums:
            return p2, None, "none"
        e = Plus(nums[0](), Int(rng.randint(0, 2)))
        m = (MinimizeExpressionOnFinalState if rng.random() < 0.5 else MaximizeExpressionOnFinalState)(e)
        p2.add_quality_metric(m)
        return p2, (m, lambda trace, plan: ev(e, seqsem.mk_lookup(_rekey(p2, trace[-1])), {}, p2)), kind
    if not (p2.has_fluent("q") and p2.has_fluent("p") and p2.fluent("q").arity == 0 and p2.fluent("p").arity == 1):
        # a crafted problem without the generator's signature
        m = MinimizeSequentialPlanLength()
        p2.add_quality_metric(m)
        return p2, (m, lambda trace, plan: len(plan)), "length"
    goals = {}
    q = p2.fluent("q")
    goals[q()] = rng.randint(1, 3)
    pf = p2.fluent("p")
    o = list(p2.all_objects)[0]
    goals[pf(o)] = Fraction(rng.randint(1, 5), 2) if rng.random() < 0.4 else rng.randint(1, 3)
    m = Oversubscription(goals)
    p2.add_quality_metric(m)

    def ref(trace, plan):
        tot = 0
        lk = seqsem.mk_lookup(_rekey(p2, trace[-1]))
        for g, w in goals.items():
            v = ev(g, lk, {}, p2)
            if v is UNDEF:
                return UNDEF
            if v:
                tot += w
        return tot
    return p2, (m, ref), kind


def _rekey(p2, st):
    """states are keyed by Fluent objects; after clone() the fluents are the same objects"""
    return st


def bounded(tier, seed):
    from unified_planning.engines.plan_validator import SequentialPlanValidator
    from unified_planning.engines.results import ValidationResultStatus
    from unified_planning.plans import SequentialPlan, ActionInstance
    nprob, maxlen, cap = (120, 2, 40) if tier == "quick" else (700, 3, 300)
    failures, evals, nontrivial, samples = [], 0, set(), []
    kinds_seen = {}
    for s, pr0 in itertools.chain(SC.crafted_problems(seed, 6 if tier == "quick" else 30),
                                  SC.problems(seed + 13, nprob, features={"max_actions": 2, "numeric": 1.0})):
        pr, metric, mkind = add_metric(pr0, s)
        if not SequentialPlanValidator.supports(pr.kind):
            continue      # outside the validator's declared supported kind (documented rejection)
        kinds_seen[mkind] = kinds_seen.get(mkind, 0) + 1
        gas = seqsem.ground_actions(pr)
        rng = random.Random(s)
        plans = [()]
        for L in range(1, maxlen + 1):
            allp = list(itertools.product(gas, repeat=L))
            if len(allp) > cap:
                allp = rng.sample(allp, cap)
            plans += allp
        with warnings.catch_warnings():
            warnings.simplefilter("ignore")
            val = SequentialPlanValidator(environment=pr.environment)
        init = seqsem.initial_state(pr)
        for plan in plans:
            # reference
            try:
                trace = [init]
                ok = True
                for (a, ps) in plan:
                    nxt = seqsem.successor(pr, trace[-1], a, ps)
                    if nxt is None:
                        ok = False
                        break
                    trace.append(nxt)
                want_valid = ok and seqsem.is_goal(pr, trace[-1])
                want_metric = metric[1](trace, plan) if (want_valid and metric) else None
            except seqsem.Ambiguous:
                continue
            if want_metric is UNDEF:
                continue    # the metric reads an undefined fluent: outcome not fixed by the statement
            evals += 1
            sp = SequentialPlan([ActionInstance(a, tuple(ps)) for a, ps in plan])
            desc = {"problem": str(pr), "plan": [f"{a.name}({','.join(o.name for o in ps)})" for a, ps in plan], "metric": mkind}
            with warnings.catch_warnings():
                warnings.simplefilter("ignore")
                try:
                    res = val.validate(pr, sp)
                except Exception as e:  # noqa
                    failures.append({"what": f"seed {s}: validate raised {type(e).__name__}: {e} (plan length {len(plan)}, metric {mkind})",
                                     "concrete": desc, "observed": repr(e)})
                    break
            got_valid = res.status == ValidationResultStatus.VALID
            if want_valid:
                nontrivial.add((s, tuple(desc["plan"])))
            if got_valid != want_valid:
                tag = f" [{SC.STATIC_TAG}]" if want_valid and any(SC.static_conflict_after_grounding(pr, a_, ps_) for a_, ps_ in plan) else ""
                failures.append({"what": f"seed {s}: validator says {res.status.name} but the plan is {'valid' if want_valid else 'invalid'}{tag}",
                                 "concrete": desc, "observed": str(res.status)})
                break
            if not got_valid and res.reason is None:
                failures.append({"what": f"seed {s}: INVALID without a failure reason", "concrete": desc, "observed": None})
                break
            if want_valid and metric and want_metric is not UNDEF:
                me = res.metric_evaluations
                gotm = None if not me else list(me.values())[0]
                if gotm is None or Fraction(gotm) != Fraction(want_metric):
                    failures.append({"what": f"seed {s}: metric {mkind} reported {gotm}, reference {want_metric}",
                                     "concrete": desc, "observed": str(gotm)})
                    break
            if len(samples) < 3 and want_valid and plan:
                samples.append({k: desc[k] for k in ("plan", "metric")} | {"problem": pr.name, "metric_value": str(want_metric)})
        if len(failures) >= 5:
            break
    return {"evaluations": evals, "distinct_nontrivial": len(nontrivial), "failures": failures,
            "rule": f"{nprob} generated problems x one metric kind each ({kinds_seen}), all plans of length <= {maxlen} "
                    f"(sampled above {cap} per length) incl. the empty plan; non-trivial = distinct valid plan",
            "samples": samples, "bound": f"plans <= {maxlen}"}


LEVEL = "other"
EXPLANATION = __doc__


# ======================================================================================================= proved layer
import z3
from pyvc.values import (Ref, Seq, Map, Opt, SBool, SRef, SInt, SReal, SUnion, SSeq, SMap, Rec, CList, CDict, Loc, ExcVal, fresh_name, zbool, zint, zreal,
                         Unsupported, Str, Int as PInt, Real as PReal)
from pyvc.values import Bool as PBool
from pyvc.verify import Unit
from pyvc.engine import LoopSpec
from pyvc import builtins as B
import unified_planning as _up
import unified_planning.engines.plan_validator as _pv
import unified_planning.engines.sequential_simulator as _ss
from unified_planning.engines.results import ValidationResult as _VR, ValidationResultStatus as _VS
from unified_planning.engines.sequential_simulator import InapplicabilityReasons as _IR
from unified_planning.exceptions import (UPUsageError as _Usage, UPInvalidActionError as _Invalid, UPConflictingEffectsException as _Conflict,
                                         UPStateMissingFluentError as _Missing, UPProblemDefinitionError as _ProbDef)
from unified_planning.plans import SequentialPlan as _SeqPlan

State03 = Ref("State03")
Action03 = Ref("Action03")
Params03 = Ref("Params03")
AI03 = Ref("ActionInstance03", fields={"action": Action03, "actual_parameters": Params03})
Metric03 = Ref("Metric03")
for _m in ("is_minimize_action_costs", "is_minimize_sequential_plan_length", "is_minimize_expression_on_final_state",
           "is_maximize_expression_on_final_state", "is_oversubscription"):
    Metric03.observers[_m] = ((), PBool)
Kind03 = Ref("ProblemKind03")
Kind03.methods["unset_parameters"] = lambda eng, st, selfv, args, kw: iter([(st, None)])
Problem03 = Ref("Problem03", _up.model.Problem, fields={"quality_metrics": Seq(Metric03)})
Problem03.attrs["kind"] = lambda eng, st, p: Kind03.fresh("kind")
Plan03 = Ref("Plan03", _SeqPlan, fields={"actions": Seq(AI03)})
Sim03 = Ref("Simulator03")
IFV03 = Ref("InterpretedFunctionValues03")
FN03 = Ref("FNode03")
_S, _A, _AC, _P, _M = State03.z3sort(), AI03.z3sort(), Action03.z3sort(), Params03.z3sort(), Metric03.z3sort()
EXC = [None, _Usage, _Invalid, _Conflict, _Missing]
S0 = z3.Const("initial_state", _S)
NEXT = z3.Function("apply_unsafe.result", _S, _A, _S)
UCRAISE = z3.Function("get_unsatisfied_conditions.raises", _S, _A, z3.IntSort())
UCLEN = z3.Function("get_unsatisfied_conditions.len", _S, _A, z3.IntSort())
APRAISE = z3.Function("apply_unsafe.raises", _S, _A, z3.IntSort())
COST = z3.Function("action_cost_in", _S, _AC, _P, z3.RealSort())
COSTRAISE = z3.Function("action_cost_in.raises", _S, _AC, _P, z3.IntSort())
GRAISE = z3.Function("get_unsatisfied_goals.raises", _S, z3.BoolSort())
GLEN = z3.Function("get_unsatisfied_goals.len", _S, z3.IntSort())
FINAL = z3.Function("final_state_metric_in", _S, z3.RealSort())
FINRAISE = z3.Function("final_state_metric_in.raises", _S, z3.BoolSort())
TR = z3.Function("state_after", z3.IntSort(), _S)
MS = z3.Function("metric_sum", z3.IntSort(), z3.RealSort())
_obsM = lambda n: B._uf(f"Metric03.{n}()", _M, z3.BoolSort())     # noqa: E731
is_costs, is_len = _obsM("is_minimize_action_costs"), _obsM("is_minimize_sequential_plan_length")
is_minfin, is_maxfin, is_over = _obsM("is_minimize_expression_on_final_state"), _obsM("is_maximize_expression_on_final_state"), _obsM("is_oversubscription")


def _raise_or(eng, st, code, n_classes, label):
    """fork on an uninterpreted outcome code: 0 = normal return, k = raises EXC[k]"""
    st.assume(code >= 0, code <= n_classes)
    for k in range(n_classes + 1):
        if eng.feasible(st, code == k):
            s = st.fork().assume(code == k).note(f"{label}={k}")
            yield s, k


def _sim_contracts():
    def supports(eng, st, selfv, args, kw):
        yield st, SBool(z3.Bool("simulator_supports_kind"))

    def get_initial_state(eng, st, selfv, args, kw):
        yield st, State03.wrap(S0)

    def guc(eng, st, selfv, args, kw):
        state, ai = args[0], args[1]
        for s, k in _raise_or(eng, st, UCRAISE(state.z, ai.z), 4, "uc"):
            if k:
                yield s, ExcVal(EXC[k], (), "get_unsatisfied_conditions")
                continue
            n = UCLEN(state.z, ai.z)
            s.assume(n >= 0)
            for s2, some in eng.branch(s, n > 0, "uc:nonempty"):
                seq = Seq(FN03).fresh("unsat_conds")
                s2.assume(seq.n == n)
                yield s2, (s2.alloc(seq, "list"), _IR.VIOLATES_CONDITIONS if some else None)

    def apply_unsafe(eng, st, selfv, args, kw):
        state, ai = args[0], args[1]
        for s, k in _raise_or(eng, st, APRAISE(state.z, ai.z), 4, "ap"):
            yield s, (ExcVal(EXC[k], (), "apply_unsafe") if k else State03.wrap(NEXT(state.z, ai.z)))

    def goals(eng, st, selfv, args, kw):
        state = args[0]
        for s, r in eng.branch(st, GRAISE(state.z), "goals:raise"):
            if r:
                yield s, ExcVal(_Missing, (), "get_unsatisfied_goals")
            else:
                seq = Seq(FN03).fresh("unsatisfied_goals")
                s.assume(seq.n == GLEN(state.z), seq.n >= 0)
                yield s, s.alloc(seq, "list")

    def ifv(eng, st, selfv, args, kw):
        yield st, IFV03.fresh("ifv")
    Sim03.methods.update({"supports": supports, "get_initial_state": get_initial_state, "get_unsatisfied_conditions": guc,
                          "apply_unsafe": apply_unsafe, "get_unsatisfied_goals": goals, "get_interpreted_functions_values": ifv})


def _eqm_contract(eng, st, args, kw):
    """contract of evaluate_quality_metric (proved against the real function in the unit EvaluateQualityMetric below)"""
    sim, metric, mv, state, action, params, nxt = args
    m = metric.z
    for s, costs in eng.branch(st, is_costs(m), "eqm:costs"):
        if costs:
            for s2, k in _raise_or(eng, s, COSTRAISE(state.z, action.z, params.z), 2, "cost"):
                if k:
                    yield s2, ExcVal([None, _Usage, _Missing][k], (), "evaluate_quality_metric")
                else:
                    yield s2, SReal(zreal(mv) + COST(state.z, action.z, params.z))
            continue
        for s2, ln in eng.branch(s, is_len(m), "eqm:len"):
            if ln:
                yield s2, (mv + 1 if isinstance(mv, int) else SReal(zreal(mv) + 1))
                continue
            for s3, r in eng.branch(s2, FINRAISE(nxt.z), "eqm:final-raise"):
                yield s3, (ExcVal(_Missing, (), "evaluate_quality_metric") if r else SReal(FINAL(nxt.z)))


def spec_axioms(actions):
    j = z3.Int("j!c03")
    act = lambda i: z3.Select(actions.arr, i)     # noqa: E731
    metric = z3.Const("the_metric", _M)
    step = z3.If(is_costs(metric), COST(TR(j), B._uf("ActionInstance03.action", _A, _AC)(act(j)), B._uf("ActionInstance03.actual_parameters", _A, _P)(act(j))), 1)
    return [TR(0) == S0, MS(0) == 0,
            z3.ForAll([j], z3.Implies(j >= 0, TR(j + 1) == NEXT(TR(j), act(j))), patterns=[TR(j + 1)]),
            z3.ForAll([j], z3.Implies(j >= 0, MS(j + 1) == MS(j) + step), patterns=[MS(j + 1)])], metric


def stepok(actions, metric_present, metric, j):
    a = z3.Select(actions.arr, j)
    acn, prm = B._uf("ActionInstance03.action", _A, _AC)(a), B._uf("ActionInstance03.actual_parameters", _A, _P)(a)
    return z3.And(UCRAISE(TR(j), a) == 0, UCLEN(TR(j), a) == 0, APRAISE(TR(j), a) == 0,
                  z3.Implies(z3.And(metric_present, is_costs(metric)), COSTRAISE(TR(j), acn, prm) == 0))


class Validate(Unit):
    prop = "C03"
    name = "SequentialPlanValidator._validate"
    doc = "VALID iff every step is executable and the goals hold at the end; INVALID with a reason; no other exception; metric = specified value"
    allowed_raises = (_ProbDef, _Usage)

    def target(self):
        return _pv.SequentialPlanValidator._validate

    def configure(self, eng):
        _sim_contracts()

        def new_sim(eng_, st, args, kw):
            st.ghost["simulators"] = st.ghost.get("simulators", 0) + 1
            yield st, Sim03.fresh("simulator")
        eng.contracts[_ss.UPSequentialSimulator] = new_sim
        eng.contracts[_ss.evaluate_quality_metric] = _eqm_contract
        QNV = "unified_planning.engines.plan_validator.SequentialPlanValidator._validate"

        def inv(L):
            i = zint(L._i)
            actions = self._actions
            tr = L.trace
            tr = tr if isinstance(tr, SSeq) else B.as_sseq(L._eng, L.st, tr, State03)
            j = z3.Int(fresh_name("j"))
            out = [("trace holds the states after 0..i instances", z3.And(tr.n == i + 1, z3.ForAll([j], z3.Implies(z3.And(0 <= j, j <= i), z3.Select(tr.arr, j) == TR(j))))),
                   ("every earlier step was executable", z3.ForAll([j], z3.Implies(z3.And(0 <= j, j < i), stepok(actions, self._mp, self._metric, j)))),
                   ("no failure message is pending", zbool(B.identical(L._eng, L.st, L.msg, None)))]
            if self._mp_py is not False:
                try:
                    mv = L.metric_value
                except AttributeError:
                    mv = None
                if mv is not None:
                    stepm = z3.Or(is_costs(self._metric), is_len(self._metric))
                    out.append(("metric_value = costs summed over the pre-states / number of steps", zreal(mv) == z3.If(stepm, MS(i), 0)))
            return out
        eng.loops[(QNV, 0)] = LoopSpec(inv, modifies=["i", "ai", "unsat_conds", "reason", "next_state", "metric_value", "trace", "msg", "e"],
                                       types={"trace": Seq(State03), "metric_value": PReal, "msg": Opt(Str), "next_state": State03, "ai": AI03})

    def setup(self, eng, st):
        from pyvc.values import Bool as PB
        w = st.alloc(Rec(_pv.SequentialPlanValidator, {"skip_checks": PB.fresh("skip_checks"), "error_on_failed_checks": PB.fresh("error_on_failed_checks")}),
                     "validator")
        problem = Problem03.fresh("problem")
        plan = Plan03.fresh("plan")
        actions = B.field_uf(eng, st, plan, "actions")
        self._actions = actions
        ax, metric = spec_axioms(actions)
        eng.axioms += ax
        qm = B.field_uf(eng, st, problem, "quality_metrics")
        self._metric = metric
        self._mp = qm.n == 1
        self._mp_py = None
        st.assume(z3.Implies(qm.n >= 1, z3.Select(qm.arr, 0) == metric))
        # the metric is one of the supported classes, exactly one of them
        fl = [is_costs(metric), is_len(metric), is_minfin(metric), is_maxfin(metric), is_over(metric)]
        st.assume(z3.Or(fl), z3.And([z3.Or(z3.Not(a), z3.Not(b)) for k, a in enumerate(fl) for b in fl[k + 1:]]))
        return [w, problem, plan], {}, dict(actions=actions, qm=qm, metric=metric, w=w)

    def post(self, eng, ctx, st, out):
        actions, qm, metric = ctx["actions"], ctx["qm"], ctx["metric"]
        n = actions.n
        mp = qm.n == 1
        j = z3.Int(fresh_name("j"))
        finalm = z3.And(mp, z3.Not(is_costs(metric)), z3.Not(is_len(metric)))
        valid_spec = z3.And(z3.ForAll([j], z3.Implies(z3.And(0 <= j, j < n), stepok(actions, mp, metric, j))),
                            z3.Not(GRAISE(TR(n))), GLEN(TR(n)) == 0, z3.Implies(finalm, z3.Not(FINRAISE(TR(n)))))
        wrec = st.load(ctx["w"]).fields
        if out[0] == "raise":
            if out[1].cls is _ProbDef:
                st.oblige("UPProblemDefinitionError only for more than one quality metric", qm.n > 1)
            elif out[1].cls is _Usage:
                st.oblige("UPUsageError only for an unsupported kind with error_on_failed_checks",
                          z3.And(z3.Not(zbool(wrec["skip_checks"])), zbool(wrec["error_on_failed_checks"]), z3.Not(z3.Bool("simulator_supports_kind"))))
            return
        r = eng.deref(st, out[1])
        if not isinstance(r, Rec) or r.cls is not _VR:
            st.oblige("a ValidationResult is returned", z3.BoolVal(False))
            return
        f = r.fields
        status = f["status"]
        if status is _VS.VALID:
            st.oblige("VALID only if every step is executable and the final state satisfies the goals", valid_spec)
            tr = eng.deref(st, f["trace"])
            tr = tr if isinstance(tr, SSeq) else B.as_sseq(eng, st, tr, State03)
            st.oblige("VALID: the trace is the sequence of states after 0..n instances",
                      z3.And(tr.n == n + 1, z3.ForAll([j], z3.Implies(z3.And(0 <= j, j <= n), z3.Select(tr.arr, j) == TR(j)))))
            me = eng.deref(st, f["metric_evaluations"])
            if me is None:
                st.oblige("VALID without metric evaluations only if the problem has no metric", z3.Not(mp))
            else:
                if isinstance(me, CDict) and len(me.items) == 1:
                    (k, v), = me.items.items()
                    v = eng.deref(st, v)
                    st.oblige("the reported metric is the problem's metric", z3.And(mp, k.z == metric))
                    st.oblige("the reported value is the specified one: costs summed over pre-states / plan length / final-state value",
                              zreal(v) == z3.If(z3.Or(is_costs(metric), is_len(metric)), MS(n), FINAL(TR(n))))
                elif isinstance(me, SMap):
                    st.oblige("the reported metric is the problem's metric", z3.And(mp, z3.Select(me.has, metric)))
                    k = z3.Const(fresh_name("k"), _M)
                    st.oblige("only the problem's metric is reported", z3.ForAll([k], z3.Implies(z3.Select(me.has, k), k == metric)))
                    st.oblige("the reported value is the specified one: costs summed over pre-states / plan length / final-state value",
                              z3.Select(me.val, metric) == z3.If(z3.Or(is_costs(metric), is_len(metric)), MS(n), FINAL(TR(n))))
                else:
                    raise Unsupported(f"metric_evaluations {me!r}")
        elif status is _VS.INVALID:
            st.oblige("INVALID only if some step is not executable or the goals do not hold at the end", z3.Not(valid_spec))
            st.oblige("INVALID carries a failure reason", z3.BoolVal(f["reason"] is not None))
            logs = eng.deref(st, f["log_messages"])
            st.oblige("INVALID carries a message", z3.BoolVal(isinstance(logs, CList) and len(logs.items) >= 1))
            st.oblige("INVALID reports no metric value", z3.BoolVal(f["metric_evaluations"] is None))
        else:
            st.oblige("status is VALID or INVALID", z3.BoolVal(False))


# ----------------------------------------------------------------------------------------------- evaluate_quality_metric
Param03 = Ref("Parameter03")
Action03.fields["parameters"] = Seq(Param03)
SE03 = Ref("StateEvaluator03")
_N = FN03.z3sort()
EV = z3.Function("evaluate", _N, _S, _N)
EVRAISE = z3.Function("evaluate.raises", _N, _S, z3.BoolSort())
CV = z3.Function("constant_value", _N, z3.RealSort())
BV = z3.Function("bool_constant_value", _N, z3.BoolSort())
_PARR = z3.ArraySort(z3.IntSort(), Param03.z3sort())
_NARR = z3.ArraySort(z3.IntSort(), _N)
SUBST = z3.Function("substitute_parameters", _N, _PARR, z3.IntSort(), _NARR, z3.IntSort(), _N)
COSTEXP_NONE = z3.Function("get_action_cost.isnone", _M, _AC, z3.BoolSort())
COSTEXP = z3.Function("get_action_cost", _M, _AC, _N)
FINEXP = z3.Function("metric.expression", _M, _N)
GS = z3.Function("gain_sum", z3.IntSort(), z3.RealSort())
PITEMS_ARR = z3.Function("actual_parameters.items", _P, _NARR)
PITEMS_LEN = z3.Function("actual_parameters.len", _P, z3.IntSort())
FN03.methods["constant_value"] = lambda eng, st, x, args, kw: iter([(st, SReal(CV(x.z)))])
FN03.methods["bool_constant_value"] = lambda eng, st, x, args, kw: iter([(st, SBool(BV(x.z)))])


def _fn_substitute(eng, st, x, args, kw):
    m = args[0]
    if not isinstance(m, B.ZipDict):
        raise Unsupported("substitute with a map that is not dict(zip(parameters, values))")
    yield st, FN03.wrap(SUBST(x.z, m.keys.arr, m.keys.n, m.values.arr, m.values.n))


FN03.methods["substitute"] = _fn_substitute
FN03.isinstance_hook = lambda e, st, v, clss: True
FN03.pycls = _up.model.FNode


def _se_evaluate(eng, st, selfv, args, kw):
    exp, state = args
    st.ghost["evaluations"] = st.ghost.get("evaluations", ()) + ((exp.z, state.z),)
    for s, r in eng.branch(st, EVRAISE(exp.z, state.z), "evaluate:raise"):
        yield s, (ExcVal(_Missing, (), "StateEvaluator.evaluate") if r else FN03.wrap(EV(exp.z, state.z)))


SE03.methods["evaluate"] = _se_evaluate
Metric03.methods["get_action_cost"] = lambda eng, st, m, args, kw: iter([(st, SUnion([(COSTEXP_NONE(m.z, args[0].z), None),
                                                                                       (z3.Not(COSTEXP_NONE(m.z, args[0].z)), FN03.wrap(COSTEXP(m.z, args[0].z)))]))])
Metric03.fields["expression"] = FN03
Metric03.fields["goals"] = Map(FN03, PReal, ordered=True)
Metric03.isinstance_hook = lambda e, st, v, clss: True
Metric03.pycls = _up.model.metrics.PlanQualityMetric
SimRec03 = Ref("SimulatorWithProblem03", fields={"_problem": Problem03})


class EvaluateQualityMetric(Unit):
    prop = "C03"
    name = "evaluate_quality_metric"
    doc = ("action cost = the metric's cost expression with the action's parameters replaced by the actual ones, evaluated in `state` (the pre-state), added "
           "to the running value; plan length + 1; final-state expression / oversubscription gain evaluated in `next_state`")
    allowed_raises = (_Usage, _Missing)

    def target(self):
        return _ss.evaluate_quality_metric

    def configure(self, eng):
        def new_se(eng_, st, args, kw):
            yield st, SE03.fresh("se")
        eng.contracts[_ss.StateEvaluator] = new_se
        QNE = "unified_planning.engines.sequential_simulator.evaluate_quality_metric"

        def inv(L):
            i = zint(L._i)
            j = z3.Int(fresh_name("j"))
            keys = self._goals.keys
            return [("total_gain = gains of the scanned goals that hold in next_state", zreal(L.total_gain) == GS(i)),
                    ("no scanned goal failed to evaluate", z3.ForAll([j], z3.Implies(z3.And(0 <= j, j < i), z3.Not(EVRAISE(z3.Select(keys.arr, j), self._nxt.z)))))]
        eng.loops[(QNE, 0)] = LoopSpec(inv, modifies=["goal", "gain", "total_gain"], types={"total_gain": PReal, "goal": FN03, "gain": PReal})

    def setup(self, eng, st):
        sim = SimRec03.fresh("simulator")
        metric = Metric03.fresh("metric")
        state, nxt = State03.fresh("state"), State03.fresh("next_state")
        action = Action03.fresh("action")
        pp = Params03.fresh("parameters")
        params = SSeq(FN03, PITEMS_ARR(pp.z), PITEMS_LEN(pp.z))
        st.assume(params.n >= 0)
        mv = PReal.fresh("metric_value")
        self._nxt = nxt
        goals = B.field_uf(eng, st, metric, "goals")
        eng.assume_wf(st, goals)
        self._goals = goals
        m = metric.z
        fl = [is_costs(m), is_len(m), is_minfin(m), is_maxfin(m), is_over(m)]
        st.assume(z3.Or(fl), z3.And([z3.Or(z3.Not(a), z3.Not(b)) for k, a in enumerate(fl) for b in fl[k + 1:]]))
        j = z3.Int("j!gs")
        gk = z3.Select(goals.keys.arr, j)
        eng.axioms += [GS(0) == 0,
                       z3.ForAll([j], z3.Implies(j >= 0, GS(j + 1) == GS(j) + z3.If(BV(EV(gk, nxt.z)), z3.Select(goals.val, gk), 0)), patterns=[GS(j + 1)])]
        return [sim, metric, mv, state, action, st.alloc(params, "tuple") if False else params, nxt], {}, \
            dict(metric=metric, state=state, nxt=nxt, action=action, pp=pp, params=params, mv=mv, goals=goals)

    def post(self, eng, ctx, st, out):
        m, state, nxt, action, params, mv, goals = ctx["metric"].z, ctx["state"], ctx["nxt"], ctx["action"], ctx["params"], ctx["mv"], ctx["goals"]
        aps = B.field_uf(eng, st, action, "parameters")
        costexp = COSTEXP(m, action.z)
        grounded = SUBST(costexp, aps.arr, aps.n, params.arr, params.n)
        usage = z3.Or(COSTEXP_NONE(m, action.z), aps.n != params.n)
        j = z3.Int(fresh_name("j"))
        gk = z3.Select(goals.keys.arr, j)
        some_goal_raises = z3.Exists([j], z3.And(0 <= j, j < goals.keys.n, EVRAISE(gk, nxt.z)))
        finexp = B._uf("Metric03.expression", _M, _N)(m)
        evs = st.ghost.get("evaluations", ())
        if out[0] == "raise":
            if out[1].cls is _Usage:
                st.oblige("UPUsageError only for action costs without a cost for the action / with a wrong number of parameters", z3.And(is_costs(m), usage))
            else:
                st.oblige("UPStateMissingFluentError only when the evaluation it specifies is undefined",
                          z3.Or(z3.And(is_costs(m), z3.Not(usage), EVRAISE(grounded, state.z)),
                                z3.And(z3.Or(is_minfin(m), is_maxfin(m)), EVRAISE(finexp, nxt.z)),
                                z3.And(is_over(m), some_goal_raises)))
            return
        r = out[1]
        rz = zreal(r)
        st.oblige("action costs: running value + cost expression (parameters replaced by the actual ones) evaluated in the PRE-state",
                  z3.Implies(is_costs(m), z3.And(z3.Not(usage), z3.Not(EVRAISE(grounded, state.z)), rz == mv.z + CV(EV(grounded, state.z)))))
        st.oblige("plan length: running value + 1", z3.Implies(is_len(m), rz == mv.z + 1))
        st.oblige("final-state metrics: the expression evaluated in next_state",
                  z3.Implies(z3.Or(is_minfin(m), is_maxfin(m)), z3.And(z3.Not(EVRAISE(finexp, nxt.z)), rz == CV(EV(finexp, nxt.z)))))
        st.oblige("oversubscription: the sum of the gains of the goals that hold in next_state",
                  z3.Implies(is_over(m), z3.And(z3.Not(some_goal_raises), rz == GS(goals.keys.n))))
        for (e_, s_) in evs:
            st.oblige("every evaluation is on the state the metric kind prescribes", z3.If(is_costs(m), s_ == state.z, s_ == nxt.z))


UNITS = [Validate(), EvaluateQualityMetric()]
TRUSTED = ["the simulator's operations are used by contract: each returns or raises one of UPUsageError / UPInvalidActionError / UPConflictingEffectsException / "
           "UPStateMissingFluentError; what they compute is C01 / C02 (bounded layer and kernels there)",
           "the problem's metric is one of the five supported metric classes"]

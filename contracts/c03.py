"""C03 — sequential plan validation decides validity and metric values exactly.

B: on the C01 problem family extended with one quality metric (action costs, plan length, final-state
expression, oversubscription; or none), every plan up to the length bound including the empty plan:
SequentialPlanValidator returns VALID iff the plan is executable and ends in a goal state under
spec/seqsem.py, never raises, and a VALID result carries the metric value of the reference metric.
"""
import itertools
import random
import warnings
from fractions import Fraction
from rtc import seqcheck as SC
from spec import seqsem
from spec.ev import ev, UNDEF

UNITS = []
USES_THEORY = False


def add_metric(pr, gen_seed):
    """returns (problem clone with one metric, reference metric function) or (pr, None)"""
    from unified_planning.shortcuts import (MinimizeActionCosts, MinimizeSequentialPlanLength, MinimizeExpressionOnFinalState,
                                            MaximizeExpressionOnFinalState, Oversubscription, Int, Plus)
    rng = random.Random(gen_seed)
    kind = ["costs", "final", "oversub", "costs", "length", "none"][gen_seed % 6]
    p2 = pr.clone()
    nums = [f for f in p2.fluents if (f.type.is_int_type() or f.type.is_real_type()) and f.arity == 0]
    if kind == "none":
        return p2, None, kind
    if kind == "costs":
        costs = {}
        for a in p2.actions:
            c = Int(rng.randint(0, 3))
            # prefer costs that read a fluent the action itself writes: pre- vs post-state then matters
            written = [e.fluent.fluent() for e in a.effects if e.fluent.fluent() in nums]
            if written and rng.random() < 0.8:
                c = Plus(c, written[0]())
            elif nums and rng.random() < 0.5:
                c = Plus(c, nums[0]())
            costs[a] = c
        m = MinimizeActionCosts(costs)
        p2.add_quality_metric(m)

        def ref(trace, plan):
            tot = 0
            for st, (a, ps) in zip(trace, plan):
                a2 = p2.action(a.name)
                v = ev(costs[a2], seqsem.mk_lookup(_rekey(p2, st)), dict(zip(a2.parameters, ps)), p2)
                if v is UNDEF:
                    return UNDEF
                tot += v
            return tot
        return p2, (m, ref), kind
    if kind == "length":
        m = MinimizeSequentialPlanLength()
        p2.add_quality_metric(m)
        return p2, (m, lambda trace, plan: len(plan)), kind
    if kind == "final":
        if not nums:
            return p2, None, "none"
        e = Plus(nums[0](), Int(rng.randint(0, 2)))
        m = (MinimizeExpressionOnFinalState if rng.random() < 0.5 else MaximizeExpressionOnFinalState)(e)
        p2.add_quality_metric(m)
        return p2, (m, lambda trace, plan: ev(e, seqsem.mk_lookup(_rekey(p2, trace[-1])), {}, p2)), kind
    goals = {}
    q = p2.fluent("q")
    goals[q()] = rng.randint(1, 3)
    pf = p2.fluent("p")
    o = list(p2.all_objects)[0]
    goals[pf(o)] = Fraction(rng.randint(1, 5), 2) if rng.random() < 0.4 else rng.randint(1, 3)
    m = Oversubscription(goals)
    p2.add_quality_metric(m)

    def ref(trace, plan):
        tot = 0
        lk = seqsem.mk_lookup(_rekey(p2, trace[-1]))
        for g, w in goals.items():
            v = ev(g, lk, {}, p2)
            if v is UNDEF:
                return UNDEF
            if v:
                tot += w
        return tot
    return p2, (m, ref), kind


def _rekey(p2, st):
    """states are keyed by Fluent objects; after clone() the fluents are the same objects"""
    return st


def bounded(tier, seed):
    from unified_planning.engines.plan_validator import SequentialPlanValidator
    from unified_planning.engines.results import ValidationResultStatus
    from unified_planning.plans import SequentialPlan, ActionInstance
    nprob, maxlen, cap = (120, 2, 40) if tier == "quick" else (700, 3, 300)
    failures, evals, nontrivial, samples = [], 0, set(), []
    kinds_seen = {}
    for s, pr0 in SC.problems(seed + 13, nprob, features={"max_actions": 2, "numeric": 1.0}):
        pr, metric, mkind = add_metric(pr0, s)
        if not SequentialPlanValidator.supports(pr.kind):
            continue      # outside the validator's declared supported kind (documented rejection)
        kinds_seen[mkind] = kinds_seen.get(mkind, 0) + 1
        gas = seqsem.ground_actions(pr)
        rng = random.Random(s)
        plans = [()]
        for L in range(1, maxlen + 1):
            allp = list(itertools.product(gas, repeat=L))
            if len(allp) > cap:
                allp = rng.sample(allp, cap)
            plans += allp
        with warnings.catch_warnings():
            warnings.simplefilter("ignore")
            val = SequentialPlanValidator(environment=pr.environment)
        init = seqsem.initial_state(pr)
        for plan in plans:
            # reference
            try:
                trace = [init]
                ok = True
                for (a, ps) in plan:
                    nxt = seqsem.successor(pr, trace[-1], a, ps)
                    if nxt is None:
                        ok = False
                        break
                    trace.append(nxt)
                want_valid = ok and seqsem.is_goal(pr, trace[-1])
                want_metric = metric[1](trace, plan) if (want_valid and metric) else None
            except seqsem.Ambiguous:
                continue
            if want_metric is UNDEF:
                continue    # the metric reads an undefined fluent: outcome not fixed by the statement
            evals += 1
            sp = SequentialPlan([ActionInstance(a, tuple(ps)) for a, ps in plan])
            desc = {"problem": str(pr), "plan": [f"{a.name}({','.join(o.name for o in ps)})" for a, ps in plan], "metric": mkind}
            with warnings.catch_warnings():
                warnings.simplefilter("ignore")
                try:
                    res = val.validate(pr, sp)
                except Exception as e:  # noqa
                    failures.append({"what": f"seed {s}: validate raised {type(e).__name__}: {e} (plan length {len(plan)}, metric {mkind})",
                                     "concrete": desc, "observed": repr(e)})
                    break
            got_valid = res.status == ValidationResultStatus.VALID
            if want_valid:
                nontrivial.add((s, tuple(desc["plan"])))
            if got_valid != want_valid:
                failures.append({"what": f"seed {s}: validator says {res.status.name} but the plan is {'valid' if want_valid else 'invalid'}",
                                 "concrete": desc, "observed": str(res.status)})
                break
            if not got_valid and res.reason is None:
                failures.append({"what": f"seed {s}: INVALID without a failure reason", "concrete": desc, "observed": None})
                break
            if want_valid and metric and want_metric is not UNDEF:
                me = res.metric_evaluations
                gotm = None if not me else list(me.values())[0]
                if gotm is None or Fraction(gotm) != Fraction(want_metric):
                    failures.append({"what": f"seed {s}: metric {mkind} reported {gotm}, reference {want_metric}",
                                     "concrete": desc, "observed": str(gotm)})
                    break
            if len(samples) < 3 and want_valid and plan:
                samples.append({k: desc[k] for k in ("plan", "metric")} | {"problem": pr.name, "metric_value": str(want_metric)})
        if len(failures) >= 5:
            break
    return {"evaluations": evals, "distinct_nontrivial": len(nontrivial), "failures": failures,
            "rule": f"{nprob} generated problems x one metric kind each ({kinds_seen}), all plans of length <= {maxlen} "
                    f"(sampled above {cap} per length) incl. the empty plan; non-trivial = distinct valid plan",
            "samples": samples, "bound": f"plans <= {maxlen}"}


LEVEL = "other"
EXPLANATION = __doc__

"""C14 — shared environment walkers are history-independent, even after failures.

Class invariant Clean(w) of DagWalker:  w.stack == []  and  (w.invalidate_memoization -> w.memoization == {})
and every memoized entry is the fold value R(key).  Proved on DagWalker.walk (callees iter_walk,
_process_stack, _push_with_children_to_stack, _compute_node_result, _get_key, _get_children inlined
from the real source) for *any* handler table: a handler is an opaque callable that, given the fold
values of the children, returns the fold value of the node or raises.  Post-condition on the normal
exit: result == R(expression) and Clean; on every exceptional exit: Clean.  Clean before a call =>
the result is a function of the arguments only; Clean after every exit => by induction over the
call history every later call starts Clean.
"""
import z3
from pyvc.values import *  # noqa
from pyvc.values import Rec
from pyvc.verify import Unit
from pyvc.engine import LoopSpec
from pyvc import builtins as B
from . import theory as T

import unified_planning.model.walkers.dag as dag
from unified_planning.model.operators import OperatorKind as OK

Res = Ref("Res")
R = z3.Function("R", T.FNode.z3sort(), Res.z3sort())       # the fold value of a node
ENTRY = Tup(Bool, T.FNode)
QN = "unified_planning.model.walkers.dag.DagWalker."


class HandlerError(Exception):
    """stands for any exception a handler may raise"""


def handler_stub(*a, **k):   # identity of the opaque handler
    raise RuntimeError


def nargs(e):
    return B._uf("FNode.args.len", T.FNode.z3sort(), z3.IntSort())(e)


def child(e, j):
    return z3.Select(B._uf("FNode.args.arr", T.FNode.z3sort(), z3.ArraySort(z3.IntSort(), T.FNode.z3sort()))(e), j)


def handler_contract(eng, st, args, kw):
    (e,) = args
    a = eng.deref(st, kw["args"])
    a = B.as_sseq(eng, st, a, Res)
    j = z3.Int(fresh_name("j"))
    st.oblige("handler precondition: one result per child", a.n == nargs(e.z))
    st.oblige("handler precondition: args are the fold values of the children",
              z3.ForAll([j], z3.Implies(z3.And(0 <= j, j < nargs(e.z)), z3.Select(a.arr, j) == R(child(e.z, j)))))
    s2 = st.fork()
    yield s2.note("handler:raise"), ExcVal(HandlerError, (), "handler")
    yield st.note("handler:ok"), Res.wrap(R(e.z))


def I1(memo):
    k = T.FNode.fresh("k")
    return z3.ForAll([k.z], z3.Implies(z3.Select(memo.has, k.z), z3.Select(memo.val, k.z) == R(k.z)))


def entry(stack, i):
    fl, ex = ENTRY.wrap(z3.Select(stack.arr, i))
    return fl.z, ex.z


def I2(memo, stack, upto=None):
    """every expanded entry has each child memoized or pending above it"""
    i, j, m = z3.Int(fresh_name("i")), z3.Int(fresh_name("j")), z3.Int(fresh_name("m"))
    n = stack.n if upto is None else upto
    fl, ex = entry(stack, i)
    _, exm = entry(stack, m)
    return z3.ForAll([i, j], z3.Implies(
        z3.And(0 <= i, i < n, fl, 0 <= j, j < nargs(ex)),
        z3.Or(z3.Select(memo.has, child(ex, j)),
              z3.Exists([m], z3.And(i < m, m < stack.n, exm == child(ex, j))))))


def I3(memo, stack, root):
    m = z3.Int(fresh_name("m"))
    _, exm = entry(stack, m)
    return z3.Or(z3.Select(memo.has, root.z), z3.Exists([m], z3.And(0 <= m, m < stack.n, exm == root.z)))


class Walk(Unit):
    prop = "C14"
    allowed_raises = (HandlerError,)

    def __init__(self, invalidate):
        self.invalidate = invalidate
        self.name = f"DagWalker.walk[invalidate_memoization={invalidate}]"
        self.doc = "normal exit: result == fold(expression) and Clean; exceptional exit: Clean"

    def target(self):
        return dag.DagWalker.walk

    def configure(self, eng):
        eng.contracts[handler_stub] = handler_contract

        def inv_process(L):
            w = L.self
            memo, stack = L.field(w, "memoization"), L.field(w, "stack")
            root = L.st.ghost["root"]
            return [("I1 memo entries are fold values", I1(memo)), ("I2 children memoized or pending above", I2(memo, stack)),
                    ("I3 root memoized or pending", I3(memo, stack, root)), ("len", stack.n >= 0)]
        eng.loops[(QN + "_process_stack", 0)] = LoopSpec(
            inv_process, modifies=["was_expanded", "expression", "self.stack", "self.memoization"],
            types={"was_expanded": Bool, "expression": T.FNode})

        def inv_push(L):
            w = L.self
            memo, stack = L.field(w, "memoization"), L.field(w, "stack")
            pre = L._pre
            stack0 = pre.field(pre.self, "stack")
            memo0 = pre.field(pre.self, "memoization")
            e = L.expression
            i = zint(L._i)
            m, j = z3.Int(fresh_name("m")), z3.Int(fresh_name("j"))
            flm, exm = entry(stack, m)
            return [
                ("prefix kept", z3.And(stack.n >= stack0.n, z3.ForAll([m], z3.Implies(
                    z3.And(0 <= m, m < stack0.n), z3.Select(stack.arr, m) == z3.Select(stack0.arr, m))))),
                ("new entries are unexpanded children", z3.ForAll([m], z3.Implies(
                    z3.And(stack0.n <= m, m < stack.n),
                    z3.And(z3.Not(flm), z3.Exists([j], z3.And(0 <= j, j < i, exm == child(e.z, j))))))),
                ("seen children memoized or pushed", z3.ForAll([j], z3.Implies(
                    z3.And(0 <= j, j < i),
                    z3.Or(z3.Select(memo.has, child(e.z, j)),
                          z3.Exists([m], z3.And(stack0.n <= m, m < stack.n, exm == child(e.z, j))))))),
                ("memo untouched", memo.same(memo0)),
            ]
        eng.loops[(QN + "_push_with_children_to_stack", 0)] = LoopSpec(
            inv_push, modifies=["s", "key", "self.stack"], types={"s": T.FNode, "key": T.FNode})

    def setup(self, eng, st):
        memo0 = eng.fresh_of(st, Map(T.FNode, Res), "memo")
        st.assume(I1(memo0))
        if self.invalidate:
            k = T.FNode.fresh("k")
            st.assume(z3.ForAll([k.z], z3.Not(z3.Select(memo0.has, k.z))))
        memo = st.alloc(memo0, "dict")
        stack = st.alloc(SSeq.of(ENTRY, []), "list")
        functions = st.alloc(CDict({o: handler_stub for o in OK}), "dict")
        w = st.alloc(Rec(dag.DagWalker, {"memoization": memo, "stack": stack, "functions": functions,
                                         "invalidate_memoization": self.invalidate,
                                         "walk_error": handler_stub}), "DagWalker")
        e = T.FNode.fresh("expression")
        st.ghost["root"] = e
        return [w, e], {}, dict(w=w, e=e, memo0=memo0)

    def clean(self, eng, st, w):
        memo = eng.deref(st, st.getfield(w, "memoization"))
        stack = B.as_sseq(eng, st, eng.deref(st, st.getfield(w, "stack")), ENTRY)
        out = [("stack empty", stack.n == 0), ("memo entries are fold values", I1(memo))]
        if self.invalidate:
            k = T.FNode.fresh("k")
            out.append(("memo empty (invalidate_memoization)", z3.ForAll([k.z], z3.Not(z3.Select(memo.has, k.z)))))
        return out

    def post(self, eng, ctx, st, out):
        kind = "normal" if out[0] == "return" else "exceptional"
        for n, c in self.clean(eng, st, ctx["w"]):
            st.oblige(f"{kind} exit: Clean: {n}", c)
        if out[0] == "return":
            st.oblige("result == fold(expression)", out[1].z == R(ctx["e"].z))

    def replay(self, ctx, model, label):
        if "exceptional" not in label:
            return None
        return replay_concrete({"invalidate": self.invalidate})


def replay_concrete(c):
    """a handler raising on one node: the walker must stay usable (native run of the real DagWalker)"""
    from unified_planning.shortcuts import Fluent, IntType, Plus, Int, FluentExp
    from unified_planning.model.walkers.dag import DagWalker

    class W(DagWalker):
        def __init__(self):
            DagWalker.__init__(self, invalidate_memoization=c["invalidate"])
            self.boom = True

        def walk_plus(self, expression, args, **kw):
            return sum(args)

        def walk_int_constant(self, expression, args, **kw):
            if expression.constant_value() == 13 and self.boom:
                raise ValueError("boom")
            return expression.constant_value()

    w = W()
    e = Plus(Plus(Int(2), Int(13)), Int(1))     # Int(1) is memoized before the handler of Int(13) raises
    try:
        w.walk(e)
        return {"reproduced": False, "concrete": c, "observed": "handler did not raise"}
    except ValueError:
        pass
    dirty = []
    if w.stack:
        dirty.append(f"stack left with {len(w.stack)} entries")
    if c["invalidate"] and w.memoization:
        dirty.append(f"memoization left with {len(w.memoization)} entries")
    w.boom = False
    try:
        r = w.walk(Plus(Int(5), Int(6)))
        if r != 11:
            dirty.append(f"later unrelated walk returned {r} instead of 11")
    except Exception as ex:  # noqa
        dirty.append(f"later unrelated walk raised {type(ex).__name__}: {ex}")
    return {"reproduced": bool(dirty), "concrete": c, "observed": dirty}


def replay_file(data):
    return replay_concrete(data["concrete"])


import unified_planning.model.walkers.state_evaluator as sev
import unified_planning.model.walkers.quantifier_simplifier as qs

ProblemT = Ref("Problem")
StateT = Ref("State")
ProblemT.fields["environment"] = T.Environment


class WalkFailure(Exception):
    """any exception escaping DagWalker.walk (UPStateMissingFluentError, UPProblemDefinitionError, ...)"""


def walk_contract(eng, st, args, kw):
    """DagWalker.walk as proved above: returns the fold value or raises; touches only stack/memoization"""
    s2 = st.fork()
    yield s2.note("walk:raise"), ExcVal(WalkFailure, (), "walk")
    r = T.FNode.fresh("r")
    # the evaluator's handlers return constants (C01/C11 fold obligations)
    C = T.OKT.consts
    st.assume(z3.Or([T.node_type(r.z) == C[k] for k in (OK.BOOL_CONSTANT, OK.INT_CONSTANT, OK.REAL_CONSTANT, OK.OBJECT_EXP)]))
    yield st.note("walk:ok"), r


class EvaluatorReset(Unit):
    prop = "C14"
    allowed_raises = (WalkFailure,)

    def __init__(self, which):
        self.which = which
        self.name = {"evaluate": "StateEvaluator.evaluate", "qsimplify": "QuantifierSimplifier.qsimplify"}[which]
        self.doc = "on every exit (normal and exceptional) the per-call fields are reset to None, so the shared evaluator stays usable"

    def target(self):
        return sev.StateEvaluator.evaluate if self.which == "evaluate" else qs.QuantifierSimplifier.qsimplify

    def configure(self, eng):
        eng.contracts[dag.DagWalker.walk] = walk_contract

    def setup(self, eng, st):
        cls = sev.StateEvaluator if self.which == "evaluate" else qs.QuantifierSimplifier
        w = st.alloc(Rec(cls, {"_problem": ProblemT.fresh("problem"), "_assignments": None,
                               "_variable_assignments": None, "_state": None}), cls.__name__)
        e = T.FNode.fresh("expression")
        va = st.alloc(eng.fresh_of(st, Map(T.FNode, T.FNode), "va"), "dict")
        if self.which == "evaluate":
            return [w, e, StateT.fresh("state"), va], {}, dict(w=w)
        asg = st.alloc(eng.fresh_of(st, Map(T.FNode, T.FNode), "asg"), "dict")
        return [w, e, asg, va], {}, dict(w=w)

    def post(self, eng, ctx, st, out):
        kind = "normal" if out[0] == "return" else "exceptional"
        w = ctx["w"]
        st.oblige(f"{kind} exit: _variable_assignments is None", st.getfield(w, "_variable_assignments") is None)
        st.oblige(f"{kind} exit: _assignments is None", st.getfield(w, "_assignments") is None)

    def replay(self, ctx, model, label):
        return replay_evaluator({"which": self.which})


def replay_evaluator(c):
    from unified_planning.shortcuts import Problem, Fluent, BoolType, UserType, Object
    from unified_planning.model.walkers import StateEvaluator, QuantifierSimplifier
    from unified_planning.model import UPState
    from unified_planning.exceptions import UPStateMissingFluentError
    p = Problem("p")
    f = Fluent("f", BoolType())
    g = Fluent("g", BoolType())
    p.add_fluent(f)                      # no default, no initial value: missing in the state
    p.add_fluent(g, default_initial_value=True)
    st = UPState({}, p)
    if c["which"] == "evaluate":
        se = StateEvaluator(p)
        try:
            se.evaluate(f(), st)
            return {"reproduced": False, "concrete": c, "observed": "no exception"}
        except UPStateMissingFluentError:
            pass
        try:
            r = se.evaluate(g(), st)
            ok = r.is_true()
            return {"reproduced": not ok, "concrete": c, "observed": f"later evaluate returned {r}"}
        except BaseException as ex:  # noqa
            return {"reproduced": True, "concrete": c, "observed": f"later evaluate raised {type(ex).__name__}: {ex}"}
    qsim = QuantifierSimplifier(p.environment, p)
    try:
        qsim.qsimplify(f().Equals(Object("o", UserType("T"))), {}, {})   # ill-typed: walk raises
        return {"reproduced": False, "concrete": c, "observed": "no exception"}
    except BaseException:  # noqa
        pass
    try:
        r = qsim.qsimplify(g(), {g(): p.environment.expression_manager.TRUE()}, {})
        return {"reproduced": False, "concrete": c, "observed": f"later qsimplify returned {r}"}
    except BaseException as ex:  # noqa
        return {"reproduced": True, "concrete": c, "observed": f"later qsimplify raised {type(ex).__name__}: {ex}"}


_replay_concrete_walk = replay_concrete


def replay_file(data):  # noqa: F811
    c = data["concrete"]
    if "one_shot" in c:
        return replay_one_shot(c)
    return replay_evaluator(c) if "which" in c else _replay_concrete_walk(c)


# ------------------------------------------------------------------------------------------ walkers whose handlers read per-call state
from contracts.harness import c14 as H14
import unified_planning.model.walkers.generic as _walker


T.Environment.fields.update({"expression_manager": T.Manager, "type_checker": Ref("TypeChecker14"), "free_vars_oracle": Ref("FreeVarsOracle14")})


from unified_planning.exceptions import UPTypeError as _UPTypeError14


class OneShot(Unit):
    """real constructor + any history + real entry method: when walk is entered nothing memoized by an earlier call is left (so no handler
    result computed with another call's substitution map / objects set / assignments / state can be returned)"""
    prop = "C14"
    allowed_raises = (WalkFailure, _UPTypeError14)

    def __init__(self, which):
        self.which = which
        self.name = {"eqr": "ExpressionQuantifiersRemover(env); <earlier calls>; remove_quantifiers", "sub": "Substituter(env); <earlier calls>; substitute",
                     "qs": "QuantifierSimplifier(env, problem); <earlier calls>; qsimplify", "ev": "StateEvaluator(problem); <earlier calls>; evaluate"}[which]
        self.doc = "after the real constructor and any earlier calls, the entry method enters walk with an empty memoization"

    def target(self):
        return {"eqr": H14.remove_quantifiers_later, "sub": H14.substitute_later, "qs": H14.qsimplify_later, "ev": H14.evaluate_later}[self.which]

    def configure(self, eng):
        eng.contracts[_walker.Walker.__init__] = lambda e, st, a, k: iter([(st, None)])       # builds the handler table: not memoization
        unit = self

        def earlier(e, st, a, k):
            w = a[0]
            flag = st.getfield(w, "invalidate_memoization")
            st.ghost["one_shot"] = flag is True
            if flag is not True:
                st.setfield(w, "memoization", st.alloc(e.fresh_of(st, Map(T.FNode, Res), "memoized_by_earlier_calls"), "dict"))
            # the per-call fields keep what the last earlier call stored in them (possibly the very objects of the later call)
            for fld, ty in {"eqr": {"_objects_set": Ref("ObjectsSet14")}, "ev": {"_state": StateT}}.get(unit.which, {}).items():
                st.setfield(w, fld, ty.fresh(fld + "_of_an_earlier_call"))
            yield st, None
        eng.contracts[H14.earlier_calls] = earlier

        def walk(e, st, a, k):
            w = a[0]
            memo = e.deref(st, st.getfield(w, "memoization"))
            if isinstance(memo, SMap):
                kk = T.FNode.fresh("k")
                empty = z3.ForAll([kk.z], z3.Not(z3.Select(memo.has, kk.z)))
            elif isinstance(memo, B.PendingEmpty) or (isinstance(memo, CDict) and not memo.items):
                empty = z3.BoolVal(True)
            else:
                empty = z3.BoolVal(False)
            st.oblige("walk is entered with nothing memoized by earlier calls (their per-call state differs)", empty)
            st.ghost["walk_entered"] = True
            s2 = st.fork()
            yield s2.note("walk:raise"), ExcVal(WalkFailure, (), "walk")
            r = T.FNode.fresh("r")
            C = T.OKT.consts
            if unit.which == "ev":       # the evaluator's handlers return constants (C01 / C11 fold obligations)
                st.assume(z3.Or([T.node_type(r.z) == C[k_] for k_ in (OK.BOOL_CONSTANT, OK.INT_CONSTANT, OK.REAL_CONSTANT, OK.OBJECT_EXP)]))
            yield st.note("walk:ok"), r
        eng.contracts[dag.DagWalker.walk] = walk
        if self.which == "sub":
            T.Manager.methods["auto_promote"] = lambda e, st, sv, a, k: iter([(st, st.alloc(CList(list(a)), "list"))])
            eng.loops[("unified_planning.model.walkers.substituter.Substituter.substitute", 0)] = LoopSpec(
                lambda L: [("-", z3.BoolVal(True))], modifies=["k", "v", "new_k", "new_v", "new_substitutions"],
                types={"new_substitutions": Map(T.FNode, T.FNode, ordered=True)})

    def setup(self, eng, st):
        env, e = T.Environment.fresh("environment"), T.FNode.fresh("expression")
        m = lambda nm: st.alloc(eng.fresh_of(st, Map(T.FNode, T.FNode, ordered=True), nm), "dict")   # noqa: E731
        if self.which == "eqr":
            return [env, e, Ref("ObjectsSet14").fresh("objects_set")], {}, {}
        if self.which == "sub":
            return [env, e, m("substitutions")], {}, {}
        if self.which == "qs":
            return [env, ProblemT.fresh("problem"), e, m("assignments"), m("variable_assignments")], {}, {}
        return [ProblemT.fresh("problem"), e, StateT.fresh("state")], {}, {}

    def post(self, eng, ctx, st, out):
        if st.ghost.get("walk_entered"):
            st.oblige("(the obligation is raised where walk is entered)", z3.BoolVal(True))
        elif out[0] == "return":
            st.oblige("a call that returns without a walk returns without consulting the memoization", z3.BoolVal(True))

    def replay(self, ctx, model, label):
        return replay_one_shot({"one_shot": self.which})


def replay_one_shot(c):
    """two calls on one walker whose per-call state differs, the second compared with the same call on a fresh walker"""
    from unified_planning.shortcuts import Problem, Fluent, BoolType, UserType, Object, Variable, Exists, TRUE, FALSE
    from unified_planning.model.walkers import ExpressionQuantifiersRemover, Substituter, QuantifierSimplifier, StateEvaluator
    from unified_planning.model import UPState
    which = c["one_shot"]
    T_ = UserType("T14")
    p = Problem("p14")
    r, q = Fluent("r", BoolType(), x=T_), Fluent("q", BoolType())
    p.add_fluent(r, default_initial_value=False)
    p.add_fluent(q, default_initial_value=False)
    o1, o2 = Object("o1", T_), Object("o2", T_)
    p.add_object(o1)
    v = Variable("v", T_)
    ex = Exists(r(v), v)
    env = p.environment
    if which == "eqr":
        w = ExpressionQuantifiersRemover(env)
        w.remove_quantifiers(ex, p)
        p.add_object(o2)
        got, want = w.remove_quantifiers(ex, p), ExpressionQuantifiersRemover(env).remove_quantifiers(ex, p)
    elif which == "sub":
        w = Substituter(env)
        w.substitute(q().And(r(o1)), {q(): TRUE()})
        got, want = w.substitute(q().And(r(o1)), {q(): FALSE()}), Substituter(env).substitute(q().And(r(o1)), {q(): FALSE()})
    elif which == "qs":
        w = QuantifierSimplifier(env, p)
        w.qsimplify(q().And(r(o1)), {q(): TRUE(), r(o1): TRUE()}, {})
        a2 = {q(): FALSE(), r(o1): TRUE()}
        got, want = w.qsimplify(q().And(r(o1)), a2, {}), QuantifierSimplifier(env, p).qsimplify(q().And(r(o1)), a2, {})
    else:
        w = StateEvaluator(p)
        s1, s2 = UPState({q(): TRUE(), r(o1): TRUE()}, p), UPState({q(): FALSE(), r(o1): TRUE()}, p)
        w.evaluate(q().And(r(o1)), s1)
        got, want = w.evaluate(q().And(r(o1)), s2), StateEvaluator(p).evaluate(q().And(r(o1)), s2)
    return {"reproduced": got is not want, "concrete": c, "observed": f"second call on the used walker: {got}; same call on a fresh walker: {want}"}


UNITS = [Walk(False), Walk(True), EvaluatorReset("evaluate"), EvaluatorReset("qsimplify")] + [OneShot(w) for w in ("eqr", "sub", "qs", "ev")]
# ------------------------------------------------------------------------------------------ bounded stand-in: call histories
def bounded(tier, seed):
    """Random interleavings of calls on ONE environment's shared walkers -- substitute (some maps make a division by zero or an ill-typed node appear
    mid-walk, also inside quantifier bodies), simplify, type inference, free variables, fluent names, quantifier removal (objects are added to the problem
    between calls) -- each call compared with the same call made on a FRESH environment (the expressions are rebuilt there from a recipe).  Labelled
    bounded: the proof above covers DagWalker.walk and the one-shot walkers' entry points; this layer covers per-walker state the units do not model."""
    import random
    import warnings
    from unified_planning.environment import Environment
    from unified_planning.shortcuts import (Problem, Fluent, BoolType, IntType, UserType, Object, Variable, Exists, Forall, And, Or, Not, Equals, LT, LE, Plus,
                                            Minus, Times, Div, Int)
    from unified_planning.model.walkers import ExpressionQuantifiersRemover
    n_hist, n_calls = (60, 8) if tier == "quick" else (1200, 12)
    rng = random.Random(seed * 7919 + 14)

    class World:
        def __init__(self):
            self.env = Environment()
            tm = self.env.type_manager
            self.T = tm.UserType("T")
            self.pr = Problem("w", self.env)
            self.objs = [Object(f"o{i}", self.T, self.env) for i in range(2)]
            self.pr.add_objects(self.objs)
            self.p = Fluent("p", tm.BoolType(), environment=self.env, x=self.T)
            self.q = Fluent("q", tm.BoolType(), environment=self.env)
            self.x = Fluent("x", tm.IntType(), environment=self.env)
            self.y = Fluent("y", tm.IntType(), environment=self.env)
            self.z = Fluent("z", tm.IntType(0, 10), environment=self.env)       # bounded: type inference computes with the bounds (division by a constant zero fails THERE)
            for f in (self.p, self.q, self.x, self.y, self.z):
                self.pr.add_fluent(f)
            self.v = Variable("v", self.T, self.env)
            self.u = Variable("u", self.T, self.env)
            self.eqr = ExpressionQuantifiersRemover(self.env)

        def build(self, r):
            em = self.env.expression_manager
            k = r[0]
            if k == "q":
                return em.FluentExp(self.q)
            if k == "p":
                return em.FluentExp(self.p, (self.build(r[1]),))
            if k == "x":
                return em.FluentExp(self.x)
            if k == "y":
                return em.FluentExp(self.y)
            if k == "z":
                return em.FluentExp(self.z)
            if k == "int":
                return em.Int(r[1])
            if k == "obj":
                return em.ObjectExp(self.objs[r[1] % len(self.objs)])
            if k == "var":
                return em.VariableExp(self.v if r[1] == 0 else self.u)
            args = [self.build(a) for a in r[1:]] if k not in ("exists", "forall") else None
            if k in ("exists", "forall"):
                body = self.build(r[2])
                return (em.Exists if k == "exists" else em.Forall)(body, self.v if r[1] == 0 else self.u)
            return {"and": em.And, "or": em.Or, "not": em.Not, "lt": em.LT, "le": em.LE, "eq": em.Equals, "plus": em.Plus, "minus": em.Minus, "times": em.Times,
                    "div": em.Div}[k](*args)

    def num(d):
        r = rng.random()
        if d <= 0 or r < 0.4:
            return rng.choice([("x",), ("y",), ("int", rng.randint(0, 6))])
        return (rng.choice(["plus", "minus", "times", "div"]), num(d - 1), num(d - 1))

    def term(scope):
        c = [("obj", 0), ("obj", 1)] + [("var", i) for i in scope]
        return rng.choice(c)

    def boolean(d, scope=()):
        r = rng.random()
        if d <= 0 or r < 0.3:
            return rng.choice([("q",), ("p", term(scope)), (rng.choice(["lt", "le"]), num(1), num(1))])
        if r < 0.5:
            return (rng.choice(["and", "or"]), boolean(d - 1, scope), boolean(d - 1, scope))
        if r < 0.6:
            return ("not", boolean(d - 1, scope))
        i = rng.randint(0, 1)
        return (rng.choice(["exists", "forall"]), i, boolean(d - 1, tuple(scope) + (i,)))

    def call(w, c):
        kind = c[0]
        if kind == "add_object":
            w.objs.append(Object(f"o{len(w.objs)}", w.T, w.env))
            w.pr.add_object(w.objs[-1])
            return "ok"
        e = w.build(c[1])
        if kind == "substitute":
            subs = {w.build(k_): w.build(v_) for k_, v_ in c[2]}
            return str(e.substitute(subs))
        if kind == "simplify":
            return str(e.simplify())
        if kind == "type":
            return str(w.env.type_checker.get_type(e))
        if kind == "free":
            return str(sorted(x_.name for x_ in w.env.free_vars_oracle.get_free_variables(e)))
        if kind == "names":
            return str(sorted(w.env.free_vars_extractor.get(e), key=str)) if hasattr(w.env, "free_vars_extractor") else str(e)
        if kind == "add_object":
            w.objs.append(Object(f"o{len(w.objs)}", w.T, w.env))
            w.pr.add_object(w.objs[-1])
            return "ok"
        if kind == "unquantify":
            return str(w.eqr.remove_quantifiers(e, w.pr))
        raise AssertionError(kind)

    failures, evals, nontrivial = [], 0, set()
    with warnings.catch_warnings():
        warnings.simplefilter("ignore")
        # directed histories (no random stream): the SAME failing call repeated -- a substitution that makes a division by the constant zero appear under a
        # bounded numerator (type inference of the new node raises, not a UPTypeError), at depth 0, 1 and 2, with successful calls in between
        zy = ("div", ("z",), ("y",))
        fail0 = ("substitute", ("lt", zy, ("int", 3)), [(("y",), ("int", 0))])
        fail1 = ("substitute", ("and", ("q",), ("lt", ("plus", zy, ("int", 1)), ("int", 3))), [(("y",), ("int", 0))])
        fail2 = ("substitute", ("exists", 0, ("or", ("p", ("var", 0)), ("le", ("int", 2), ("times", ("int", 2), zy)))), [(("y",), ("int", 0))])
        okc = ("substitute", ("lt", zy, ("int", 3)), [(("y",), ("int", 2))])
        directed = [[f_] * 5 for f_ in (fail0, fail1, fail2)] + [[fail0, okc, ("type", ("lt", zy, ("int", 3))), fail0, ("simplify", ("lt", zy, ("int", 3))), fail0, fail1, fail1, fail1],
                                                              [fail2, ("add_object",), fail2, okc, fail2, fail2, fail2]]
        for h in range(-len(directed), n_hist):
            calls = list(directed[h + len(directed)]) if h < 0 else []
            for _ in range(n_calls if h >= 0 else 0):
                kind = rng.choice(["substitute", "substitute", "substitute", "simplify", "type", "free", "unquantify", "add_object"])
                e = boolean(3)
                if kind == "substitute" and rng.random() < 0.5:
                    # a quantified expression whose body divides by a fluent: a map sending that fluent to 0 fails INSIDE the quantifier body,
                    # another map succeeds -- the shape in which state left behind by a failed call meets a later call
                    i_ = rng.randint(0, 1)
                    e = (rng.choice(["exists", "forall"]), i_, (rng.choice(["and", "or"]), boolean(1, (i_,)),
                                                                 (rng.choice(["lt", "le"]), ("int", rng.randint(0, 6)), ("div", ("int", rng.randint(1, 6)), rng.choice([("x",), ("y",)])))))
                if kind == "substitute":
                    pairs = []
                    for _k in range(rng.randint(1, 2)):
                        key = rng.choice([("x",), ("y",), ("q",), ("p", ("obj", rng.randint(0, 1)))])
                        if key[0] in ("x", "y"):
                            val = rng.choice([("int", 0), ("int", rng.randint(1, 5)), ("y",) if key[0] == "x" else ("x",), ("q",)])      # 0 -> division by zero; q -> ill-typed
                        else:
                            val = rng.choice([("q",), ("not", ("q",)), ("p", ("obj", 1)), ("int", 3)])
                        pairs.append((key, val))
                    calls.append((kind, e, pairs))
                else:
                    calls.append((kind, e))
            shared = World()
            for i, c in enumerate(calls):
                def run(w):
                    try:
                        return ("ok", call(w, c))
                    except Exception as ex:  # noqa
                        return ("raise", type(ex).__name__)
                got = run(shared)
                fresh = World()
                for c2 in calls[:i]:
                    if c2[0] == "add_object":          # the arguments of the call (the problem's objects) are part of the call
                        call(fresh, c2)
                want = run(fresh)
                evals += 1
                if got[0] == "raise":
                    nontrivial.add((h, i))
                if got != want:
                    failures.append({"what": f"call {i} ({c[0]}) after a history of {i} calls ({sum(1 for c_ in calls[:i] if c_[0] != 'add_object')} walker calls, "
                                             f"some failing) differs from the same call on a fresh environment [{c[0]}]",
                                     "concrete": {"history": [str(c_)[:160] for c_ in calls[:i + 1]]}, "observed": {"shared": got, "fresh": want}})
                    break
            if len(failures) >= 4:
                break
    return {"evaluations": evals, "distinct_nontrivial": len(nontrivial), "failures": failures,
            "rule": f"{n_hist} histories of {n_calls} calls on one environment (substitute incl. failing maps and quantified expressions, simplify, type inference, free "
                    f"variables, quantifier removal with objects added in between), each call compared with the same call on a fresh environment; non-trivial = a call that raises"}


LEVEL = "other"
EXPLANATION = __doc__
TRUSTED = T.TRUSTED + ["handlers do not touch the walker's stack/memoization and return the fold value when given the "
                       "fold values of the children (determinism); any handler may raise",
                       "no keyword arguments (walkers overriding _get_key are separate units)"]

"""C09 — see DESIGN.md section 7 (C09).  Bounded layer over the shared compiler harness rtc/compcheck.py:
C06 every valid plan of the compiled problem maps back to a valid plan of the original (reference semantics);
C07 every valid original plan (<= k) has a compiled counterpart (<= k, +1 where a goal action is added);
C08 compile succeeds inside the supported kind, the result is well-formed (unique names, declared references,
    plan back-conversion available);
C09 the compiled problem's kind is contained in the declared resulting kind (also along pipelines).
"""
import z3
from rtc import compcheck
from pyvc.values import NoneT, Ref, Seq, Map, Opt, Str, SBool, SRef, SUnion, SSeq, SMap, Rec, CList, Loc, ExcVal, fresh_name, zbool, zint, Unsupported
from pyvc.verify import Unit
from pyvc.engine import LoopSpec
from pyvc import builtins as B

USES_THEORY = False


def factory_pipelines(tier, seed):
    """the real Factory.Compiler(problem_kind=K, compilation_kinds=[...]) on random kinds and sequences of 1-4 compilation kinds, against an
    independent recomputation of the chain: stage j must be the first registered compiler (preference order) that supports the compilation
    kind and the kind DECLARED for stage j (K_0 = K, K_(j+1) = stage j's resulting_problem_kind(K_j)); the factory refuses exactly when
    some stage has no such compiler; every stage's default is its compilation kind"""
    import random
    import warnings
    from unified_planning.environment import get_environment
    from unified_planning.engines import CompilationKind
    from unified_planning.model import ProblemKind
    from unified_planning.model.problem_kind import FEATURES
    from unified_planning.exceptions import UPNoSuitableEngineAvailableException
    env = get_environment()
    fac = env.factory
    saved_stream = env.credits_stream
    env.credits_stream = None
    rng = random.Random(seed + 909)
    n = 250 if tier == "quick" else 4000
    classes = [(nm, fac.engine(nm)) for nm in fac.preference_list]
    classes = [(nm, c) for nm, c in classes if c.is_compiler()]
    cks_all = [ck for ck in CompilationKind if any(c.supports_compilation(ck) for _, c in classes)]
    allf = sorted(f for fs in FEATURES.values() for f in fs)
    bases = [c.supported_kind() for _, c in classes]
    failures, evals, nontrivial = [], 0, 0
    try:
        for it in range(n):
            base = rng.choice(bases)
            feats = [f for f in sorted(base.features) if rng.random() < rng.choice([0.15, 0.5, 0.9])]
            if rng.random() < 0.2:
                feats += rng.sample(allf, 1)
            try:
                K = ProblemKind(set(feats), version=base.version)
            except Exception:  # noqa
                continue
            # assumption of the unit CompilersPipeline.compile: resulting_problem_kind is monotone in the kind
            K2 = ProblemKind(set(feats) | set(rng.sample(allf, rng.randint(1, 4))), version=base.version)
            for _, c in classes:
                for ck in cks_all:
                    if not c.supports_compilation(ck):
                        continue
                    try:
                        r1, r2 = c.resulting_problem_kind(K, ck), c.resulting_problem_kind(K2, ck)
                    except Exception:  # noqa
                        continue
                    evals += 1
                    if not (r1 <= r2):
                        failures.append({"what": f"{c.__name__}.resulting_problem_kind is not monotone in the problem kind [{ck.name}]",
                                         "concrete": {"kind": sorted(K.features), "larger_kind": sorted(K2.features)},
                                         "observed": sorted(set(r1.features) - set(r2.features))})
            # the request: mostly compilation kinds some registered compiler can take at that point of the (recomputed) chain, so that
            # long pipelines are actually selected; sometimes an arbitrary one, so that refusals are exercised too
            cks, k = [], K
            for _ in range(rng.randint(1, 4)):
                okc = [ck for ck in cks_all if any(c.supports_compilation(ck) and c.supports(k) for _, c in classes)]
                ck = rng.choice(okc) if okc and rng.random() < 0.85 else rng.choice(cks_all)
                cks.append(ck)
                nxt = [c for _, c in classes if c.supports_compilation(ck) and c.supports(k)]
                if nxt:
                    try:
                        k = nxt[0].resulting_problem_kind(k, ck)
                    except Exception:  # noqa
                        break
            # reference chain
            ref, kinds, k = [], [K], K
            for ck in cks:
                cand = [c for _, c in classes if c.supports_compilation(ck) and c.supports(k)]
                if not cand:
                    ref = None
                    break
                ref.append(cand[0])
                try:
                    k = cand[0].resulting_problem_kind(k, ck)
                except Exception as e:  # noqa
                    ref = ("raises", type(e).__name__)
                    break
                kinds.append(k)
            evals += 1
            desc = {"problem_kind": sorted(K.features), "compilation_kinds": [c.name for c in cks]}
            with warnings.catch_warnings():
                warnings.simplefilter("ignore")
                try:
                    pipe = fac.Compiler(problem_kind=K, compilation_kinds=cks)
                    got = list(pipe._compilers)
                except UPNoSuitableEngineAvailableException:
                    got = None
                except Exception as e:  # noqa
                    got = ("raises", type(e).__name__)
            if isinstance(ref, tuple) or isinstance(got, tuple):
                if ref != got and not (isinstance(ref, tuple) and got is None):
                    failures.append({"what": f"factory pipeline: Factory.Compiler {got}, recomputed chain {ref if not isinstance(ref, list) else 'selects a pipeline'}",
                                     "concrete": desc, "observed": str(got)})
                continue
            if (ref is None) != (got is None):
                failures.append({"what": "factory pipeline: " + ("the factory hands out a pipeline although some stage has no compiler supporting the kind declared for it"
                                                                 if ref is None else "the factory refuses a pipeline every stage of which has a compiler supporting the kind declared for it"),
                                 "concrete": desc, "observed": "refused" if got is None else [type(c).__name__ for c in got]})
                continue
            if ref is None:
                continue
            nontrivial += len(cks) > 2
            for j, (c, r, ck) in enumerate(zip(got, ref, cks)):
                if type(c) is not r or not r.supports(kinds[j]) or c.default != ck:
                    failures.append({"what": f"factory pipeline: stage {j} is {type(c).__name__} (default {c.default}); the kind declared for it needs {r.__name__} with default {ck}",
                                     "concrete": desc, "observed": [type(x).__name__ for x in got]})
                    break
            if len(failures) >= 4:
                break
    finally:
        env.credits_stream = saved_stream
    return {"evaluations": evals, "pipelines_of_3_or_more_stages_selected": nontrivial, "failures": failures,
            "rule": f"{n} random (kind, 1-4 compilation kinds) requests to the real Factory.Compiler against an independent recomputation of the declared-kind chain"}


def bounded(tier, seed):
    r = compcheck.run(tier, seed, ["C09"])["C09"]
    fp = factory_pipelines(tier, seed)
    r["evaluations"] = r.get("evaluations", 0) + fp["evaluations"]
    r["failures"] = list(r.get("failures", [])) + fp["failures"]
    r["rule"] = r.get("rule", "") + "; " + fp["rule"] + f" ({fp['pipelines_of_3_or_more_stages_selected']} selected pipelines of >= 3 stages)"
    return r


# =========================================================================================== P: the factory's pipeline selection
# "Therefore a compiler pipeline selected by the factory from a problem kind accepts each intermediate problem it produces":
# the factory picks stage i for the kind K_i it *declares* (K_0 = the given kind, K_{i+1} = stage i's resulting_problem_kind(K_i)).
import unified_planning as up
import unified_planning.engines.factory as _fa
from unified_planning.engines.mixins.compiler import CompilerMixin as _CM
from unified_planning.engines.engine import OperationMode as _OM
from unified_planning.exceptions import UPNoSuitableEngineAvailableException as _NoEngine

EC, PK, CK, ENG = Ref("EngineClass09"), Ref("ProblemKind09"), Ref("CompilationKind09"), Ref("CompilerInstance09")
_E, _K, _C = EC.z3sort(), PK.z3sort(), CK.z3sort()
ISC = z3.Function("is_compiler", _E, z3.BoolSort())
SUPC = z3.Function("supports_compilation", _E, _C, z3.BoolSort())
SUP = z3.Function("supports", _E, _K, z3.BoolSort())
RPK = z3.Function("resulting_problem_kind", _E, _K, _C, _K)
EC.methods["is_compiler"] = lambda e, st, sv, a, k: iter([(st, SBool(ISC(sv.z)))])
EC.methods["supports_compilation"] = lambda e, st, sv, a, k: iter([(st, SBool(SUPC(sv.z, a[0].z)))])
EC.methods["supports"] = lambda e, st, sv, a, k: iter([(st, SBool(SUP(sv.z, a[0].z)))])
EC.methods["resulting_problem_kind"] = lambda e, st, sv, a, k: iter([(st, PK.wrap(RPK(sv.z, a[0].z, a[1].z)))])


def _issubclass(eng, st, args, kw):
    # every engine class answering is_compiler() with True derives from CompilerMixin (is_compiler is overridden only there): assumed
    c, base = args
    if isinstance(c, SRef) and c.t is EC and base is _CM:
        yield st, SBool(ISC(c.z))
        return
    raise Unsupported("issubclass outside the contract's model")


def SAT(e, k, c_none, c):
    return z3.And(ISC(e), z3.Or(c_none, SUPC(e, c)), SUP(e, k))


class EngineSatisfiesConditions(Unit):
    prop = "C09"
    name = "Factory._engine_satisfies_conditions[COMPILER]"
    doc = "True exactly for a compiler class that supports the compilation kind (when one is asked for) and the problem kind"

    def target(self):
        return _fa.Factory._engine_satisfies_conditions

    def configure(self, eng):
        eng.contracts[issubclass] = _issubclass

    def setup(self, eng, st):
        e, k, c = EC.fresh("EngineClass"), PK.fresh("problem_kind"), CK.fresh("compilation_kind")
        cn = z3.Bool(fresh_name("compilation_kind.isnone"))
        fac = st.alloc(Rec(_fa.Factory, {}), "factory")
        return [fac, e, _OM.COMPILER, k, None, SUnion([(cn, None), (z3.Not(cn), c)]), None, None], {}, dict(e=e, k=k, c=c, cn=cn)

    def post(self, eng, ctx, st, out):
        if out[0] != "return":
            return
        r = eng.as_bool_value(st, out[1])
        st.oblige("accepted iff it is a compiler supporting the compilation kind and the problem kind",
                  zbool(r) == SAT(ctx["e"].z, ctx["k"].z, ctx["cn"], ctx["c"].z))


QN_GEC = "unified_planning.engines.factory.Factory._get_engine_class"
SATF = z3.Function("_engine_satisfies_conditions.result", _E, _K, _C, z3.BoolSort())
PK.fields["features"] = Seq(Str)
PK.fields["version"] = Ref("KindVersion09")


class GetEngineClass(Unit):
    prop = "C09"
    name = "Factory._get_engine_class[COMPILER, by kind]"
    doc = ("for any preference list: the class returned is registered, satisfies _engine_satisfies_conditions for the given problem kind and "
           "compilation kind, and no class earlier in the preference order does; UPNoSuitableEngineAvailableException exactly when none does")
    allowed_raises = (_NoEngine,)

    def target(self):
        return _fa.Factory._get_engine_class

    def configure(self, eng):
        eng.contracts[issubclass] = _issubclass
        eng.contracts[_fa.Factory._engine_satisfies_conditions] = \
            lambda e, st, a, k: iter([(st, SBool(SATF(a[1].z, a[3].z, a[5].z)))])
        eng.contracts[_fa.ProblemKind] = lambda e, st, a, k: iter([(st, PK.fresh("single_feature_kind"))])
        eng.contracts[str] = lambda e, st, a, k: iter([(st, Str.fresh("text"))])
        eng.contracts[_fa.format_table] = lambda e, st, a, k: iter([(st, Str.fresh("table"))])

        def inv(L):
            i = zint(L._i)
            pref, engines, k, c = self._pref, self._engines, self._k, self._c
            j = z3.Int(fresh_name("j"))
            return [("no class earlier in the preference order satisfies the conditions",
                     z3.ForAll([j], z3.Implies(z3.And(0 <= j, j < i), z3.Not(SATF(z3.Select(engines.val, pref.at(B.SInt(j)).z), k.z, c.z)))))]
        eng.loops[(QN_GEC, 0)] = LoopSpec(inv, modifies=["name", "EngineClass", "x", "pk_v", "planners_features"],
                                          types={"name": Str, "EngineClass": EC}, opaque=["x", "pk_v", "planners_features"])

    def setup(self, eng, st):
        k, c = PK.fresh("problem_kind"), CK.fresh("compilation_kind")
        pref = eng.fresh_of(st, Seq(Str), "preference_list")
        engines = eng.fresh_of(st, Map(Str, EC), "engines")
        j = z3.Int(fresh_name("j"))
        st.assume(z3.ForAll([j], z3.Implies(z3.And(0 <= j, j < pref.n), z3.Select(engines.has, pref.at(B.SInt(j)).z))))   # Factory invariant
        self._pref, self._engines, self._k, self._c = pref, engines, k, c
        fac = st.alloc(Rec(_fa.Factory, {"_engines": st.alloc(engines, "dict"), "_preference_list": st.alloc(pref, "list")}), "factory")
        return [fac, _OM.COMPILER, None, k], {"compilation_kind": c}, dict(k=k, c=c, pref=pref, engines=engines)

    def post(self, eng, ctx, st, out):
        pref, engines, k, c = ctx["pref"], ctx["engines"], ctx["k"], ctx["c"]
        j = z3.Int(fresh_name("j"))
        sat_at = lambda jj: SATF(z3.Select(engines.val, pref.at(B.SInt(jj)).z), k.z, c.z)
        if out[0] == "raise":
            st.oblige("no suitable engine only when no class of the preference list satisfies the conditions",
                      z3.ForAll([j], z3.Implies(z3.And(0 <= j, j < pref.n), z3.Not(sat_at(j)))))
            return
        r = out[1]
        if not (isinstance(r, SRef) and r.t is EC):
            st.oblige("an engine class is returned", z3.BoolVal(False))
            return
        st.oblige("the class returned satisfies the conditions for this problem kind and compilation kind", SATF(r.z, k.z, c.z))
        st.oblige("it is the first such class in the preference order",
                  z3.Exists([j], z3.And(0 <= j, j < pref.n, z3.Select(engines.val, pref.at(B.SInt(j)).z) == r.z, sat_at(j),
                                        z3.ForAll([j2 := z3.Int(fresh_name("j2"))], z3.Implies(z3.And(0 <= j2, j2 < j), z3.Not(sat_at(j2)))))))


QN_GE = "unified_planning.engines.factory.Factory._get_engine"
CK.null = z3.Const("CompilationKind09.None", _C)
ENG.pycls = _CM
ENG.mutable["_default"] = CK
PM = Ref("EngineParams09")
PM.as_kwargs = True
PIPE = Ref("CompilersPipeline09")
CLS = z3.Function("class_of", ENG.z3sort(), _E)
ALLOC = z3.Function("allocation_time", ENG.z3sort(), z3.IntSort())


def chain_facts(eng, st, fac, comps, kinds, cks, pk0, upto):
    """the pipeline built so far: stage j was chosen for the declared kind K_j, K_0 is the given kind, K_(j+1) is stage j's declared result"""
    j = z3.Int(fresh_name("j"))
    dflt = eng.heap_field(st, ENG, "_default")
    cj, kj, ckj = comps.at(B.SInt(j)).z, kinds.at(B.SInt(j)).z, cks.at(B.SInt(j)).z
    return [("stage j is a compiler that supports the kind declared for it and the compilation kind asked of it",
             z3.ForAll([j], z3.Implies(z3.And(0 <= j, j < upto), SAT(CLS(cj), kj, z3.BoolVal(False), ckj)))),
            ("the kind declared for stage 0 is the given kind; for stage j+1 it is stage j's resulting_problem_kind",
             z3.And(z3.Implies(upto > 0, kinds.at(0).z == pk0.z),
                    z3.ForAll([j], z3.Implies(z3.And(0 <= j, j + 1 < upto),
                                              kinds.at(B.SInt(j + 1)).z == RPK(CLS(cj), kj, ckj))))),
            ("stage j's default compilation kind is the one asked of it",
             z3.ForAll([j], z3.Implies(z3.And(0 <= j, j < upto), z3.Select(dflt, cj) == ckj)))]


class GetEnginePipeline(Unit):
    prop = "C09"
    name = "Factory._get_engine[COMPILER pipeline by kind]"
    doc = ("for any number of compilation kinds: stage j is selected (by _get_engine_class's contract) for the kind DECLARED for it, where the "
           "declared kind of stage 0 is the given problem kind and that of stage j+1 is stage j's resulting_problem_kind of stage j's declared kind; "
           "each stage's default is its compilation kind; the pipeline holds exactly these stages in order")
    allowed_raises = (_NoEngine,)

    def target(self):
        return _fa.Factory._get_engine

    def configure(self, eng):
        eng.contracts[issubclass] = _issubclass
        unit = self

        def get_class(e, st, a, k):
            # contract = the two units above composed: the class returned satisfies the conditions, or no suitable engine
            name = a[2] if len(a) > 2 else k.get("name")
            if name is not None:
                raise Unsupported("selection by name is outside this unit")
            pk = a[3] if len(a) > 3 else k["problem_kind"]
            ck = k["compilation_kind"]
            s2 = st.fork()
            yield s2.note("no-engine"), ExcVal(_NoEngine, (), "_get_engine_class")
            c = EC.fresh("EngineClass")
            st.assume(SAT(c.z, pk.z, z3.BoolVal(False), ck.z))
            yield st, c
        eng.contracts[_fa.Factory._get_engine_class] = get_class
        eng.contracts[_fa.Factory._print_credits] = lambda e, st, a, k: iter([(st, None)])

        def rpk(e, st, sv, a, k):
            g = st.getfield(unit._fac, "_g_kinds")
            st.setfield(unit._fac, "_g_kinds", st.alloc(e.deref(st, g).append(a[0]), "list"))
            yield st, PK.wrap(RPK(sv.z, a[0].z, a[1].z))
        EC.methods["resulting_problem_kind"] = rpk
        EC.methods["get_credits"] = lambda e, st, sv, a, k: iter([(st, Ref("Credits09").fresh("credits"))])

        def construct(e, st, sv, a, k):
            inst = ENG.fresh("compiler")
            cnt = st.getfield(unit._fac, "_g_alloc")
            st.assume(CLS(inst.z) == sv.z, ALLOC(inst.z) == zint(cnt))
            st.setfield(unit._fac, "_g_alloc", B.SInt(z3.simplify(zint(cnt) + 1)))
            yield st, inst
        EC.methods["__call__"] = construct

        def pipe(e, st, a, k):
            st.ghost["pipeline_of"] = e.deref(st, a[0])
            yield st, PIPE.fresh("pipeline")
        eng.contracts[_fa.CompilersPipeline] = pipe

        def inv(L):
            i = zint(L._i)
            comps, kinds = L.seq("compilers", ENG), B.as_sseq(L._eng, L.st, L.field(unit._fac, "_g_kinds"), PK)
            cnt = zint(L.field(unit._fac, "_g_alloc"))
            j = z3.Int(fresh_name("j"))
            cks, pk0 = unit._cks, unit._pk0
            cur = L.problem_kind.z
            return [("one stage and one declared kind per compilation kind handled so far", z3.And(comps.n == i, kinds.n == i)),
                    ("the current kind is the one declared for the next stage",
                     cur == z3.If(i == 0, pk0.z, RPK(CLS(comps.at(B.SInt(i - 1)).z), kinds.at(B.SInt(i - 1)).z, cks.at(B.SInt(i - 1)).z))),
                    ("the stages are distinct objects", z3.ForAll([j], z3.Implies(z3.And(0 <= j, j < i), ALLOC(comps.at(B.SInt(j)).z) < cnt)))] + \
                chain_facts(L._eng, L.st, unit._fac, comps, kinds, cks, pk0, i)
        eng.loops[(QN_GE, 1)] = LoopSpec(inv, modifies=["name", "param", "compilation_kind", "EngineClass", "problem_kind", "compiler", "compilers", "all_credits",
                                                         "self._g_kinds", "self._g_alloc", "heap:CompilerInstance09._default"],
                                         types={"name": NoneT, "param": PM, "compilation_kind": CK, "EngineClass": EC, "problem_kind": PK, "compiler": ENG,
                                                "compilers": Seq(ENG), "self._g_kinds": Seq(PK), "self._g_alloc": B.Int},
                                         opaque=["all_credits"])

    def setup(self, eng, st):
        pk0 = PK.fresh("problem_kind")
        cks = eng.fresh_of(st, Seq(CK), "compilation_kinds")
        params = eng.fresh_of(st, Seq(PM), "params")
        j = z3.Int(fresh_name("j"))
        st.assume(params.n == cks.n, z3.ForAll([j], z3.Implies(z3.And(0 <= j, j < cks.n), cks.at(B.SInt(j)).z != CK.null)))
        fac = st.alloc(Rec(_fa.Factory, {"_g_kinds": st.alloc(CList([]), "list"), "_g_alloc": 0}), "factory")
        self._fac, self._cks, self._pk0 = fac, cks, pk0
        return [fac, _OM.COMPILER], {"problem_kind": pk0, "compilation_kinds": st.alloc(cks, "list"), "params": st.alloc(params, "list")}, dict(cks=cks, pk0=pk0, fac=fac)

    def post(self, eng, ctx, st, out):
        if out[0] != "return":
            return
        r = out[1]
        comps = st.ghost.get("pipeline_of")
        if not (isinstance(r, SRef) and r.t is PIPE and comps is not None):
            st.oblige("a compilers pipeline is returned", z3.BoolVal(False))
            return
        comps = B.as_sseq(eng, st, comps, ENG)
        kinds = B.as_sseq(eng, st, eng.deref(st, st.getfield(ctx["fac"], "_g_kinds")), PK)
        cks = ctx["cks"]
        st.oblige("one stage per compilation kind", z3.And(comps.n == cks.n, kinds.n == cks.n))
        for nm, f in chain_facts(eng, st, ctx["fac"], comps, kinds, cks, ctx["pk0"], cks.n):
            st.oblige(nm, f)


# ------------------------------------------------------------------------------------------- the pipeline run on a problem
import unified_planning.engines.compilers.compilers_pipeline as _cp
from unified_planning.exceptions import UPUsageError as _Usage
PROB, RES, MB, PBC, FN = Ref("Problem09"), Ref("CompilerResult09"), Ref("MapBack09"), Ref("PlanBackConversion09"), Ref("Callable09")
for _t in (PROB, RES, MB, PBC):
    _t.null = z3.Const(_t.name + ".None", _t.z3sort())
PROB.fields["kind"] = PK
RES.fields.update({"problem": PROB, "map_back_action_instance": MB, "plan_back_conversion": PBC})
ENG.fields["name"] = Str
SUBKIND = z3.Function("kind<=", _K, _K, z3.BoolSort())
QN_PC = "unified_planning.engines.compilers.compilers_pipeline.CompilersPipeline.compile"


def kind_axioms():
    a, b, c = z3.Consts("k1!09 k2!09 k3!09", _K)
    e, ck = z3.Const("e!09", _E), z3.Const("c!09", _C)
    return [z3.ForAll([a], SUBKIND(a, a)),
            z3.ForAll([a, b, c], z3.Implies(z3.And(SUBKIND(a, b), SUBKIND(b, c)), SUBKIND(a, c))),
            # Engine.supports(kind) is `kind <= supported_kind()` in every compiler of the library: downward closed
            z3.ForAll([e, a, b], z3.Implies(z3.And(SUP(e, b), SUBKIND(a, b)), SUP(e, a))),
            # resulting_problem_kind is monotone in the kind (checked on generated kinds by the bounded layer)
            z3.ForAll([e, ck, a, b], z3.Implies(SUBKIND(a, b), SUBKIND(RPK(e, a, ck), RPK(e, b, ck))))]


class PipelineCompile(Unit):
    prop = "C09"
    name = "CompilersPipeline.compile"
    doc = ("for a pipeline as the factory builds it (previous unit) run on a problem of the kind it was selected for: ASSUMING every stage keeps the "
           "first sentence of C09 (kind of its result <= its declared resulting kind: bounded layer), no stage is ever handed a problem it does not "
           "support -- the pipeline never raises 'cannot handle this kind of problem' -- for any number of stages; the result carries a way back "
           "(action map when every stage has one, otherwise the composed plan conversions)")
    allowed_raises = ()

    def target(self):
        return _cp.CompilersPipeline.compile

    def configure(self, eng):
        eng.axioms += kind_axioms()
        unit = self
        ENG.methods["supports"] = lambda e, st, sv, a, k: iter([(st, SBool(SUP(CLS(sv.z), a[0].z)))])

        def compile_(e, st, sv, a, k):
            p = a[0]
            kind = B._uf("Problem09.kind", PROB.z3sort(), _K)
            st.oblige("a stage is only asked to compile a problem of a kind it supports", SUP(CLS(sv.z), kind(p.z)))
            r = RES.fresh("res")
            rp = B._uf("CompilerResult09.problem", RES.z3sort(), PROB.z3sort())(r.z)
            rpbc = B._uf("CompilerResult09.plan_back_conversion", RES.z3sort(), PBC.z3sort())(r.z)
            dflt = z3.Select(e.heap_field(st, ENG, "_default"), sv.z)
            st.assume(r.z != RES.null,
                      z3.Implies(rp != PROB.null, z3.And(SUBKIND(kind(rp), RPK(CLS(sv.z), kind(p.z), dflt)),     # C09, first sentence (assumed here)
                                                         rpbc != PBC.null)))                                       # CompilerResult invariant (C08 unit)
            yield st, r
        ENG.methods["compile"] = compile_
        eng.contracts[_cp.CompilersPipeline.name.fget] = lambda e, st, a, k: iter([(st, Str.fresh("pipeline_name"))])

        def result(e, st, a, k):
            st.ghost["result_args"] = (a[0], a[1], k.get("plan_back_conversion"))
            yield st, RES.fresh("pipeline_result")
        eng.contracts[_cp.CompilerResult] = result
        eng.contracts[_cp.partial] = lambda e, st, a, k: iter([(st, FN.fresh("composed"))])

        def inv(L):
            i = zint(L._i)
            kinds, n = unit._kinds, unit._comps.n
            kind = B._uf("Problem09.kind", PROB.z3sort(), _K)
            mbs, pbcs = L.seq("map_back_functions", MB), L.seq("plan_back_conversions", PBC)
            j = z3.Int(fresh_name("j"))
            newp = L.new_problem
            return [("the problem handed to the next stage is of a kind within the kind declared for that stage",
                     z3.And(newp.z != PROB.null, z3.Implies(i < n, SUBKIND(kind(newp.z), kinds.at(B.SInt(i)).z)))),
                    ("one way back per stage so far", z3.And(mbs.n == i, pbcs.n == i)),
                    ("every stage so far can convert plans back", z3.ForAll([j], z3.Implies(z3.And(0 <= j, j < i), pbcs.at(B.SInt(j)).z != PBC.null)))]
        eng.loops[(QN_PC, 0)] = LoopSpec(inv, modifies=["engine", "res", "new_problem", "map_back_functions", "plan_back_conversions"],
                                         types={"engine": ENG, "res": RES, "new_problem": PROB, "map_back_functions": Seq(MB), "plan_back_conversions": Seq(PBC)})

    def setup(self, eng, st):
        comps = eng.fresh_of(st, Seq(ENG), "compilers")
        kinds = eng.fresh_of(st, Seq(PK), "declared_kinds")
        cks = eng.fresh_of(st, Seq(CK), "compilation_kinds")
        p = PROB.fresh("problem")
        kind = B._uf("Problem09.kind", PROB.z3sort(), _K)
        pk0 = PK.wrap(kind(p.z))
        st.assume(p.z != PROB.null, kinds.n == comps.n, cks.n == comps.n)
        fac = st.alloc(Rec(_fa.Factory, {}), "factory")
        for nm, f in chain_facts(eng, st, fac, comps, kinds, cks, pk0, comps.n):     # what Factory._get_engine guarantees (previous unit)
            st.assume(f)
        self._comps, self._kinds = comps, kinds
        w = st.alloc(Rec(_cp.CompilersPipeline, {"_compilers": st.alloc(comps, "list")}), "pipeline")
        return [w, p], {}, dict(p=p)

    def post(self, eng, ctx, st, out):
        if out[0] != "return":
            return
        ra = st.ghost.get("result_args")
        if ra is None:
            st.oblige("a CompilerResult is built", z3.BoolVal(False))
            return
        prob, mb, pbc = ra
        if prob is None:
            st.oblige("a result without a problem carries no way back", z3.BoolVal(mb is None and pbc is None))
            return
        st.oblige("a result with a problem carries exactly one way back (action map or plan conversion)", z3.BoolVal((mb is None) != (pbc is None)))


UNITS = [EngineSatisfiesConditions(), GetEngineClass(), GetEnginePipeline(), PipelineCompile()]
LEVEL = "other"
EXPLANATION = __doc__
TRUSTED = ["engine classes are opaque: is_compiler / supports / supports_compilation / resulting_problem_kind are pure class functions",
           "is_compiler() implies inheritance from CompilerMixin (validated on the real registry in the bounded layer of C32)",
           "every name in the preference list is registered (Factory constructor / add_engine)",
           "CompilersPipeline.compile unit ASSUMES per stage: kind(result) <= resulting_problem_kind(kind(input)) (first sentence of C09: bounded layer only), "
           "supports is downward closed, resulting_problem_kind is monotone (bounded layer)",
           "the error-report locals of _get_engine_class (planners_features, x) are abstracted as opaque"]

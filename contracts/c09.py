"""C09 — see DESIGN.md section 7 (C09).  Bounded layer over the shared compiler harness rtc/compcheck.py:
C06 every valid plan of the compiled problem maps back to a valid plan of the original (reference semantics);
C07 every valid original plan (<= k) has a compiled counterpart (<= k, +1 where a goal action is added);
C08 compile succeeds inside the supported kind, the result is well-formed (unique names, declared references,
    plan back-conversion available);
C09 the compiled problem's kind is contained in the declared resulting kind (also along pipelines).
"""
import z3
from rtc import compcheck
from pyvc.values import Ref, Seq, Map, Opt, Str, SBool, SRef, SUnion, SSeq, SMap, Rec, CList, Loc, ExcVal, fresh_name, zbool, zint, Unsupported
from pyvc.verify import Unit
from pyvc.engine import LoopSpec
from pyvc import builtins as B

USES_THEORY = False


def bounded(tier, seed):
    return compcheck.run(tier, seed, ["C09"])["C09"]


# =========================================================================================== P: the factory's pipeline selection
# "Therefore a compiler pipeline selected by the factory from a problem kind accepts each intermediate problem it produces":
# the factory picks stage i for the kind K_i it *declares* (K_0 = the given kind, K_{i+1} = stage i's resulting_problem_kind(K_i)).
import unified_planning as up
import unified_planning.engines.factory as _fa
from unified_planning.engines.mixins.compiler import CompilerMixin as _CM
from unified_planning.engines.engine import OperationMode as _OM
from unified_planning.exceptions import UPNoSuitableEngineAvailableException as _NoEngine

EC, PK, CK, ENG = Ref("EngineClass09"), Ref("ProblemKind09"), Ref("CompilationKind09"), Ref("CompilerInstance09")
_E, _K, _C = EC.z3sort(), PK.z3sort(), CK.z3sort()
ISC = z3.Function("is_compiler", _E, z3.BoolSort())
SUPC = z3.Function("supports_compilation", _E, _C, z3.BoolSort())
SUP = z3.Function("supports", _E, _K, z3.BoolSort())
RPK = z3.Function("resulting_problem_kind", _E, _K, _C, _K)
EC.methods["is_compiler"] = lambda e, st, sv, a, k: iter([(st, SBool(ISC(sv.z)))])
EC.methods["supports_compilation"] = lambda e, st, sv, a, k: iter([(st, SBool(SUPC(sv.z, a[0].z)))])
EC.methods["supports"] = lambda e, st, sv, a, k: iter([(st, SBool(SUP(sv.z, a[0].z)))])
EC.methods["resulting_problem_kind"] = lambda e, st, sv, a, k: iter([(st, PK.wrap(RPK(sv.z, a[0].z, a[1].z)))])


def _issubclass(eng, st, args, kw):
    # every engine class answering is_compiler() with True derives from CompilerMixin (is_compiler is overridden only there): assumed
    c, base = args
    if isinstance(c, SRef) and c.t is EC and base is _CM:
        yield st, SBool(ISC(c.z))
        return
    raise Unsupported("issubclass outside the contract's model")


def SAT(e, k, c_none, c):
    return z3.And(ISC(e), z3.Or(c_none, SUPC(e, c)), SUP(e, k))


class EngineSatisfiesConditions(Unit):
    prop = "C09"
    name = "Factory._engine_satisfies_conditions[COMPILER]"
    doc = "True exactly for a compiler class that supports the compilation kind (when one is asked for) and the problem kind"

    def target(self):
        return _fa.Factory._engine_satisfies_conditions

    def configure(self, eng):
        eng.contracts[issubclass] = _issubclass

    def setup(self, eng, st):
        e, k, c = EC.fresh("EngineClass"), PK.fresh("problem_kind"), CK.fresh("compilation_kind")
        cn = z3.Bool(fresh_name("compilation_kind.isnone"))
        fac = st.alloc(Rec(_fa.Factory, {}), "factory")
        return [fac, e, _OM.COMPILER, k, None, SUnion([(cn, None), (z3.Not(cn), c)]), None, None], {}, dict(e=e, k=k, c=c, cn=cn)

    def post(self, eng, ctx, st, out):
        if out[0] != "return":
            return
        r = eng.as_bool_value(st, out[1])
        st.oblige("accepted iff it is a compiler supporting the compilation kind and the problem kind",
                  zbool(r) == SAT(ctx["e"].z, ctx["k"].z, ctx["cn"], ctx["c"].z))


QN_GEC = "unified_planning.engines.factory.Factory._get_engine_class"
SATF = z3.Function("_engine_satisfies_conditions.result", _E, _K, _C, z3.BoolSort())
PK.fields["features"] = Seq(Str)
PK.fields["version"] = Ref("KindVersion09")


class GetEngineClass(Unit):
    prop = "C09"
    name = "Factory._get_engine_class[COMPILER, by kind]"
    doc = ("for any preference list: the class returned is registered, satisfies _engine_satisfies_conditions for the given problem kind and "
           "compilation kind, and no class earlier in the preference order does; UPNoSuitableEngineAvailableException exactly when none does")
    allowed_raises = (_NoEngine,)

    def target(self):
        return _fa.Factory._get_engine_class

    def configure(self, eng):
        eng.contracts[issubclass] = _issubclass
        eng.contracts[_fa.Factory._engine_satisfies_conditions] = \
            lambda e, st, a, k: iter([(st, SBool(SATF(a[1].z, a[3].z, a[5].z)))])
        eng.contracts[_fa.ProblemKind] = lambda e, st, a, k: iter([(st, PK.fresh("single_feature_kind"))])
        eng.contracts[str] = lambda e, st, a, k: iter([(st, Str.fresh("text"))])
        eng.contracts[_fa.format_table] = lambda e, st, a, k: iter([(st, Str.fresh("table"))])

        def inv(L):
            i = L.iter_index.z
            pref, engines, k, c = self._pref, self._engines, self._k, self._c
            j = z3.Int(fresh_name("j"))
            return [("no class earlier in the preference order satisfies the conditions",
                     z3.ForAll([j], z3.Implies(z3.And(0 <= j, j < i), z3.Not(SATF(z3.Select(engines.val, pref.at(B.SInt(j)).z), k.z, c.z)))))]
        eng.loops[(QN_GEC, 0)] = LoopSpec(inv, modifies=["name", "EngineClass", "x", "pk_v", "planners_features"],
                                          types={"name": Str, "EngineClass": EC}, opaque=["x", "pk_v", "planners_features"])

    def setup(self, eng, st):
        k, c = PK.fresh("problem_kind"), CK.fresh("compilation_kind")
        pref = eng.fresh_of(st, Seq(Str), "preference_list")
        engines = eng.fresh_of(st, Map(Str, EC), "engines")
        j = z3.Int(fresh_name("j"))
        st.assume(z3.ForAll([j], z3.Implies(z3.And(0 <= j, j < pref.n), z3.Select(engines.has, pref.at(B.SInt(j)).z))))   # Factory invariant
        self._pref, self._engines, self._k, self._c = pref, engines, k, c
        fac = st.alloc(Rec(_fa.Factory, {"_engines": st.alloc(engines, "dict"), "_preference_list": st.alloc(pref, "list")}), "factory")
        return [fac, _OM.COMPILER, None, k], {"compilation_kind": c}, dict(k=k, c=c, pref=pref, engines=engines)

    def post(self, eng, ctx, st, out):
        pref, engines, k, c = ctx["pref"], ctx["engines"], ctx["k"], ctx["c"]
        j = z3.Int(fresh_name("j"))
        sat_at = lambda jj: SATF(z3.Select(engines.val, pref.at(B.SInt(jj)).z), k.z, c.z)
        if out[0] == "raise":
            st.oblige("no suitable engine only when no class of the preference list satisfies the conditions",
                      z3.ForAll([j], z3.Implies(z3.And(0 <= j, j < pref.n), z3.Not(sat_at(j)))))
            return
        r = out[1]
        if not (isinstance(r, SRef) and r.t is EC):
            st.oblige("an engine class is returned", z3.BoolVal(False))
            return
        st.oblige("the class returned satisfies the conditions for this problem kind and compilation kind", SATF(r.z, k.z, c.z))
        st.oblige("it is the first such class in the preference order",
                  z3.Exists([j], z3.And(0 <= j, j < pref.n, z3.Select(engines.val, pref.at(B.SInt(j)).z) == r.z, sat_at(j),
                                        z3.ForAll([j2 := z3.Int(fresh_name("j2"))], z3.Implies(z3.And(0 <= j2, j2 < j), z3.Not(sat_at(j2)))))))


UNITS = [EngineSatisfiesConditions(), GetEngineClass()]
LEVEL = "exploration"
EXPLANATION = __doc__

"""C36 — planning states behave like finite maps under any update history.

B (model-based run-time contract): random branching histories of make_child on the real UPState (subclasses
with MAX_ANCESTORS in {1, 2, 3, 20, None}) against a plain dict model: get_value returns the most recent
update along the history, else the fluent's default, else raises UPStateMissingFluentError; == and hash
agree with equality of the total views.  P: UPState.get_value is proved on the real source for an arbitrary ancestor chain against the recursively defined finite-map
view (loop invariant over the father link).  UPState.make_child is proved for any positive ancestor limit and for no limit (both branches: a child
chained to its parent, and the condensing branch with its nested loops over the ancestor chain, the filtering dict comprehension and the
constructor's loop, inlined from the real __init__): the child gives every fluent the updated value, else the parent's value under get_value
semantics (explicit value, else default, else missing), a fatherless state stores only non-default values, ancestor counts are right, the
parent chain is never written.  _condense_state / == / hash mutate the receiver in place while other states alias it as an ancestor: that needs
a heap with mutable fields (not built) and stays in the bounded layer.
"""
import random
import warnings

USES_THEORY = False

# ------------------------------------------------------------------------------------------------ proved kernel
# UPState.get_value on the real source over an arbitrary (acyclic) chain of ancestors.  The finite-map view of a state is
# defined by recursion on the father link:   view(s)[k] = s._values[k] if k in s._values else view(s._father)[k]
# (undefined when there is no father).  Proved: the while loop returns view(self)[k] when it is defined, otherwise the
# fluent's default, otherwise raises UPStateMissingFluentError -- for every state, chain length and key.
import z3
from pyvc.values import Ref, Map, Opt, SBool, SRef, SUnion, fresh_name
from pyvc.values import Bool as PBool, Int as PInt, SInt, SMap, SSeq, Rec, Loc, CDict, zint, zbool, Unsupported
from pyvc.verify import Unit
from pyvc.engine import LoopSpec
from pyvc import builtins as B
import unified_planning.model.state as _sm
from unified_planning.exceptions import UPStateMissingFluentError as _Missing

FN = Ref("FNode36")
FL = Ref("Fluent36")
FS = Ref("FluentSet36")
ST = Ref("UPState36")
FN.observers["fluent"] = ((), FL)
FS.fields["fluents_defaults"] = Map(FL, FN)
ST.fields["_values"] = Map(FN, FN, ordered=True)
ST.fields["_ancestors"] = PInt
ST.fields["_father"] = Opt(ST)
ST.fields["_fluent_set"] = FS
ST.pycls = _sm.UPState       # methods not modelled here (e.g. _is_nondefault) are inlined from the real class
QN_GV = "unified_planning.model.state.UPState.get_value"

_S, _K = ST.z3sort(), FN.z3sort()
Vhas = z3.Function("view.has", _S, _K, z3.BoolSort())
Vval = z3.Function("view.val", _S, _K, _K)
vals_has = B._uf("UPState36._values.has", _S, z3.ArraySort(_K, z3.BoolSort()))
vals_val = B._uf("UPState36._values.val", _S, z3.ArraySort(_K, _K))
father_none = B._uf("UPState36._father.isnone", _S, z3.BoolSort())
father = B._uf("UPState36._father", _S, _S)


def view_axioms():
    s, k = z3.Const("s!v", _S), z3.Const("k!v", _K)
    own = z3.Select(vals_has(s), k)
    return [z3.ForAll([s, k], Vhas(s, k) == z3.Or(own, z3.And(z3.Not(father_none(s)), Vhas(father(s), k))), patterns=[Vhas(s, k)]),
            z3.ForAll([s, k], Vval(s, k) == z3.If(own, z3.Select(vals_val(s), k), Vval(father(s), k)), patterns=[Vval(s, k)])]


class GetValue(Unit):
    prop = "C36"
    name = "UPState.get_value"
    doc = "returns the finite-map view's value, else the fluent's default, else raises UPStateMissingFluentError"
    allowed_raises = (_Missing,)

    def target(self):
        return _sm.UPState.get_value

    def configure(self, eng):
        eng.axioms.extend(view_axioms())

        def inv(L):
            cur = L.current_instance
            k = L.fluent
            me = L.self
            if isinstance(cur, SUnion):
                # Optional[UPState]: None means the chain is exhausted without finding the key
                alts = []
                for g, v in cur.alts:
                    if v is None:
                        alts.append(z3.Implies(g, z3.Not(Vhas(me.z, k.z))))
                    else:
                        alts.append(z3.Implies(g, z3.And(Vhas(me.z, k.z) == Vhas(v.z, k.z), z3.Implies(Vhas(v.z, k.z), Vval(me.z, k.z) == Vval(v.z, k.z)))))
                return SBool(z3.And(alts))
            if cur is None:
                return SBool(z3.Not(Vhas(me.z, k.z)))
            return SBool(z3.And(Vhas(me.z, k.z) == Vhas(cur.z, k.z), z3.Implies(Vhas(cur.z, k.z), Vval(me.z, k.z) == Vval(cur.z, k.z))))
        eng.loops[(QN_GV, 0)] = LoopSpec(inv, modifies=["current_instance", "value_found"], types={"current_instance": Opt(ST), "value_found": Opt(FN)})

    def setup(self, eng, st):
        me, k = ST.fresh("self"), FN.fresh("fluent")
        return [me, k], {}, dict(me=me, k=k)

    def post(self, eng, ctx, st, out):
        me, k = ctx["me"], ctx["k"]
        fs = B._uf("UPState36._fluent_set", _S, FS.z3sort())(me.z)
        fl = B._uf("FNode36.fluent()", _K, FL.z3sort())(k.z)
        dh = z3.Select(B._uf("FluentSet36.fluents_defaults.has", FS.z3sort(), z3.ArraySort(FL.z3sort(), z3.BoolSort()))(fs), fl)
        dv = z3.Select(B._uf("FluentSet36.fluents_defaults.val", FS.z3sort(), z3.ArraySort(FL.z3sort(), _K))(fs), fl)
        if out[0] == "raise":
            st.oblige("raises only when neither the view nor the defaults have the key", z3.And(z3.Not(Vhas(me.z, k.z)), z3.Not(dh)))
            return
        r = out[1]
        if isinstance(r, SUnion):
            r = r.some()
        st.oblige("view value when the view has the key", z3.Implies(Vhas(me.z, k.z), r.z == Vval(me.z, k.z)))
        st.oblige("default otherwise", z3.Implies(z3.Not(Vhas(me.z, k.z)), z3.And(dh, r.z == dv)))


# ------------------------------------------------------------------------------------------------ make_child
from unified_planning.exceptions import UPValueError as _UPValueError   # noqa: E402
QN_MC = "unified_planning.model.state.UPState.make_child"
QN_INIT = "unified_planning.model.state.UPState.__init__"
for _n in ("is_fluent_exp", "is_constant"):
    FN.observers[_n] = ((), PBool)
MAXSYM = z3.Int("MAX_ANCESTORS")


class _SymLimit(_sm.UPState):
    """stands for any subclass of UPState: MAX_ANCESTORS is an arbitrary positive integer"""
    MAX_ANCESTORS = SInt(MAXSYM)


class _NoLimit(_sm.UPState):
    MAX_ANCESTORS = None


def _dflt(fs_z, key_z):
    fl = B._uf("FNode36.fluent()", _K, FL.z3sort())(key_z)
    dh = z3.Select(B._uf("FluentSet36.fluents_defaults.has", FS.z3sort(), z3.ArraySort(FL.z3sort(), z3.BoolSort()))(fs_z), fl)
    dv = z3.Select(B._uf("FluentSet36.fluents_defaults.val", FS.z3sort(), z3.ArraySort(FL.z3sort(), _K))(fs_z), fl)
    return dh, dv


def nondefault(fs_z, k, v):
    dh, dv = _dflt(fs_z, k)
    return z3.Or(z3.Not(dh), dv != v)


class MakeChild(Unit):
    prop = "C36"
    allowed_raises = ()

    def __init__(self, limit_cls, tag):
        self.limit_cls = limit_cls
        self.name = f"UPState.make_child [{tag}]"
        self.doc = ("the child gives every fluent the updated value, else the parent's value (get_value semantics incl. defaults / missing); a condensed child "
                    "has no father, stores only non-default values; the parent chain is not written")

    def target(self):
        return _sm.UPState.make_child

    def configure(self, eng):
        eng.axioms.extend(view_axioms())
        ST.type_hook = lambda e, st, v: self.limit_cls
        me_z = lambda L: L.self.z     # noqa: E731

        def R(c, k):
            """the key is still to be found from current_instance upwards"""
            if c is None:
                return z3.BoolVal(False), None
            if isinstance(c, SUnion):
                g_none = c.is_none().z
                some = c.some()
                return z3.And(z3.Not(g_none), Vhas(some.z, k)), some
            return Vhas(c.z, k), c

        def outer(L):
            k = z3.Const(fresh_name("k"), _K)
            comp, upd = L.complete_values, self._upd
            rk, cur = R(L.current_instance, k)
            me = me_z(L)
            cval = Vval(cur.z, k) if cur is not None else Vval(me, k)
            isf, isc = B._uf("FNode36.is_fluent_exp()", _K, z3.BoolSort()), B._uf("FNode36.is_constant()", _K, z3.BoolSort())
            return [("every updated key is collected", z3.ForAll([k], z3.Implies(z3.Select(upd.has, k), z3.Select(comp.has, k)))),
                    ("collected keys are fluent expressions with constant values",
                     z3.ForAll([k], z3.Implies(z3.Select(comp.has, k), z3.And(isf(k), isc(z3.Select(comp.val, k)))))),
                    ("found so far or still above == updated or in the parent's view",
                     z3.ForAll([k], z3.Or(z3.Select(comp.has, k), rk) == z3.Or(z3.Select(upd.has, k), Vhas(me, k)))),
                    ("collected values are the updated value, else the parent's view value",
                     z3.ForAll([k], z3.Implies(z3.Select(comp.has, k), z3.Select(comp.val, k) == z3.If(z3.Select(upd.has, k), z3.Select(upd.val, k), Vval(me, k))))),
                    ("a key not yet collected has, from current_instance upwards, the parent's view value",
                     z3.ForAll([k], z3.Implies(z3.And(z3.Not(z3.Select(comp.has, k)), rk), cval == Vval(me, k))))]
        eng.loops[(QN_MC, 0)] = LoopSpec(outer, modifies=["current_instance", "complete_values", "k", "v"],
                                         types={"current_instance": Opt(ST), "complete_values": Map(FN, FN)})

        def inner(L):
            k = z3.Const(fresh_name("k"), _K)
            comp = L.complete_values
            c0 = L._pre.complete_values
            items = L._seq
            own, idx = items.m, items.idx
            i = zint(L._i)
            return [("collected == collected before this ancestor + its scanned entries (earlier entries win)",
                     z3.ForAll([k], z3.And(z3.Select(comp.has, k) == z3.Or(z3.Select(c0.has, k), z3.And(z3.Select(own.has, k), z3.Select(idx, k) < i)),
                                           z3.Implies(z3.Select(comp.has, k), z3.Select(comp.val, k) == z3.If(z3.Select(c0.has, k), z3.Select(c0.val, k), z3.Select(own.val, k))))))]
        eng.loops[(QN_MC, 1)] = LoopSpec(inner, modifies=["k", "v", "complete_values"], types={"complete_values": Map(FN, FN)})

        def init_loop(L):
            k = z3.Const(fresh_name("k"), _K)
            items = L._seq
            src, idx = items.m, items.idx
            i = zint(L._i)
            me = L.self
            vals = L.st.load(L.st.getfield(me, "_values"))
            father = L._father
            keep_all = z3.BoolVal(father is not None) if not isinstance(father, SUnion) else z3.Not(father.is_none().z)
            fs = L.problems_fluent_set
            if isinstance(vals, (B.PendingEmpty, CDict)):
                has, val = (lambda kk: z3.BoolVal(False)), None
            else:
                has, val = (lambda kk: z3.Select(vals.has, kk)), vals.val
            return [("stored == scanned entries that are kept (all under a father, the non-default ones otherwise)",
                     z3.ForAll([k], z3.And(has(k) == z3.And(z3.Select(src.has, k), z3.Select(idx, k) < i, z3.Or(keep_all, nondefault(fs.z, k, z3.Select(src.val, k)))),
                                           z3.Implies(has(k), (z3.Select(val, k) if val is not None else z3.Select(src.val, k)) == z3.Select(src.val, k)))))]
        eng.loops[(QN_INIT, 0)] = LoopSpec(init_loop, modifies=["fluent", "value", "self._values"], types={"self._values": Map(FN, FN, ordered=True)})

    def setup(self, eng, st):
        me = ST.fresh("self")
        upd = eng.fresh_of(st, Map(FN, FN, ordered=True), "updated_values")
        self._upd = upd
        st.assume(MAXSYM >= 1)
        anc = B._uf("UPState36._ancestors", _S, z3.IntSort())
        st.assume(anc(me.z) >= 0)
        # class invariant of the states that exist: keys are fluent expressions, values constants (checked by every constructor call)
        k = z3.Const(fresh_name("k"), _K)
        isf, isc = B._uf("FNode36.is_fluent_exp()", _K, z3.BoolSort()), B._uf("FNode36.is_constant()", _K, z3.BoolSort())
        s_ = z3.Const(fresh_name("s"), _S)
        eng.axioms.append(z3.ForAll([s_, k], z3.Implies(z3.Select(vals_has(s_), k), z3.And(isf(k), isc(z3.Select(vals_val(s_), k)))), patterns=[z3.Select(vals_has(s_), k)]))
        st.assume(z3.ForAll([k], z3.Implies(z3.Select(upd.has, k), z3.And(isf(k), isc(z3.Select(upd.val, k))))))
        return [me, st.alloc(upd, "dict")], {}, dict(me=me, upd=upd)

    def post(self, eng, ctx, st, out):
        if out[0] != "return":
            return
        me, upd = ctx["me"], ctx["upd"]
        child = eng.deref(st, out[1])
        if not isinstance(child, Rec):
            st.oblige("a new state object is returned", z3.BoolVal(False))
            return
        f = child.fields
        vals = eng.deref(st, f["_values"])
        father = f["_father"]
        fs = B._uf("UPState36._fluent_set", _S, FS.z3sort())(me.z)
        k = z3.Const(fresh_name("k"), _K)
        if isinstance(vals, (B.PendingEmpty, CDict)):
            chas, cval = (lambda kk: z3.BoolVal(False)), (lambda kk: kk)
        else:
            chas, cval = (lambda kk: z3.Select(vals.has, kk)), (lambda kk: z3.Select(vals.val, kk))
        dh, dv = _dflt(fs, k)
        # get_value semantics of the parent and of the specification
        p_has, p_val = z3.Or(Vhas(me.z, k), dh), z3.If(Vhas(me.z, k), Vval(me.z, k), dv)
        s_has, s_val = z3.Or(z3.Select(upd.has, k), p_has), z3.If(z3.Select(upd.has, k), z3.Select(upd.val, k), p_val)
        if father is None:
            c_has, c_val = z3.Or(chas(k), dh), z3.If(chas(k), cval(k), dv)
            st.oblige("a state without a father stores only non-default values", z3.ForAll([k], z3.Implies(chas(k), nondefault(fs, k, cval(k)))))
            st.oblige("a state without a father has no ancestors", zint(f["_ancestors"]) == 0)
        elif isinstance(father, SUnion):
            st.oblige("the father of an uncondensed child is the state it was made from", z3.BoolVal(False))
            return
        else:
            st.oblige("the father of an uncondensed child is the state it was made from", father.z == me.z)
            c_has = z3.Or(chas(k), p_has)
            c_val = z3.If(chas(k), cval(k), p_val)
            st.oblige("ancestor count grows by one", zint(f["_ancestors"]) == B._uf("UPState36._ancestors", _S, z3.IntSort())(me.z) + 1)
            st.oblige("an uncondensed child only when the limit allows it", B._uf("UPState36._ancestors", _S, z3.IntSort())(me.z) < MAXSYM
                      if self.limit_cls is _SymLimit else z3.BoolVal(False))
        st.oblige("the child has a value for exactly the fluents that are updated or have a value in the parent",
                  z3.ForAll([k], c_has == s_has))
        st.oblige("that value is the updated one, else the parent's", z3.ForAll([k], z3.Implies(s_has, c_val == s_val)))
        st.oblige("the child shares the parent's fluent set (defaults)", f["_fluent_set"].z == fs)


class Init(Unit):
    """UPState.__init__ called directly (the public constructor), with ANY map of fluent expressions to constants -- not only the pre-filtered map make_child passes"""
    prop = "C36"
    allowed_raises = ()

    def __init__(self, with_father):
        self.with_father = with_father
        self.name = "UPState.__init__ [" + ("with a father" if with_father else "no father") + "]"
        self.doc = ("a state built without a father stores exactly the given entries whose value differs from the fluent's default (so valuation-equal roots are equal), has no "
                    "ancestors; under a father every given entry is stored and the ancestor count grows by one")

    def target(self):
        return _sm.UPState.__init__

    replay_without_model = True      # the solvers answer `unknown` on the quantified invariant when it is false: the clause is then tried natively

    def replay(self, ctx, model, obligation):
        """directed native input for the clause the obligation names: a root given an entry AT its default and one off its default; the same under a father"""
        from unified_planning.shortcuts import Problem, Fluent, IntType, Int
        from unified_planning.model import UPState
        pr = Problem("replay_init")
        x, y = Fluent("x", IntType()), Fluent("y", IntType())
        pr.add_fluent(x, default_initial_value=0)
        pr.add_fluent(y, default_initial_value=0)
        given = {x(): Int(0), y(): Int(1)}
        root = UPState(given, pr)
        if not self.with_father:
            got = dict(root._values)
            bad = got != {y(): Int(1)} or root._father is not None or root._ancestors != 0
            return {"reproduced": bool(bad), "concrete": {"values": "{x: 0 (its default), y: 1}", "father": None}, "observed": {str(k): str(v) for k, v in got.items()}}
        child = UPState(given, pr, _father=root)
        got = dict(child._values)
        bad = got != given or child._father is not root or child._ancestors != root._ancestors + 1
        return {"reproduced": bool(bad), "concrete": {"values": "{x: 0 (its default), y: 1}", "father": "a root state"},
                "observed": {"stored": {str(k): str(v) for k, v in got.items()}, "ancestors": child._ancestors}}

    def configure(self, eng):
        MakeChild(_SymLimit, "loop specifications").configure(eng)

    def setup(self, eng, st):
        vals = eng.fresh_of(st, Map(FN, FN, ordered=True), "values")
        st.assume(MAXSYM >= 1)
        k = z3.Const(fresh_name("k"), _K)
        isf, isc = B._uf("FNode36.is_fluent_exp()", _K, z3.BoolSort()), B._uf("FNode36.is_constant()", _K, z3.BoolSort())
        st.assume(z3.ForAll([k], z3.Implies(z3.Select(vals.has, k), z3.And(isf(k), isc(z3.Select(vals.val, k))))))      # the documented input: fluent expressions -> constants
        me = st.alloc(Rec(_SymLimit, {}), "self")
        fs = FS.fresh("problems_fluent_set")
        father = ST.fresh("father") if self.with_father else None
        if father is not None:
            st.assume(B._uf("UPState36._ancestors", _S, z3.IntSort())(father.z) >= 0)
        return [me, st.alloc(vals, "dict"), fs, father], {}, dict(me=me, vals=vals, fs=fs, father=father)

    def post(self, eng, ctx, st, out):
        if out[0] != "return":
            return
        me, src, fs, father = ctx["me"], ctx["vals"], ctx["fs"], ctx["father"]
        rec = st.load(me)
        f = rec.fields
        vals = eng.deref(st, f["_values"])
        k = z3.Const(fresh_name("k"), _K)
        if isinstance(vals, (B.PendingEmpty, CDict)):
            has, val = (lambda kk: z3.BoolVal(False)), (lambda kk: kk)
        else:
            has, val = (lambda kk: z3.Select(vals.has, kk)), (lambda kk: z3.Select(vals.val, kk))
        sv = z3.Select(src.val, k)
        if father is None:
            st.oblige("without a father exactly the given entries that differ from the default are stored",
                      z3.ForAll([k], z3.And(has(k) == z3.And(z3.Select(src.has, k), nondefault(fs.z, k, sv)), z3.Implies(has(k), val(k) == sv))))
            st.oblige("no father recorded, no ancestors", z3.And(z3.BoolVal(f["_father"] is None), zint(f["_ancestors"]) == 0))
        else:
            st.oblige("under a father every given entry is stored", z3.ForAll([k], z3.And(has(k) == z3.Select(src.has, k), z3.Implies(has(k), val(k) == sv))))
            fz = f["_father"]
            st.oblige("the father is recorded and the ancestor count grows by one",
                      z3.And(z3.BoolVal(isinstance(fz, SRef)) if not isinstance(fz, SRef) else fz.z == father.z,
                             zint(f["_ancestors"]) == B._uf("UPState36._ancestors", _S, z3.IntSort())(father.z) + 1))
        st.oblige("the fluent set is the one given", z3.BoolVal(isinstance(f["_fluent_set"], SRef)) if not isinstance(f["_fluent_set"], SRef) else f["_fluent_set"].z == fs.z)
        st.oblige("the hash cache starts empty", z3.BoolVal(f.get("_hash", "?") is None))


UNITS = [GetValue(), MakeChild(_SymLimit, "any positive ancestor limit"), MakeChild(_NoLimit, "no limit"), Init(False), Init(True)]


def bounded(tier, seed):
    from unified_planning.shortcuts import Problem, Fluent, BoolType, IntType, UserType, Object, Int, TRUE, FALSE
    from unified_planning.model import UPState
    from unified_planning.exceptions import UPStateMissingFluentError
    nhist, steps = (300, 12) if tier == "quick" else (4000, 25)
    failures, evals, nontrivial, samples = [], 0, set(), []
    T = UserType("T")
    objs = [Object(f"o{i}", T) for i in range(3)]
    pr = Problem("s")
    pr.add_objects(objs)
    a = Fluent("a", BoolType(), x=T)      # default False
    b = Fluent("b", IntType())            # default 0
    c = Fluent("c", IntType(), x=T)       # no default
    d = Fluent("d", T)                    # no default
    pr.add_fluent(a, default_initial_value=False)
    pr.add_fluent(b, default_initial_value=0)
    pr.add_fluent(c)
    pr.add_fluent(d)
    em = pr.environment.expression_manager
    keys = [a(o) for o in objs] + [b()] + [c(o) for o in objs] + [d()]
    defaults = {k: (em.FALSE() if k.fluent() == a else em.Int(0)) for k in keys if k.fluent() in (a, b)}

    def rnd_val(rng, k):
        f = k.fluent()
        if f == a:
            return rng.choice([em.TRUE(), em.FALSE()])
        if f == d:
            return em.ObjectExp(rng.choice(objs))
        return em.Int(rng.randint(0, 2))

    # make_child builds plain UPState objects, so the ancestor limit is set on the class itself for the
    # duration of one history (restored afterwards)
    limits = (1, 2, 3, 20, None)
    saved_limit = UPState.MAX_ANCESTORS
    cls = UPState
    for h in range(nhist):
        rng = random.Random(seed * 7919 + h)
        UPState.MAX_ANCESTORS = limits[h % len(limits)]
        init = {k: rnd_val(rng, k) for k in keys if rng.random() < 0.5}
        real = [cls(dict(init), pr)]
        model = [dict(defaults) | init]
        log = [("init", {str(k): str(v) for k, v in init.items()})]
        for step in range(steps):
            i = rng.randrange(len(real))
            upd = {k: rnd_val(rng, k) for k in rng.sample(keys, rng.randint(0, 3))}
            if rng.random() < 0.5:          # reset to its default a fluent that currently has another value
                cands = [k for k in keys if k in defaults and model[i].get(k) is not defaults[k]]
                if cands:
                    k = rng.choice(cands)
                    upd[k] = defaults[k]
            real.append(real[i].make_child(dict(upd)))
            model.append(model[i] | upd)
            log.append(("child_of", i, {str(k): str(v) for k, v in upd.items()}))
            if rng.random() < 0.3:
                hash(real[rng.randrange(len(real))])     # condensation in the middle of a history
        for j, (r, m) in enumerate(zip(real, model)):
            for k in keys:
                evals += 1
                try:
                    got = r.get_value(k)
                except UPStateMissingFluentError:
                    got = None
                want = m.get(k)
                if got is not want:
                    failures.append({"what": f"history {h} (MAX_ANCESTORS={cls.MAX_ANCESTORS}): state {j} returns {got} for {k}, model says {want}",
                                     "concrete": {"log": log, "limit": cls.MAX_ANCESTORS}, "observed": str(got)})
                    break
        for j in range(len(real)):
            for l in range(j, len(real)):
                evals += 1
                same = model[j] == model[l]
                if same and j != l:
                    nontrivial.add((h, j, l))
                eq = real[j] == real[l]
                if eq != same or (same and hash(real[j]) != hash(real[l])):
                    failures.append({"what": f"history {h} (MAX_ANCESTORS={cls.MAX_ANCESTORS}): states {j},{l}: == is {eq}, views equal is {same}, "
                                             f"hashes {'equal' if hash(real[j]) == hash(real[l]) else 'differ'}",
                                     "concrete": {"log": log, "limit": cls.MAX_ANCESTORS}, "observed": None})
                    break
        if len(samples) < 2:
            samples.append({"limit": cls.MAX_ANCESTORS, "history": log[:5]})
        if len(failures) >= 4:
            break
    UPState.MAX_ANCESTORS = saved_limit
    return {"evaluations": evals, "distinct_nontrivial": len(nontrivial), "failures": failures[:4],
            "rule": f"{nhist} random branching histories of {steps} make_child steps over 8 ground fluents (defaults for 4), ancestor limits "
                    f"1/2/3/20/None, condensation interleaved; non-trivial = distinct pair of different states with equal views",
            "samples": samples, "bound": f"{nhist} histories x {steps} steps"}


LEVEL = "other"
EXPLANATION = __doc__

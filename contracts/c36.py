"""C36 — planning states behave like finite maps under any update history.

B (model-based run-time contract): random branching histories of make_child on the real UPState (subclasses
with MAX_ANCESTORS in {1, 2, 3, 20, None}) against a plain dict model: get_value returns the most recent
update along the history, else the fluent's default, else raises UPStateMissingFluentError; == and hash
agree with equality of the total views.  A heap-linked proof (ghost view field) is planned (DESIGN.md 2.6);
until then this property is decided bounded only.
"""
import random
import warnings

UNITS = []
USES_THEORY = False


def bounded(tier, seed):
    from unified_planning.shortcuts import Problem, Fluent, BoolType, IntType, UserType, Object, Int, TRUE, FALSE
    from unified_planning.model import UPState
    from unified_planning.exceptions import UPStateMissingFluentError
    nhist, steps = (300, 12) if tier == "quick" else (4000, 25)
    failures, evals, nontrivial, samples = [], 0, set(), []
    T = UserType("T")
    objs = [Object(f"o{i}", T) for i in range(3)]
    pr = Problem("s")
    pr.add_objects(objs)
    a = Fluent("a", BoolType(), x=T)      # default False
    b = Fluent("b", IntType())            # default 0
    c = Fluent("c", IntType(), x=T)       # no default
    d = Fluent("d", T)                    # no default
    pr.add_fluent(a, default_initial_value=False)
    pr.add_fluent(b, default_initial_value=0)
    pr.add_fluent(c)
    pr.add_fluent(d)
    em = pr.environment.expression_manager
    keys = [a(o) for o in objs] + [b()] + [c(o) for o in objs] + [d()]
    defaults = {k: (em.FALSE() if k.fluent() == a else em.Int(0)) for k in keys if k.fluent() in (a, b)}

    def rnd_val(rng, k):
        f = k.fluent()
        if f == a:
            return rng.choice([em.TRUE(), em.FALSE()])
        if f == d:
            return em.ObjectExp(rng.choice(objs))
        return em.Int(rng.randint(0, 2))

    # make_child builds plain UPState objects, so the ancestor limit is set on the class itself for the
    # duration of one history (restored afterwards)
    limits = (1, 2, 3, 20, None)
    saved_limit = UPState.MAX_ANCESTORS
    cls = UPState
    for h in range(nhist):
        rng = random.Random(seed * 7919 + h)
        UPState.MAX_ANCESTORS = limits[h % len(limits)]
        init = {k: rnd_val(rng, k) for k in keys if rng.random() < 0.5}
        real = [cls(dict(init), pr)]
        model = [dict(defaults) | init]
        log = [("init", {str(k): str(v) for k, v in init.items()})]
        for step in range(steps):
            i = rng.randrange(len(real))
            upd = {k: rnd_val(rng, k) for k in rng.sample(keys, rng.randint(0, 3))}
            if rng.random() < 0.5:          # reset to its default a fluent that currently has another value
                cands = [k for k in keys if k in defaults and model[i].get(k) is not defaults[k]]
                if cands:
                    k = rng.choice(cands)
                    upd[k] = defaults[k]
            real.append(real[i].make_child(dict(upd)))
            model.append(model[i] | upd)
            log.append(("child_of", i, {str(k): str(v) for k, v in upd.items()}))
            if rng.random() < 0.3:
                hash(real[rng.randrange(len(real))])     # condensation in the middle of a history
        for j, (r, m) in enumerate(zip(real, model)):
            for k in keys:
                evals += 1
                try:
                    got = r.get_value(k)
                except UPStateMissingFluentError:
                    got = None
                want = m.get(k)
                if got is not want:
                    failures.append({"what": f"history {h} (MAX_ANCESTORS={cls.MAX_ANCESTORS}): state {j} returns {got} for {k}, model says {want}",
                                     "concrete": {"log": log, "limit": cls.MAX_ANCESTORS}, "observed": str(got)})
                    break
        for j in range(len(real)):
            for l in range(j, len(real)):
                evals += 1
                same = model[j] == model[l]
                if same and j != l:
                    nontrivial.add((h, j, l))
                eq = real[j] == real[l]
                if eq != same or (same and hash(real[j]) != hash(real[l])):
                    failures.append({"what": f"history {h} (MAX_ANCESTORS={cls.MAX_ANCESTORS}): states {j},{l}: == is {eq}, views equal is {same}, "
                                             f"hashes {'equal' if hash(real[j]) == hash(real[l]) else 'differ'}",
                                     "concrete": {"log": log, "limit": cls.MAX_ANCESTORS}, "observed": None})
                    break
        if len(samples) < 2:
            samples.append({"limit": cls.MAX_ANCESTORS, "history": log[:5]})
        if len(failures) >= 4:
            break
    UPState.MAX_ANCESTORS = saved_limit
    return {"evaluations": evals, "distinct_nontrivial": len(nontrivial), "failures": failures[:4],
            "rule": f"{nhist} random branching histories of {steps} make_child steps over 8 ground fluents (defaults for 4), ancestor limits "
                    f"1/2/3/20/None, condensation interleaved; non-trivial = distinct pair of different states with equal views",
            "samples": samples, "bound": f"{nhist} histories x {steps} steps"}


LEVEL = "exploration"
EXPLANATION = __doc__
